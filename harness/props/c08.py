"""C08 — all rows of a table share one right edge and proportional columns.

Theorems: lean/Props/C08.lean about `Model.Widths` (`_col_widths`, `inch_to_twip`, width resolution at
construction, slicing when page_by/subline_by remove columns, header / spanning / footnote / source rows).

Tie to the code on every run:
  unit level        real `Utils._col_widths` + `Utils._inch_to_twip` vs model (driver op `c08_col_widths`,
                    exact rationals of the float inputs); the Lean oracle `rowViol` judges the real twips.
  observation level whole documents through the public API only (`RTFDocument(...).rtf_encode()`), read back
                    with harness/rtfread.py; every table row is classified by sentinel texts; the Lean-defined
                    oracle `checkRows` (the decidable specification `C08_section` is stated with) is evaluated
                    on the *observed* `\\cellx` vectors; the model's row shapes (`sectionRows`) are compared with
                    the observed ones kind by kind.
  history           the document under test is built from RTFBody / RTFColumnHeader objects that were used by
                    an earlier document with another column count (quantifier: "configuration objects that were
                    used by an earlier document").
  sharing           one RTFBody object listed for several sections of ONE document (`rtf_body=[body] * n`; sections
                    with fewer / more / as many columns and other key positions when the body has no or a one-element
                    col_rel_width, sections of the same shape when it has one width per column) and one list of
                    RTFColumnHeader objects listed for several sections (`[[h], [h]]`), alone and together with an
                    earlier document using the same objects.  The widths every section of the real document holds
                    after construction, and the caller's objects afterwards, are compared with the model
                    (`constructSections`, driver op `c08_construct_sections`; theorems C08_sections_shared,
                    C08_section_widths_own).
  row-less sections documents of 2..5 sections of which some (first / middle / last / several / all) have a frame without
                    rows: such a section renders its header rows alone, the sections after it keep their own header rows.
                    Besides the per-section oracle, the rendered ORDER is judged (`foreign_header`): the header rows
                    directly above the data rows of a section that is configured with header rows of its own are that
                    section's; header rows of another section there, with inherited boundaries other than the data
                    rows', label columns that are not theirs.  Header objects listed for several sections are
                    attributed to row-less sections by their position in the rendering order.
  re-configuration  histories of 2..4 documents: the page / body / column-header / footnote / source objects of a
                    document are those of the document before — the very object, the object after `obj.field = v`,
                    `obj.model_copy(update=…)`, `obj.model_copy()`, `copy.deepcopy(obj)` — or new ones; or the document
                    OBJECT is encoded again after assignments to its page.  Every width-bearing option is re-configured
                    (RTFPage col_width and the options its default derives from; col_rel_width of RTFBody — none, one
                    entry, one per column of a frame with another column count —, of RTFColumnHeader — own / inherited —,
                    of RTFFootnote / RTFSource).  Every encoded document of a history is judged by the same oracle and
                    compared with the same model as a single document, at the configuration its objects hold when it is
                    encoded (`Model.WidthsHist.pageRun` / `widthsAtEncodes`, theorems C08_page_history,
                    C08_page_history_rows; C08_page_keep_witness: what keeping the width on the object would do).
Float caveat: rtflite computes in IEEE doubles, the model in exact rationals.  Boundaries whose exact value
lies within 2^-30 twip of a rounding boundary are not compared strictly (either neighbour accepted) unless
the float computation is verifiably exact; they are counted in the evidence (`float_boundary_*`).
"""
from __future__ import annotations

import re
from fractions import Fraction

from .. import common, docgen, rtfread
from ..common import sub_rng

EPS = Fraction(1, 2 ** 30)
EPS_S = f"{EPS.numerator}/{EPS.denominator}"

RULE = ("unit: random width vectors (1..12 columns, ints / dyadic / decimal / arbitrary floats in [0.2,10], "
        "col_width in [2,12]); docs: tagged tables over header mode x page_by/subline_by removal x footnote/source "
        "x orientation/col_width x multi-section x reused configuration objects (by an earlier document; by several "
        "sections of one document: body objects over sections with fewer/more/equal column counts, header objects); "
        "documents of 2-5 sections of which the first / a middle / the last / several / every second / all but one / all "
        "have NO ROWS (per-section, flat and omitted headers; other column counts, widths and removed columns per "
        "section; plain and shared body / header objects; short and multi-page sections; in histories too) - every "
        "data row must stand under the header rows of its own section, not under another section's inherited ones; "
        "histories of 2-4 documents whose page / body / header / footnote / source OBJECTS are those of the document "
        "before, handed on as they are, after attribute assignment, model_copy(update=...), model_copy(), deepcopy, or "
        "re-made (RTFPage col_width / orientation / width / height / margin / nrow; col_rel_width of body, headers, "
        "footnote, source; the document object encoded again after assignments to its page), every document judged at "
        "the configuration its objects hold when it is encoded; "
        "non-trivial = a document with "
        ">= 2 columns displayed in some section and unequal relative widths or a removed column or several row kinds; "
        "distinct by (column counts, masks, header modes, width vectors, table width)")
TRUSTED = [
    "Lean 4.33 kernel; axioms ⊆ {propext, Classical.choice, Quot.sound} (audited per theorem on every run)",
    "Lean compiler for the driver executable (compiled evaluation agrees with kernel reduction)",
    "harness/rtfread.py (Python RTF reader used to observe the \\cellx vector and the cell texts of every row)",
    "expected section description (mask of displayed columns, header modes, table width) is derived by the "
    "harness from the document spec and the documented RTFPage defaults (portrait 6.25in, landscape 8.5in)",
]
MANIFEST = dict(
    text="Lean theorems over the model of Utils._col_widths / inch_to_twip / width resolution / column-removal "
         "slicing / header, spanning, footnote and source rows (all width lists of any length, all W > 0): the last "
         "cumulative width is exactly W, every boundary is within 1/2 twip of its proportional position, boundaries "
         "are monotone and positive, every row kind of a well-formed section ends at twip(W), headers with inherited "
         "widths have the data rows' boundary vector after column removal, widths do not depend on earlier documents "
         "built with the same configuration objects, nor on the other sections of the document that list the same body "
         "object (each section's widths are resolved from its object and its own column count), nor on what a page "
         "object was used for before it was re-configured (the width configured last is the one every row kind of the "
         "next document ends at). Tied to the code on every run by unit correspondence on "
         "_col_widths and by whole documents whose observed \\cellx vectors are judged by the Lean-defined oracle "
         "checkRows and compared with the model's rows, and by comparing the widths "
         "each section holds after construction with the model's, and by histories of documents built from "
         "re-used and re-configured component objects, each judged by the same oracle.",
    note="multi-section documents may contain sections without rows (header rows alone); what such a section does to "
         "the page borders of its neighbours is C07's subject (known finding C07-empty-edge-section), not judged here. "
         "a re-configured page object: once it exists col_width is a field of its own (assigning orientation / width "
         "does not re-derive it); the expectation follows the field. "
         "IEEE-754 arithmetic inside _col_widths is modelled by exact rationals over the exact float inputs; "
         "boundaries within 2^-30 twip of a rounding boundary are excluded from strict comparison and counted. "
         "pydantic, polars are parameters. The header-alignment clause holds only with "
         "fixes/header-widths-after-column-removal.patch (defect D9).",
    technique="Lean 4 proof (induction over width lists, exact rational arithmetic) + differential correspondence "
              "model/implementation",
    design="7/C08",
)
ASSUME = [
    "float rounding inside w*col_width/total and x*1440 stays below 2^-30 twip (checked: model and real cumulative "
    "widths are compared to 1e-9 in the unit stream)",
    "polars column order and selection; pydantic construction/copy semantics",
    "RTFPage defaults: portrait col_width 6.25, landscape 8.5",
]


def frac(x) -> Fraction:
    return Fraction(x)


def fs(x) -> str:
    f = Fraction(x)
    return f"{f.numerator}/{f.denominator}"


def parse_frac(s: str) -> Fraction:
    n, _, d = s.partition("/")
    return Fraction(int(n), int(d or 1))


# ------------------------------------------------------------------ generators of width vectors

def gen_width(rng, style):
    if style == "int":
        return rng.randint(1, 10)
    if style == "dyadic":
        return rng.randint(2, 80) / 8.0
    if style == "dec1":
        return round(rng.uniform(0.2, 10), 1)
    if style == "dec2":
        return round(rng.uniform(0.2, 10), 2)
    return rng.uniform(0.2, 10)


def gen_widths(rng, n):
    style = rng.choice(["int", "int", "dyadic", "dec1", "dec2", "float", "mixed", "equal", "extreme"])
    if style == "equal":
        v = gen_width(rng, rng.choice(["int", "dec1", "float"]))
        return [v] * n
    if style == "extreme":
        return [rng.choice([0.2, 10, 10.0, 0.2, 0.25, 9.99]) for _ in range(n)]
    if style == "mixed":
        return [gen_width(rng, rng.choice(["int", "dyadic", "dec1", "dec2", "float"])) for _ in range(n)]
    return [gen_width(rng, style) for _ in range(n)]


def gen_table_width(rng):
    r = rng.random()
    if r < 0.25:
        return rng.choice([6.25, 8.5, 2, 12, 2.0, 12.0, 7, 9.5])
    if r < 0.5:
        return round(rng.uniform(2, 12), rng.choice([1, 2, 3]))
    if r < 0.6:
        return rng.randint(16, 96) / 8.0
    return rng.uniform(2, 12)


# ------------------------------------------------------------------ unit level

def _unit_worker(case):
    try:
        from rtflite.row import Utils

        w, W = case
        cum = Utils._col_widths(w, W)
        tw = [Utils._inch_to_twip(c) for c in cum]
        prod_exact = [Fraction(c * 1440) == Fraction(c) * 1440 for c in cum]
        return dict(cum=[fs(c) for c in cum], twips=[int(t) for t in tw], prod_exact=prod_exact,
                    twipW=int(Utils._inch_to_twip(W)))
    except (ImportError, AttributeError, TypeError) as e:
        return ("unavailable", f"{type(e).__name__}: {e}")


def unit_cases(rng, tier):
    n_rand = 6000 if tier == "quick" else 150000
    cases = []
    # exact ties by construction (dyadic, total a power of two): exercises round-half-even
    for W in (6.25, 8.5, 2.0, 5.0):
        for tot_pow in (2, 4, 8, 16, 32, 64):
            for k in range(1, 8):
                a = k / 8.0
                if a < tot_pow:
                    cases.append(([a, tot_pow - a], W))
                    cases.append(([a, a, tot_pow - 2 * a] if tot_pow - 2 * a > 0 else [a, tot_pow - a], W))
    for _ in range(n_rand):
        n = rng.randint(1, 12)
        cases.append((gen_widths(rng, n), gen_table_width(rng)))
    return cases


def judge_unit(res, case, ob, r):
    """case dict, observation, driver answer → records failure / disagreement; returns skipped count"""
    if "error_kind" in r:
        res.disagree(case, f"model raises {r['error_kind']}, implementation returned {ob['twips']}")
        return
    if r["viol"]:
        res.fail(case, f"_col_widths/_inch_to_twip violate C08 clauses {r['viol']}: observed twips {ob['twips']}, "
                       f"round(col_width*1440)={r['twipW'][0]}")
        return
    mcum = [parse_frac(x) for x in r["cum"]]
    ocum = [parse_frac(x) for x in ob["cum"]]
    if len(mcum) != len(ocum):
        res.disagree(case, f"model has {len(mcum)} boundaries, implementation {len(ocum)}")
        return
    for k, (m, o) in enumerate(zip(mcum, ocum)):
        if abs(m - o) > Fraction(1, 10 ** 9):
            res.disagree(case, f"cumulative width {k}: model {float(m)!r} != implementation {float(o)!r}")
            return
    for k, (mt, ot) in enumerate(zip(r["twips"], ob["twips"])):
        if r["near"][k]:
            exact_float = (mcum[k] == ocum[k]) and ob["prod_exact"][k]
            if exact_float:
                res.count("float_boundary_exact_compared")
                if mt != ot:
                    res.disagree(case, f"boundary {k} (exactly representable tie {float(mcum[k] * 1440)}): model twip "
                                       f"{mt} != implementation {ot}")
                    return
            else:
                res.count("float_boundary_skipped")
                fl = (mcum[k] * 1440).__floor__()
                if ot not in (fl, fl + 1):
                    res.disagree(case, f"boundary {k}: implementation twip {ot} not a neighbour of {float(mcum[k]*1440)}")
                    return
        elif mt != ot:
            res.disagree(case, f"boundary {k}: model twip {mt} != implementation {ot} (exact {float(mcum[k]*1440)!r})")
            return


def run_unit(res, rng, tier):
    cases = unit_cases(rng, tier)
    obs = common.pool_map(_unit_worker, cases, chunksize=512)
    if obs and isinstance(obs[0], tuple) and obs[0][0] == "unavailable":
        res.notes.append("unit correspondence unavailable: " + obs[0][1])
        res.count("unit_unavailable", len(cases))
        return
    reqs = [dict(op="c08_col_widths", w=[fs(x) for x in c[0]], W=fs(c[1]), eps=EPS_S, observed=o["twips"])
            for c, o in zip(cases, obs)]
    outs = common.driver_batch(reqs)
    for c, o, r in zip(cases, obs, outs):
        case = dict(level="unit", w=c[0], W=c[1], observed=o)
        nt = None
        if len(c[0]) >= 2 and len(set(c[0])) > 1:
            nt = ("u", tuple(c[0]), c[1])
        res.case(case, nt)
        res.count("unit")
        res.count(f"unit_ncol:{len(c[0])}")
        res.corr_checked += 1
        judge_unit(res, case, o, r)


# ------------------------------------------------------------------ observation level: generator

KEYS = ["KA", "KB", "KC", "KD"]


def gen_headers(rng, sec, ndisp):
    """column header configuration of one section with `ndisp` displayed columns → (hmode, headers)"""
    hmode = rng.choice(["default", "default", "explicit_nowidth", "explicit_nowidth", "explicit_own", "multirow",
                        "multirow_auto", "none"])
    if hmode == "default":
        headers = "default"
    elif hmode == "none":
        headers = []
    elif hmode == "explicit_nowidth":
        headers = [dict(text=[f"S{sec}H0x{j}" for j in range(ndisp)])]
    elif hmode == "explicit_own":
        nc = rng.randint(1, ndisp)
        headers = [dict(text=[f"S{sec}H0x{j}" for j in range(nc)], col_rel_width=gen_widths(rng, nc))]
    else:
        nc = rng.randint(1, max(1, min(4, ndisp)))
        top = dict(text=[f"S{sec}H0x{j}" for j in range(nc)], col_rel_width=gen_widths(rng, nc))
        if hmode == "multirow":
            second = dict(text=[f"S{sec}H1x{j}" for j in range(ndisp)])
        else:
            second = dict()  # RTFColumnHeader(): text filled from the column names, widths inherited
        headers = [top, second]
        if rng.random() < 0.3:
            nc3 = rng.randint(1, ndisp)
            headers.insert(1, dict(text=[f"S{sec}H9x{j}" for j in range(nc3)], col_rel_width=gen_widths(rng, nc3)))
            # keep header indices meaningful: rename by position
            for hi, h in enumerate(headers):
                if h.get("text"):
                    h["text"] = [f"S{sec}H{hi}x{j}" for j in range(len(h["text"]))]
    return hmode, headers


def gen_section(rng, sec, tier, allow_removal=True, long=False):
    """one table section: frame with tagged cells + body/header configuration"""
    ncol = rng.choice([1, 2, 2, 3, 3, 4, 4, 5, 6, 7, 8, 10, 12])
    nrows = rng.randint(9, 16) if long else rng.randint(1, 7)
    mode = "plain"
    if allow_removal and ncol >= 2:
        mode = rng.choice(["plain", "plain", "page_by", "page_by", "page_by_np_col", "page_by_np_first", "subline",
                           "subline", "subline_page_by"])
    nkey = 0
    if mode != "plain":
        nkey = rng.randint(1, min(3, ncol - 1))
        if mode == "subline_page_by":
            nkey = max(2, nkey)
            if ncol < 3:
                mode, nkey = "subline", 1
    key_pos = sorted(rng.sample(range(ncol), nkey))
    rng.shuffle(key_pos)  # page_by order need not follow column order
    cols = [f"S{sec}C{j}" for j in range(ncol)]
    # key values as runs (hierarchical not needed for widths)
    keyvals = {}
    for lvl, j in enumerate(key_pos):
        keyvals[j] = docgen.run_keys(rng, nrows, [f"S{sec}KEY{lvl}{x}" for x in "abcd"], 1, 3)
    rows = []
    for i in range(nrows):
        rows.append([keyvals[j][i] if j in keyvals else f"s{sec}r{i}c{j}" for j in range(ncol)])
    body = {}
    page_by, subline_by = [], []
    if mode.startswith("page_by"):
        page_by = [cols[j] for j in key_pos]
    elif mode == "subline":
        subline_by = [cols[j] for j in key_pos]
    elif mode == "subline_page_by":
        subline_by = [cols[key_pos[0]]]
        page_by = [cols[j] for j in key_pos[1:]]
    removed = set(subline_by)
    if page_by:
        body["page_by"] = page_by
        if mode == "page_by_np_col":
            body["new_page"] = True
        elif mode == "page_by_np_first":
            body["new_page"] = True
            body["pageby_row"] = "first_row"
            removed |= set(page_by)
        else:
            removed |= set(page_by)
            if rng.random() < 0.3:
                body["new_page"] = False
    if subline_by:
        body["subline_by"] = subline_by
    if rng.random() < 0.3:
        body["pageby_header"] = rng.random() < 0.5
    keep = [c not in removed for c in cols]
    ndisp = sum(keep)
    # body widths
    r = rng.random()
    if r < 0.3:
        wmode = "none"
    elif r < 0.85:
        wmode = "full"
        body["col_rel_width"] = gen_widths(rng, ncol)
    elif r < 0.93:
        wmode = "single"
        body["col_rel_width"] = [gen_width(rng, rng.choice(["int", "dec1", "float"]))]
    else:
        wmode = "displayed" if ndisp != ncol and ndisp > 1 else "full"
        body["col_rel_width"] = gen_widths(rng, ndisp if wmode == "displayed" else ncol)
    hmode, headers = gen_headers(rng, sec, ndisp)
    return dict(cols=cols, rows=rows, body=body, headers=headers, keep=keep, mode=mode, wmode=wmode, hmode=hmode)


def gen_doc(rng, tier, nsec=None):
    """`nsec` given: a multi-section document with that many sections (the draws are the same otherwise)"""
    multi = rng.random() < 0.22
    nsec_drawn = rng.choice([2, 2, 3]) if multi else 1
    if nsec is None:
        nsec = nsec_drawn
    else:
        multi = True
    # some multi-section documents run every section over several pages (headers repeat on the continuation pages
    # of EVERY section, each with its own cell boundaries)
    long = multi and rng.random() < 0.45
    sections = [gen_section(rng, s, tier, long=long) for s in range(nsec)]
    page = {}
    if rng.random() < 0.4:
        page["orientation"] = "landscape"
    if rng.random() < 0.45:
        page["col_width"] = gen_table_width(rng)
    if rng.random() < 0.5:
        page["nrow"] = rng.randint(4, 12)
    if long:
        page["nrow"] = rng.randint(5, 8)
    fn = src = None
    if rng.random() < 0.55:
        fn = dict(text="FOOTNOTE-TXT")
        if rng.random() < 0.25:
            fn["as_table"] = False
    if rng.random() < 0.5:
        src = dict(text="SOURCE-TXT", as_table=rng.random() < 0.7)
    # the component's own relative widths (one cell whatever their number: it spans the table)
    for comp in (fn, src):
        if comp is not None and rng.random() < 0.3:
            comp["col_rel_width"] = gen_widths(rng, rng.randint(1, 3))
    for k in ("page_footnote", "page_source"):
        if rng.random() < 0.2:
            page[k] = rng.choice(["first", "last", "all"])
    header_format = "flat"
    if multi:
        header_format = rng.choice(["nested", "nested", "flat", "omitted"])
    history = None
    if rng.random() < 0.25:
        # an earlier document built with the same body / header objects on a frame with another column count
        history = dict(ncols=[rng.randint(1, 12) for _ in range(nsec)], encode_first=rng.random() < 0.7,
                       reuse=rng.choice([["body"], ["headers"], ["body", "headers"]]))
    return dict(level="doc", multi=multi, sections=sections, page=page, footnote=fn, source=src,
                header_format=header_format, history=history)


# ------------------------------------------------------------------ observation level: SHARED configuration objects
#
# `rtf_body=[body] * n`, `rtf_column_header=[[h], [h]]`: one caller-owned object listed for several sections of one
# document (and, with `history`, used by an earlier document as well).  A section says so with
#   body_of    = index of the (earlier) section whose RTFBody OBJECT it lists   (its `body` dict is that section's)
#   headers_of = index of the (earlier) section whose header OBJECTS (the very list) it lists (nested format only)

def removed_names(body):
    """columns the body takes out of the table (subline_by always; page_by unless shown as a column)"""
    removed = set(body.get("subline_by") or [])
    pb = body.get("page_by") or []
    if pb and not (body.get("new_page") is True and body.get("pageby_row", "column") == "column"):
        removed |= set(pb)
    return removed


def body_root(sections, si):
    while sections[si].get("body_of") is not None:
        si = sections[si]["body_of"]
    return si


def headers_root(sections, si):
    while sections[si].get("headers_of") is not None:
        si = sections[si]["headers_of"]
    return si


def body_cfg(case, si):
    """the RTFBody keyword arguments of the object section si lists"""
    return case["sections"][body_root(case["sections"], si)]["body"]


def headers_fit(headers, ndisp):
    """can this header list label a section with `ndisp` displayed columns?  A row with text and without widths of its
    own inherits one width per displayed column, so it needs one label per displayed column; rows with own widths and
    rows without text (filled from the column names) fit every section"""
    if headers == "default":
        return True
    return all(not (h.get("text") and h.get("col_rel_width") is None) or len(h["text"]) == ndisp for h in headers)


def gen_sharing_section(rng, sec, oi, owner, long=False):
    """a section that lists the body OBJECT of the earlier section `oi`: its frame has its own column count and key
    positions whenever the shared body leaves that open (no col_rel_width, or a one-element one that is broadcast);
    a body with one width per column can only be shared by sections of the same shape"""
    body = owner["body"]
    keys = list(dict.fromkeys((body.get("subline_by") or []) + (body.get("page_by") or [])))
    uw = body.get("col_rel_width")
    nrows = rng.randint(9, 16) if long else rng.randint(1, 7)
    if uw is None or len(uw) == 1:
        r = rng.random()
        pool = [n for n in [1, 2, 2, 3, 3, 4, 4, 5, 6, 7, 8, 10, 12] if n >= len(keys) + (1 if keys else 0)]
        if r < 0.2:
            ncol = len(owner["cols"])
        elif r < 0.6:       # fewer columns than the owner where that is possible
            fewer = [n for n in pool if n < len(owner["cols"])]
            ncol = rng.choice(fewer or pool)
        else:
            ncol = rng.choice(pool)
        key_pos = rng.sample(range(ncol), len(keys))
    else:
        ncol = len(owner["cols"])
        key_pos = [owner["cols"].index(k) for k in keys]
    cols = [f"S{sec}C{j}" for j in range(ncol)]
    for k, j in zip(keys, key_pos):
        cols[j] = k                                  # the names the shared body refers to
    keyvals = {}
    for lvl, j in enumerate(key_pos):
        keyvals[j] = docgen.run_keys(rng, nrows, [f"S{sec}KEY{lvl}{x}" for x in "abcd"], 1, 3)
    rows = [[keyvals[j][i] if j in keyvals else f"s{sec}r{i}c{j}" for j in range(ncol)] for i in range(nrows)]
    removed = removed_names(body)
    keep = [c not in removed for c in cols]
    hmode, headers = gen_headers(rng, sec, sum(keep))
    return dict(cols=cols, rows=rows, body=dict(body), headers=headers, keep=keep, mode=owner["mode"],
                wmode=owner["wmode"], hmode=hmode, body_of=oi)


def gen_shared_doc(rng, tier):
    """a multi-section document in which sections list the same body / header objects"""
    d = gen_doc(rng, tier)
    nsec = rng.choice([2, 2, 2, 3, 3, 4])
    long = rng.random() < 0.25
    if long:
        d["page"]["nrow"] = rng.randint(5, 8)
    secs = []
    for j in range(nsec):
        if j and rng.random() < 0.7:
            oi = body_root(secs, rng.randrange(j))
            secs.append(gen_sharing_section(rng, j, oi, secs[oi], long=long))
        else:
            sec = gen_section(rng, j, tier, long=long)
            if rng.random() < 0.45:
                # leave the shape open to the sections that will list this body: no widths, or one that is broadcast
                sec["body"].pop("col_rel_width", None)
                sec["wmode"] = "none"
                if rng.random() < 0.4:
                    sec["body"]["col_rel_width"] = [gen_width(rng, rng.choice(["int", "dec1", "float"]))]
                    sec["wmode"] = "single"
            secs.append(sec)
    if not any(s.get("body_of") is not None for s in secs):
        secs[-1] = gen_sharing_section(rng, nsec - 1, body_root(secs, 0), secs[body_root(secs, 0)], long=long)
    d["multi"], d["sections"] = True, secs
    d["header_format"] = rng.choice(["nested", "nested", "nested", "flat", "omitted"])
    if d["header_format"] == "nested":
        for j in range(1, nsec):
            if rng.random() < 0.5:
                oi = headers_root(secs, rng.randrange(j))
                if headers_fit(secs[oi]["headers"], sum(secs[j]["keep"])):
                    if secs[oi]["headers"] == "default":
                        secs[oi]["headers"] = [dict()]   # a real object: RTFColumnHeader() listed for both sections
                    secs[j]["headers_of"] = oi
                    secs[j]["headers"] = secs[oi]["headers"]
                    secs[j]["hmode"] = secs[oi]["hmode"]
    if d["history"] is not None or rng.random() < 0.3:
        d["history"] = dict(ncols=[rng.randint(1, 12) for _ in range(nsec)], encode_first=rng.random() < 0.7,
                            reuse=rng.choice([["body"], ["headers"], ["body", "headers"]]))
    return d


# ------------------------------------------------------------------ observation level: sections WITHOUT ROWS
#
# A frame of a section list may have no rows (an analysis population without subjects, a filter that selects nothing).
# Such a section renders its column-header rows alone; the sections around it keep their own header rows, widths and
# column counts.  Patterns: the first / a middle / the last section, several of them, every second one, all but one,
# all — in documents of 2..5 sections with per-section (nested), flat and omitted headers, plain and shared
# configuration objects, short and multi-page sections.

EMPTY_PATTERNS = ("first", "first", "middle", "middle", "last", "several", "several", "alternate", "all_but_one", "all",
                  "first_and_last", "leading_run")


def empty_positions(rng, n, pattern):
    """indices of the sections without rows → sorted list (never empty)"""
    if pattern == "first":
        return [0]
    if pattern == "last":
        return [n - 1]
    if pattern == "middle":
        return [rng.randrange(1, n - 1)] if n >= 3 else [rng.randrange(n)]
    if pattern == "several":
        k = rng.randint(2, max(2, n - 1))
        return sorted(rng.sample(range(n), min(k, n)))
    if pattern == "alternate":
        return list(range(rng.randrange(2), n, 2)) or [0]
    if pattern == "all_but_one":
        keep = rng.randrange(n)
        return [i for i in range(n) if i != keep]
    if pattern == "first_and_last":
        return sorted({0, n - 1})
    if pattern == "leading_run":
        return list(range(rng.randint(1, max(1, n - 1))))
    return list(range(n))


def empty_sections(rng, d, pattern=None):
    """take the rows out of some sections of the (multi-section) document `d`, in place → the pattern's name"""
    n = len(d["sections"])
    pattern = pattern or rng.choice(EMPTY_PATTERNS)
    for i in empty_positions(rng, n, pattern):
        d["sections"][i]["rows"] = []
    return pattern


def gen_empty_doc(rng, tier):
    """a document of 2..5 sections of which some have no rows; sections differ in column count, widths, removed columns
    and header rows as in `gen_doc`; per-section headers more often than not"""
    d = gen_doc(rng, tier, nsec=rng.choice([2, 2, 3, 3, 3, 4, 4, 5]))
    d["header_format"] = rng.choice(["nested", "nested", "nested", "nested", "flat", "omitted"])
    if d["header_format"] == "nested" and rng.random() < 0.5:
        # header rows that inherit their widths from their section's body, in every section
        for si, s in enumerate(d["sections"]):
            if rng.random() < 0.8:
                s["hmode"] = "explicit_nowidth"
                s["headers"] = [dict(text=[f"S{si}H0x{j}" for j in range(sum(s["keep"]))])]
    empty_sections(rng, d)
    return d


def empty_labels(case):
    """evidence labels of the sections without rows of a document"""
    secs = case["sections"]
    if len(secs) < 2:
        return []
    e = [not s["rows"] for s in secs]
    if not any(e):
        return []
    out = [f"empty_sections:{sum(e)}_of_{len(secs)}", "empty_header_format:" + case["header_format"]]
    if all(e):
        out.append("empty_at:all")
    else:
        if e[0]:
            out.append("empty_at:first")
        if e[-1]:
            out.append("empty_at:last")
        if any(e[1:-1]):
            out.append("empty_at:middle")
        if any(a and not b for a, b in zip(e, e[1:])):
            out.append("empty_before_populated")
        for si, (a, b) in enumerate(zip(e, e[1:])):
            if a and not b:
                # the populated section that follows: does it differ from the empty one before it?
                p, q = secs[si], secs[si + 1]
                out.append("empty_then_populated_ncol:" + ("same" if sum(p["keep"]) == sum(q["keep"]) else "different"))
                out.append("empty_then_populated_hmode:" + q["hmode"])
    for s, x in zip(secs, e):
        if x:
            out.append("empty_sec_mode:" + s["mode"])
            out.append("empty_sec_hmode:" + s["hmode"])
    if any(s.get("body_of") is not None for s in secs):
        out.append("empty_among_shared_body_objects")
    for root, members in header_groups(case).items():
        k = sum(1 for m in members if e[m])
        if k:
            out.append(f"empty_sections_listing_shared_header_objects:{k}_of_{len(members)}")
    return out


# ------------------------------------------------------------------ observation level: expectation

def table_width(page):
    """RTFPage(**page).col_width as documented: the option, else the page width minus the side allowance"""
    if page.get("col_width") is not None:
        return page["col_width"]
    if page.get("width") is not None:
        return page["width"] - (2.5 if page.get("orientation") == "landscape" else 2.25)
    return 8.5 if page.get("orientation") == "landscape" else 6.25


def case_W(case):
    """the table width configured when the document is encoded: of a page object that was re-configured after its
    construction (histories: `page_W`, tracked field by field), else of RTFPage(**page)"""
    return case["page_W"] if case.get("page_W") is not None else table_width(case["page"])


def section_headers_effective(case, si):
    """header list that rtflite applies to section si: list of dict(text|None, col_rel_width|None)"""
    sec = case["sections"][si]
    if not case["multi"]:
        return [dict()] if sec["headers"] == "default" else sec["headers"]
    fmt = case["header_format"]
    if fmt == "omitted":
        return [dict()] if si == 0 else []       # default [RTFColumnHeader()], flat → first section only
    if fmt == "flat":
        hs = case["sections"][0]["headers"]
        hs = [dict()] if hs == "default" else hs
        return hs if si == 0 else []
    sec = case["sections"][headers_root(case["sections"], si)]     # the objects listed may be an earlier section's
    return [dict()] if sec["headers"] == "default" else sec["headers"]


def expect_section(case, si):
    sec = case["sections"][si]
    keep = sec["keep"]
    ncol = len(sec["cols"])
    ndisp = sum(keep)
    uw = body_cfg(case, si).get("col_rel_width")
    hs = []
    for h in section_headers_effective(case, si):
        text = h.get("text")
        own = h.get("col_rel_width")
        hs.append(dict(ncells=len(text) if text is not None else ndisp,
                       own=None if own is None else [fs(x) for x in own]))
    # what the user asked for, for the displayed columns
    if uw is None:
        disp = [1] * ndisp
    elif len(uw) == 1:
        disp = uw * ndisp
    elif len(uw) == ncol:
        disp = [w for w, k in zip(uw, keep) if k]
    else:
        disp = list(uw)
    W = case_W(case)
    fn, src = case.get("footnote"), case.get("source")
    return dict(ncol=ncol, keep=keep, userW=None if uw is None else [fs(x) for x in uw], headers=hs,
                footW=[fs(x) for x in fn.get("col_rel_width", [1])] if fn and fn.get("as_table", True) else None,
                srcW=[fs(x) for x in src.get("col_rel_width", [1])] if src and src.get("as_table", False) else None,
                W=fs(W), dispW=[fs(x) for x in disp], eps=EPS_S)


# ------------------------------------------------------------------ observation level: real code

def _mk_headers(rtf, hs):
    return [rtf.RTFColumnHeader(**{k: v for k, v in h.items()}) for h in hs]


def build_doc(case):
    return build_doc_ex(case)[0]


def _doc_kwargs(rtf, case, kw, frames_, bodies_, headers_):
    """RTFDocument keyword arguments of a case: `kw` (page / footnote / source objects) + frames, bodies, headers"""
    k = dict(kw)
    if case["multi"]:
        k["df"] = frames_
        k["rtf_body"] = bodies_
        fmt = case["header_format"]
        if fmt == "nested":
            k["rtf_column_header"] = [h if h is not None else [rtf.RTFColumnHeader()] for h in headers_]
        elif fmt == "flat":
            k["rtf_column_header"] = headers_[0] if headers_[0] is not None else [rtf.RTFColumnHeader()]
    else:
        k["df"] = frames_[0]
        k["rtf_body"] = bodies_[0]
        if headers_[0] is not None:
            k["rtf_column_header"] = headers_[0]
    return k


def build_doc_ex(case):
    """public API only; with `history`, the body/header objects are first used by an earlier document; with `body_of` /
    `headers_of`, one object is listed for several sections.  → (document, the caller's body object of every section)"""
    import polars as pl
    import rtflite as rtf

    secs = case["sections"]
    nested = case["multi"] and case["header_format"] == "nested"
    bodies, header_objs = [], []
    for si, s in enumerate(secs):
        bo = s.get("body_of")
        bodies.append(bodies[body_root(secs, si)] if bo is not None
                      else rtf.RTFBody(**{k: v for k, v in s["body"].items()}))
        if nested and s.get("headers_of") is not None:
            header_objs.append(header_objs[headers_root(secs, si)])
        else:
            header_objs.append(None if s["headers"] == "default" else _mk_headers(rtf, s["headers"]))
    frames = [docgen.make_frame(dict(cols=s["cols"], rows=s["rows"])) for s in secs]
    kw = {}
    if case["page"]:
        kw["rtf_page"] = rtf.RTFPage(**case["page"])
    if case.get("footnote"):
        kw["rtf_footnote"] = rtf.RTFFootnote(**case["footnote"])
    if case.get("source"):
        kw["rtf_source"] = rtf.RTFSource(**case["source"])

    def doc_kwargs(frames_, bodies_, headers_):
        return _doc_kwargs(rtf, case, kw, frames_, bodies_, headers_)

    hist = case.get("history")
    if hist:
        # earlier document: same configuration objects, frames with other column counts, no column removal
        # problems (page_by/subline_by names must exist → earlier frames carry the same key column names)
        early_frames = []
        for s, m in zip(secs, hist["ncols"]):
            names = list(dict.fromkeys((s["body"].get("page_by") or []) + (s["body"].get("subline_by") or [])))
            extra = [f"E{j}" for j in range(max(1, m - len(names)))]
            early_frames.append(pl.DataFrame({c: ["e0", "e1"] for c in names + extra}))
        e_bodies = bodies if "body" in hist["reuse"] else [rtf.RTFBody(**{k: v for k, v in s["body"].items()
                                                                           if k != "col_rel_width"}) for s in secs]
        if "body" not in hist["reuse"]:
            e_bodies = [e_bodies[body_root(secs, si)] for si in range(len(secs))]
        e_headers = header_objs if "headers" in hist["reuse"] else [None for _ in secs]
        try:
            early = rtf.RTFDocument(**doc_kwargs(early_frames, e_bodies, e_headers))
            if hist["encode_first"]:
                early.rtf_encode()
        except Exception:  # noqa: BLE001 — the earlier document may itself be ill-shaped; only its side effects matter
            pass
    return rtf.RTFDocument(**doc_kwargs(frames, bodies, header_objs)), bodies


_DATA = re.compile(r"^s(\d+)r(\d+)c(\d+)$")
_HDR = re.compile(r"^S(\d+)H(\d+)x(\d+)$")
_AUTO = re.compile(r"^S(\d+)C(\d+)$")
_KEY = re.compile(r"^S(\d+)KEY")


def classify(texts):
    """→ (section or None, kind, header index or None)"""
    t0 = texts[0].strip() if texts else ""
    m = _DATA.match(t0)
    if m:
        return int(m.group(1)), "data", None
    m = _HDR.match(t0)
    if m:
        return int(m.group(1)), "header", int(m.group(2))
    m = _AUTO.match(t0)
    if m:
        # column names: a key column of a shared body carries the name the (earlier) owner section gave it
        tags = [int(q.group(1)) for q in (_AUTO.match(t.strip()) for t in texts) if q]
        return max(tags), "autoheader", None
    m = _KEY.match(t0)
    if m:
        # a key value: spanning row (one cell) or a data row whose first displayed column is a kept key column
        if len(texts) == 1:
            return int(m.group(1)), "span_or_data", None
        return int(m.group(1)), "data", None
    if t0 == "FOOTNOTE-TXT":
        return None, "foot", None
    if t0 == "SOURCE-TXT":
        return None, "source", None
    return None, "other", None


def header_groups(case):
    """{section whose header objects are listed elsewhere: all sections that list them}"""
    if not (case["multi"] and case["header_format"] == "nested"):
        return {}
    g = {}
    for si, s in enumerate(case["sections"]):
        if s.get("headers_of") is not None:
            root = headers_root(case["sections"], si)
            g.setdefault(root, {root}).add(si)
    return g


def _doc_worker(case):
    import contextlib
    import io

    try:
        with contextlib.redirect_stdout(io.StringIO()):
            doc, caller_bodies = build_doc_ex(case)
    except Exception as e:  # noqa: BLE001
        return dict(status="construct-error", exc=docgen.classify_exc(e), msg=str(e)[:300])

    return _observe(case, doc, caller_bodies)


def _observe(case, doc, caller_bodies):
    """encode `doc` (built for `case`), read it back: every table row with its section, kind and \\cellx vector"""
    import contextlib
    import io

    def wl(b):
        w = getattr(b, "col_rel_width", None)
        return None if w is None else [fs(x) for x in w]

    held = doc.rtf_body if isinstance(doc.rtf_body, list) else [doc.rtf_body]
    constructed = dict(held=[wl(b) for b in held])
    try:
        with contextlib.redirect_stdout(io.StringIO()):
            s = doc.rtf_encode()
    except Exception as e:  # noqa: BLE001
        return dict(status="encode-error", exc=docgen.classify_exc(e), msg=str(e)[:300])
    try:
        rd = rtfread.read(s)
    except rtfread.RtfError as e:
        return dict(status="unreadable", msg=str(e))
    rows = []
    for pno, page in enumerate(rd.pages):
        for b in page.blocks:
            if b.kind != "row":
                continue
            texts = [rtfread.para_text(c) for c in b.cells]
            sec, kind, hidx = classify(texts)
            rows.append(dict(sec=sec, kind=kind, hidx=hidx, cellx=[d.cellx for d in b.defs], ncells=len(b.cells),
                             text0=(texts[0] if texts else "")[:24], page=pno))
    # header OBJECTS listed for several sections carry one text: such a row stands in the section of the rows it labels
    # (the next frame-tagged row), when that section lists the objects; otherwise in the section its text names
    # A section WITHOUT ROWS that lists the objects renders the header rows alone (no frame-tagged row follows): a run of
    # such rows is split into renderings of the list (the row index starts again); the last rendering labels the rows
    # that follow it directly, the ones before it stand in the row-less sections of the group that come next in order
    groups = header_groups(case)
    tagged = ("data", "span_or_data", "autoheader")
    rowless = [not s["rows"] for s in case["sections"]]
    if not any(rowless):
        for i, r in enumerate(rows):
            if r["kind"] == "header" and r["sec"] in groups:
                nxt = next((q["sec"] for q in rows[i + 1:] if q["kind"] in tagged), None)
                if nxt in groups[r["sec"]]:
                    r["sec"] = nxt
        groups = {}
    i, used = 0, set()
    while groups and i < len(rows):
        r = rows[i]
        if not (r["kind"] == "header" and r["sec"] in groups):
            i += 1
            continue
        root, j = r["sec"], i
        while j + 1 < len(rows) and rows[j + 1]["kind"] == "header" and rows[j + 1]["sec"] == root \
                and rows[j + 1]["page"] == r["page"]:
            j += 1
        inst = [[i]]
        for k in range(i + 1, j + 1):
            if rows[k]["hidx"] <= rows[k - 1]["hidx"]:
                inst.append([])
            inst[-1].append(k)
        prev_sec = next((q["sec"] for q in reversed(rows[:i]) if q["kind"] in tagged), -1)
        nxt = next((q["sec"] for q in rows[j + 1:] if q["kind"] in tagged), None)
        direct = j + 1 < len(rows) and rows[j + 1]["kind"] in tagged and rows[j + 1]["page"] == r["page"]
        if direct and nxt in groups[root]:
            for k in inst.pop():
                rows[k]["sec"] = nxt
        # renderings without rows below them: the row-less sections of the group that come next, in order
        free = [m for m in sorted(groups[root]) if rowless[m] and m not in used and m > prev_sec
                and (nxt is None or m < nxt)]
        for ks, m in zip(inst, free):
            used.add(m)
            for k in ks:
                rows[k]["sec"] = m
        i = j + 1
    cur = 0  # rows without a section tag (footnote/source/other) belong to the section rendered last
    for r in rows:
        if r["sec"] is None:
            r["sec"] = cur
        cur = r["sec"]
    # the caller's body objects after construction and encoding (never written: C08_sections_shared, C08_history)
    constructed["caller_after"] = [wl(b) for b in caller_bodies]
    return dict(status="ok", rows=rows, constructed=constructed)


# ------------------------------------------------------------------ observation level: judge

def kind_json(k):
    return list(k)


def resolve_kinds(case, si, exp, rows):
    """turn harness classifications into the Lean `Kind` of every observed row of section si"""
    hs = exp["headers"]
    auto_idx = [i for i, h in enumerate(section_headers_effective(case, si)) if h.get("text") is None]
    ndisp = sum(exp["keep"])
    sec = case["sections"][si]
    first_disp_is_key = False
    if ndisp == 1:
        j = exp["keep"].index(True)
        first_disp_is_key = sec["cols"][j] in (body_cfg(case, si).get("page_by") or [])
    out = []
    for r in rows:
        k = r["kind"]
        if k == "data":
            out.append(["data"])
        elif k == "header":
            i = r["hidx"]
            out.append(["header", i, hs[i]["own"] is None] if i < len(hs) else ["other"])
        elif k == "autoheader":
            i = auto_idx[0] if auto_idx else None
            out.append(["header", i, hs[i]["own"] is None] if i is not None else ["other"])
        elif k == "span_or_data":
            out.append(["data"] if first_disp_is_key else ["span"])
        elif k in ("foot", "source"):
            out.append([k])
        else:
            out.append(["other"])
    return out


def construct_request(case):
    """the construction as the model sees it: the distinct body objects and, per section, (its object, its column count)"""
    secs = case["sections"]
    roots = sorted({body_root(secs, si) for si in range(len(secs))})
    objs = []
    for r in roots:
        uw = secs[r]["body"].get("col_rel_width")
        objs.append(None if uw is None else [fs(x) for x in uw])
    return dict(op="c08_construct_sections", objs=objs,
                secs=[[roots.index(body_root(secs, si)), len(s["cols"])] for si, s in enumerate(secs)])


def judge_construct(res, case, ob, rq, d):
    """model of RTFDocument.__init__'s width resolution vs the widths the real document holds, section by section"""
    con = ob.get("constructed")
    if not con:
        return
    def q(v):
        return None if v is None else [parse_frac(x) for x in v]

    def shares(v):
        """the property speaks of proportions: a vector is compared up to a positive factor"""
        if v is None or not v or sum(v) == 0:
            return v
        t = sum(v)
        return [x / t for x in v]
    held, model = [q(v) for v in con["held"]], [q(v) for v in d["widths"]]
    if [shares(v) for v in held] != [shares(v) for v in model]:
        j = next((i for i, (a, b) in enumerate(zip(held, model)) if shares(a) != shares(b)), None)
        res.disagree(case, f"construction: section {j} of the document holds col_rel_width "
                           f"{None if j is None or held[j] is None else [float(x) for x in held[j]]}, the model resolves "
                           f"{None if j is None else [float(x) for x in model[j]]} (body objects {rq['objs']}, "
                           f"sections (object, columns) {rq['secs']})")
        return
    after = [q(con["caller_after"][si]) for si in sorted({body_root(case["sections"], si)
                                                          for si in range(len(case["sections"]))})]
    if after != [q(v) for v in d["objs_after"]]:
        # not a clause of C08 by itself (C14 owns writes into caller-owned objects); what it does to the widths of the
        # sections / documents that use the object next is judged on their rows.  Recorded in the evidence.
        res.count("caller_body_object_written")


def foreign_header(case, ob, exps):
    """"header rows whose widths are inherited from the body line up cell by cell with the data columns they label": the
    header rows standing directly above the data rows of a section label those rows.  A section that is configured
    with header rows of its own must not have its data rows under the header rows of ANOTHER section whose inherited
    boundaries are not the data rows' (that header inherited its widths from another body).  Decided on the rendered
    order: from each data row of section b back over the data / group rows of b on the same page; a header row tagged
    with another section there is judged cell by cell against the data row.  Sections without header rows of their own
    (flat / omitted format: every section after the first; `headers=[]`) are not judged: nothing labels their rows.
    → message or None"""
    if len(case["sections"]) < 2:
        return None
    rows = ob["rows"]
    kinds = [None] * len(rows)
    for si, exp in enumerate(exps):
        idx = [i for i, r in enumerate(rows) if r["sec"] == si]
        for i, k in zip(idx, resolve_kinds(case, si, exp, [rows[i] for i in idx])):
            kinds[i] = k
    done = set()
    for i, r in enumerate(rows):
        b = r["sec"]
        if kinds[i] is None or kinds[i][0] != "data" or b >= len(exps) or not exps[b]["headers"] or (b, r["page"]) in done:
            continue
        done.add((b, r["page"]))          # the first data row of the section on this page stands for the others
        j = i - 1
        while j >= 0 and rows[j]["page"] == r["page"] and rows[j]["sec"] == b and kinds[j] and kinds[j][0] in ("data", "span"):
            j -= 1
        if j < 0 or rows[j]["page"] != r["page"] or not kinds[j] or kinds[j][0] != "header":
            continue
        a = rows[j]["sec"]
        if a == b:
            continue
        while j >= 0 and rows[j]["page"] == r["page"] and rows[j]["sec"] == a and kinds[j] and kinds[j][0] == "header":
            h = rows[j]
            inherited = len(kinds[j]) > 2 and kinds[j][2]
            if inherited and (len(h["cellx"]) != len(r["cellx"])
                              or any(abs(x - y) > 1 for x, y in zip(h["cellx"], r["cellx"]))):
                return (f"the data rows of section {b} ({r['text0']!r}, boundaries {r['cellx']}) stand directly under a "
                        f"header row of section {a} ({h['text0']!r}, boundaries {h['cellx']}, widths inherited from the "
                        f"body of section {a}): the header row does not line up cell by cell with the data columns it "
                        f"labels; section {b} is configured with {len(exps[b]['headers'])} header row(s) of its own "
                        f"(rows of section {a} in the frame: {len(case['sections'][a]['rows'])})")
            j -= 1
    return None


def judge_doc(res, case, ob, exps, drvs):
    """exps/drvs: per section expectation and driver answer (+ the construction request's answer last)"""
    drvs, cons = drvs[:len(exps)], drvs[len(exps):]
    if ob["status"] != "ok":
        if any("rows" in d for d in drvs):
            why = f"document in C08's domain was not rendered: {ob}"
            if ob.get("exc") in ("IndexError", "ZeroDivisionError"):
                res.fail(case, why)
            else:
                res.disagree(case, why)
        return
    # "header rows line up with the data columns THEY LABEL": the rows of one table section form one contiguous run, in
    # section order — a header row of an earlier section among the rows of a later one labels columns that are not its own
    secs = [r["sec"] for r in ob["rows"]]
    for a, b, r in zip(secs, secs[1:], ob["rows"][1:]):
        if b < a:
            res.fail(case, f"a {r['kind']} row of section {b} ({r['text0']!r}, boundaries {r['cellx']}) is rendered among "
                           f"the rows of section {a}: it labels columns that are not its own")
            return
    why = foreign_header(case, ob, exps)
    if why:
        res.fail(case, why)
        return
    for si, (exp, d) in enumerate(zip(exps, drvs)):
        if d.get("viol"):
            v = d["viol"][:4]
            rows = [r for r in ob["rows"] if r["sec"] == si]
            shown = [(rows[i]["kind"], rows[i]["text0"], rows[i]["cellx"]) for i, _ in v]
            data = next((r["cellx"] for r in rows if r["kind"] == "data"), None)
            res.fail(case, f"section {si}: clauses {v} violated; table width {d['twipW'][0]} twips; offending rows "
                           f"{shown}; data rows {data}")
            return
    # correspondence: model row shapes vs observed rows, kind by kind
    for si, (exp, d) in enumerate(zip(exps, drvs)):
        if "model_error" in d:
            res.disagree(case, f"section {si}: model raises {d['model_error']} but the implementation rendered")
            return
        model = {}
        for (k, vec), near, floors in zip(d["rows"], d["near"], d["floors"]):
            model[tuple(k)] = (vec, near, floors)
        rows = [r for r in ob["rows"] if r["sec"] == si]
        kinds = resolve_kinds(case, si, exp, rows)
        seen = set()
        for r, k in zip(rows, kinds):
            if k == ["other"]:
                res.disagree(case, f"section {si}: unclassified table row {r}")
                return
            seen.add(k[0])
            mv = model.get(tuple(k))
            if mv is None:
                res.disagree(case, f"section {si}: observed a {k} row the model does not produce: {r}")
                return
            vec, near, floors = mv
            if len(vec) != len(r["cellx"]):
                res.disagree(case, f"section {si} {k}: model {vec} != observed {r['cellx']}")
                return
            for m, o, nr, fl in zip(vec, r["cellx"], near, floors):
                if nr:
                    res.count("float_boundary_doc")
                    if o not in (fl, fl + 1):
                        res.disagree(case, f"section {si} {k}: model {vec} != observed {r['cellx']}")
                        return
                elif m != o:
                    res.disagree(case, f"section {si} {k}: model {vec} != observed {r['cellx']}")
                    return
        nrows = len(case["sections"][si]["rows"])
        if nrows and "data" not in seen:
            res.disagree(case, f"section {si}: no data row observed")
            return
        want_hdr = {("header", i) for i in range(len(exp["headers"]))}
        got_hdr = {("header", k[1]) for k in kinds if k[0] == "header"}
        if want_hdr != got_hdr:
            res.disagree(case, f"section {si}: header rows observed {sorted(got_hdr)} != expected {sorted(want_hdr)}")
            return
    if cons:
        judge_construct(res, case, ob, construct_request(case), cons[0])


def doc_requests(case, ob):
    exps = [expect_section(case, si) for si in range(len(case["sections"]))]
    reqs = []
    for si, exp in enumerate(exps):
        rq = dict(op="c08_section", **exp)
        if ob["status"] == "ok":
            rows = [r for r in ob["rows"] if r["sec"] == si]
            kinds = resolve_kinds(case, si, exp, rows)
            # the oracle has no "other" kind: unclassified rows are judged for the right edge like a footnote row
            rq["observed"] = [[kind_json(k if k != ["other"] else ["foot"]), r["cellx"]] for r, k in zip(rows, kinds)]
        reqs.append(rq)
    reqs.append(construct_request(case))
    return exps, reqs


def nontrivial_key(case, ob):
    if ob["status"] != "ok":
        return None
    secs = case["sections"]
    ok = False
    for s in secs:
        nd = sum(s["keep"])
        uw = s["body"].get("col_rel_width")
        if nd >= 2 and ((uw and len(set(uw)) > 1) or nd != len(s["keep"]) or s["hmode"] not in ("none", "default")):
            ok = True
    if not ok:
        return None
    return ("d", tuple((len(s["keep"]), tuple(s["keep"]), s["hmode"], tuple(s["body"].get("col_rel_width") or ()))
                       for s in secs), case_W(case), case["header_format"], bool(case.get("history")),
            tuple((s.get("body_of"), s.get("headers_of")) for s in secs))


def strip_case(case):
    """the replayable part of a case"""
    return {k: case[k] for k in ("level", "multi", "sections", "page", "footnote", "source", "header_format", "history")}


def shared_labels(case):
    """evidence labels of the sharing pattern of a document"""
    secs = case["sections"]
    out = []
    by_root = {}
    for si in range(len(secs)):
        by_root.setdefault(body_root(secs, si), []).append(si)
    for root, members in by_root.items():
        if len(members) < 2:
            continue
        ncols = [len(secs[m]["cols"]) for m in members]
        out.append(f"shared_body_sections:{len(members)}")
        out.append("shared_body_wmode:" + secs[root]["wmode"])
        out.append("shared_body_mode:" + secs[root]["mode"])
        if len(set(ncols)) == 1:
            out.append("shared_body_ncols:equal")
        else:
            if any(b < a for a, b in zip(ncols, ncols[1:])):
                out.append("shared_body_ncols:later_fewer")
            if any(b > a for a, b in zip(ncols, ncols[1:])):
                out.append("shared_body_ncols:later_more")
    for root, members in header_groups(case).items():
        out.append(f"shared_headers_sections:{len(members)}")
        out.append("shared_headers_hmode:" + secs[root]["hmode"])
        nd = {sum(secs[m]["keep"]) for m in members}
        out.append("shared_headers_ndisp:" + ("equal" if len(nd) == 1 else "different"))
    if out and case.get("history"):
        out.append("shared_and_history:" + "+".join(case["history"]["reuse"]))
    return out


CORPUS_D9 = dict(
    level="doc", multi=False, page={}, footnote=None, source=None, header_format="flat", history=None,
    sections=[dict(cols=["S0C0", "S0C1", "S0C2"],
                   rows=[["S0KEY0a", "s0r0c1", "s0r0c2"], ["S0KEY0a", "s0r1c1", "s0r1c2"], ["S0KEY0b", "s0r2c1", "s0r2c2"]],
                   body=dict(page_by=["S0C0"]), headers="default", keep=[False, True, True], mode="page_by",
                   wmode="none", hmode="default")])
CORPUS_HISTORY = dict(
    level="doc", multi=False, page={}, footnote=None, source=None, header_format="flat",
    history=dict(ncols=[3], encode_first=True, reuse=["body", "headers"]),
    sections=[dict(cols=["S0C0", "S0C1"], rows=[["s0r0c0", "s0r0c1"], ["s0r1c0", "s0r1c1"]],
                   body=dict(), headers=[dict(text=["S0H0x0", "S0H0x1"])], keep=[True, True], mode="plain",
                   wmode="none", hmode="explicit_nowidth")])


CORPUS_SHARED = dict(   # one width-less body and one RTFColumnHeader() listed for a 4-column and a 2-column section
    level="doc", multi=True, page={}, footnote=dict(text="FOOTNOTE-TXT"), source=None, header_format="nested",
    history=None,
    sections=[dict(cols=["S0C0", "S0C1", "S0C2", "S0C3"], rows=[[f"s0r{i}c{j}" for j in range(4)] for i in range(2)],
                   body=dict(), headers=[dict()], keep=[True] * 4, mode="plain", wmode="none", hmode="default"),
              dict(cols=["S1C0", "S1C1"], rows=[[f"s1r{i}c{j}" for j in range(2)] for i in range(2)],
                   body=dict(), headers=[dict()], keep=[True] * 2, mode="plain", wmode="none", hmode="default",
                   body_of=0, headers_of=0)])


def _plain_sec(si, ncol, nrow, widths):
    return dict(cols=[f"S{si}C{j}" for j in range(ncol)], rows=[[f"s{si}r{i}c{j}" for j in range(ncol)] for i in range(nrow)],
                body=dict(col_rel_width=widths), headers=[dict(text=[f"S{si}H0x{j}" for j in range(ncol)])],
                keep=[True] * ncol, mode="plain", wmode="full", hmode="explicit_nowidth")


CORPUS_EMPTY = [   # sections without rows between / before / after sections with other widths and column counts
    dict(level="doc", multi=True, page=dict(col_width=6.0), footnote=None, source=None, header_format=fmt, history=None,
         sections=[_plain_sec(si, n, r, w) for si, (n, r, w) in enumerate(shape)])
    for fmt, shape in (
        ("nested", [(3, 2, [1, 2, 3]), (3, 0, [3, 2, 1]), (3, 2, [1, 1, 4])]),
        ("nested", [(2, 0, [3, 1]), (4, 2, [2, 1, 1, 1]), (3, 1, [1, 2, 3])]),
        ("nested", [(3, 1, [1, 2, 3]), (2, 1, [3, 1]), (4, 0, [1, 1, 1, 3])]),
        ("nested", [(2, 0, [3, 1]), (3, 0, [1, 2, 3]), (4, 1, [2, 1, 1, 1])]),
        ("nested", [(2, 0, [3, 1]), (3, 0, [1, 2, 3])]),
        ("flat", [(2, 0, [3, 1]), (4, 12, [2, 1, 1, 1])]),
    )]
CORPUS_EMPTY[-1]["page"]["nrow"] = 6


# ------------------------------------------------------------------ histories: RE-CONFIGURED configuration objects
#
# A history is a sequence of documents (steps).  The page / body / column-header / footnote / source objects of a step
# are the objects of the step before, handed on by one of the ways a caller re-uses a configuration object:
#   ["same"]            the very object, as it is
#   ["assign", upd]     the very object after `obj.field = value` for every entry of upd
#   ["copy", upd]       `obj.model_copy(update=upd)` (upd may be empty: `obj.model_copy()`)
#   ["deepcopy", upd]   `copy.deepcopy(obj)`, then assignments
#   ["fresh"]           a newly constructed object
# or the step re-encodes the document OBJECT of the step before after assignments to its page (`redoc`).  Every step's
# case dict carries the configuration its objects hold WHEN IT IS ENCODED (the constructor keywords of the first object
# with every later update applied; `page_W` = the col_width the page object holds then), so the expectation and the
# oracle of single documents apply to every step unchanged: C08 speaks of "the configured table width", whatever the
# object was used for before.  Width-bearing options re-configured: RTFPage col_width / orientation / width / height /
# margin / nrow (only col_width IS the table width once the object exists), RTFBody col_rel_width (none, one entry,
# one per column of a frame with another column count), RTFColumnHeader col_rel_width (own / inherited),
# RTFFootnote / RTFSource col_rel_width.

PAGE_CARRY = ("same", "assign", "assign", "copy", "copy", "copy", "deepcopy", "fresh")


def gen_page_update(rng, page):
    upd = {}
    if rng.random() < 0.7:
        upd["col_width"] = gen_table_width(rng)
    if rng.random() < 0.3:
        upd["orientation"] = "portrait" if page.get("orientation") == "landscape" else "landscape"
    if rng.random() < 0.2:
        upd["width"] = round(rng.uniform(7, 14), 2)
    if rng.random() < 0.1:
        upd["height"] = round(rng.uniform(7, 14), 2)
    if rng.random() < 0.1:
        upd["margin"] = [round(rng.uniform(0.5, 2), 2) for _ in range(6)]
    if rng.random() < 0.2:
        upd["nrow"] = rng.randint(4, 12)
    if not upd:
        upd["col_width"] = gen_table_width(rng)
    return upd


def gen_fresh_page(rng):
    page = {}
    if rng.random() < 0.4:
        page["orientation"] = "landscape"
    if rng.random() < 0.5:
        page["col_width"] = gen_table_width(rng)
    if rng.random() < 0.3:
        page["width"] = round(rng.uniform(7, 14), 2)
    if rng.random() < 0.4:
        page["nrow"] = rng.randint(4, 12)
    return page


def carry_op(rng, upd, kinds=("assign", "copy", "copy", "deepcopy")):
    """how an object with the updates `upd` is obtained from the one of the step before"""
    if not upd:
        return [rng.choice(["same", "same", "copy", "deepcopy"]), {}]
    return [rng.choice(kinds), upd]


def gen_carried_section(rng, sec, owner, k):
    """section `sec` of step k uses the body OBJECT of the same section of the step before, as it is or with another
    col_rel_width (none / one entry / one per column of this step's frame, which has its own column count and key
    positions whenever the widths leave that open) → (section, body op)"""
    body = dict(owner["body"])
    keys = list(dict.fromkeys((body.get("subline_by") or []) + (body.get("page_by") or [])))
    uw = body.get("col_rel_width")
    nrows = rng.randint(1, 7)
    change = rng.random() < 0.6
    wmode = owner["wmode"]
    if change:
        wmode = rng.choice(["none", "single", "full", "full", "full"])
    open_shape = change or uw is None or len(uw) == 1
    if open_shape:
        pool = [n for n in [1, 2, 2, 3, 3, 4, 4, 5, 6, 7, 8, 10, 12] if n >= len(keys) + (1 if keys else 0)]
        ncol = len(owner["cols"]) if rng.random() < 0.3 and len(owner["cols"]) in pool else rng.choice(pool)
        key_pos = rng.sample(range(ncol), len(keys))
    else:
        ncol = len(owner["cols"])
        key_pos = [owner["cols"].index(x) for x in keys]
    cols = [f"S{sec}C{1000 * k + j}" for j in range(ncol)]
    for name, j in zip(keys, key_pos):
        cols[j] = name                               # the names the carried body refers to
    upd = {}
    if change:
        if wmode == "none":
            upd["col_rel_width"] = None
        elif wmode == "single":
            upd["col_rel_width"] = [gen_width(rng, rng.choice(["int", "dec1", "float"]))]
        else:
            upd["col_rel_width"] = gen_widths(rng, ncol)
        body["col_rel_width"] = upd["col_rel_width"]
        if body["col_rel_width"] is None:
            del body["col_rel_width"]
    keyvals = {}
    for lvl, j in enumerate(key_pos):
        keyvals[j] = docgen.run_keys(rng, nrows, [f"S{sec}KEY{lvl}{x}" for x in "abcd"], 1, 3)
    rows = [[keyvals[j][i] if j in keyvals else f"s{sec}r{i}c{j}" for j in range(ncol)] for i in range(nrows)]
    removed = removed_names(body)
    keep = [c not in removed for c in cols]
    hmode, headers = gen_headers(rng, sec, sum(keep))
    return (dict(cols=cols, rows=rows, body=body, headers=headers, keep=keep, mode=owner["mode"], wmode=wmode,
                 hmode=hmode), carry_op(rng, upd))


def gen_carried_headers(rng, prev_headers, ndisp):
    """the header OBJECTS of the step before, each as it is or with another col_rel_width (own widths, one per label;
    none = inherited from the body, for a row with one label per displayed column) → (headers, ops)"""
    headers, ops = [], []
    for h in prev_headers:
        h2 = dict(h)
        text = h.get("text")
        n = len(text) if text is not None else ndisp
        upd = {}
        r = rng.random()
        if r < 0.4:
            upd["col_rel_width"] = gen_widths(rng, n)
        elif r < 0.6 and h.get("col_rel_width") is not None and n == ndisp:
            upd["col_rel_width"] = None
        if "col_rel_width" in upd:
            h2["col_rel_width"] = upd["col_rel_width"]
            if h2["col_rel_width"] is None:
                del h2["col_rel_width"]
        elif (h2.get("col_rel_width") is None and text is not None and n != ndisp) or \
                (h2.get("col_rel_width") is not None and len(h2["col_rel_width"]) != n):
            # a row that cannot inherit from this step's body, or whose labels are this step's column names (another
            # number of them than the widths it was given for): own widths, one per label
            upd["col_rel_width"] = gen_widths(rng, n)
            h2["col_rel_width"] = upd["col_rel_width"]
        headers.append(h2)
        ops.append(carry_op(rng, upd))
    return headers, ops


def gen_carried_component(rng, comp):
    comp2 = dict(comp)
    upd = {}
    if rng.random() < 0.5:
        upd["col_rel_width"] = gen_widths(rng, rng.randint(1, 3))
        comp2["col_rel_width"] = upd["col_rel_width"]
    return comp2, carry_op(rng, upd)


def gen_next_step(rng, k, prev, tier):
    import copy

    if prev.get("encode", True) and rng.random() < 0.15:
        # the document OBJECT of the step before is encoded again after assignments to its page object
        step = copy.deepcopy(prev)
        upd = gen_page_update(rng, prev["page"])
        step["page"] = {**prev["page"], **upd}
        step["page_W"] = upd.get("col_width", prev["page_W"])
        step["carry"] = dict(page=["assign", upd])
        step["redoc"], step["encode"] = True, True
        return step
    multi = prev["multi"] if rng.random() < 0.7 else rng.random() < 0.3
    nsec = rng.choice([2, 2, 3]) if multi else 1
    sections, bops, hops = [], [], []
    for i in range(nsec):
        if i < len(prev["sections"]) and rng.random() < 0.75:
            sec, bop = gen_carried_section(rng, i, prev["sections"][i], k)
            ph = prev["sections"][i]["headers"]
            hop = None
            if ph != "default" and ph and rng.random() < 0.6:
                sec["headers"], hop = gen_carried_headers(rng, ph, sum(sec["keep"]))
                sec["hmode"] = prev["sections"][i]["hmode"]
        else:
            sec, bop, hop = gen_section(rng, i, tier), ["fresh"], None
        sections.append(sec)
        bops.append(bop)
        hops.append(hop)
    # page
    pk = rng.choice(PAGE_CARRY)
    if pk == "fresh":
        page, pop = gen_fresh_page(rng), ["fresh"]
        W = table_width(page)
    elif pk == "same":
        page, pop, W = dict(prev["page"]), ["same", {}], prev["page_W"]
    else:
        upd = gen_page_update(rng, prev["page"]) if rng.random() < 0.85 else {}
        page, pop = {**prev["page"], **upd}, [pk, upd]
        W = upd.get("col_width", prev["page_W"])
    comps, cops = {}, {}
    for name, fresh in (("footnote", lambda: dict(text="FOOTNOTE-TXT", **({"as_table": False} if rng.random() < 0.2 else {}))),
                        ("source", lambda: dict(text="SOURCE-TXT", as_table=rng.random() < 0.7))):
        if prev.get(name) is not None and rng.random() < 0.6:
            comps[name], cops[name] = gen_carried_component(rng, prev[name])
        elif rng.random() < 0.6:
            comps[name], cops[name] = fresh(), ["fresh"]
            if rng.random() < 0.3:
                comps[name]["col_rel_width"] = gen_widths(rng, rng.randint(1, 3))
        else:
            comps[name], cops[name] = None, None
    return dict(level="doc", multi=multi, sections=sections, page=page, page_W=W, footnote=comps["footnote"],
                source=comps["source"], header_format=rng.choice(["nested", "nested", "flat", "omitted"]) if multi else "flat",
                history=None, encode=rng.random() < 0.88, redoc=False,
                carry=dict(page=pop, footnote=cops["footnote"], source=cops["source"], bodies=bops, headers=hops))


def gen_chain(rng, tier, nsec=None):
    d0 = gen_doc(rng, tier, nsec=nsec)
    d0["history"] = None
    if rng.random() < 0.3:
        d0["page"] = gen_fresh_page(rng)
    d0["page_W"] = table_width(d0["page"])
    d0.update(encode=rng.random() < 0.9, redoc=False, carry=None)
    steps = [d0]
    for k in range(1, rng.choice([2, 2, 3, 3, 4])):
        steps.append(gen_next_step(rng, k, steps[-1], tier))
    steps[-1]["encode"] = True
    return dict(level="hist", steps=steps)


def _carry(op, prev, make):
    import copy

    if op is None or op[0] == "fresh" or prev is None:
        return make()
    kind, upd = op[0], (op[1] if len(op) > 1 else {})
    if kind == "same":
        return prev
    if kind == "copy":
        return prev.model_copy(update=dict(upd)) if upd else prev.model_copy()
    obj = copy.deepcopy(prev) if kind == "deepcopy" else prev
    for f, v in upd.items():
        setattr(obj, f, v)
    return obj


def _chain_worker(chain):
    """every step: the objects (carried as the step says), the document, its rows.  One process, in order."""
    import contextlib
    import io

    import rtflite as rtf

    out = []
    prev = dict(page=None, footnote=None, source=None, bodies=[], headers=[], doc=None, caller_bodies=None)
    for step in chain["steps"]:
        c = step.get("carry") or {}
        try:
            with contextlib.redirect_stdout(io.StringIO()):
                if step.get("redoc") and prev["doc"] is not None:
                    _carry(c["page"], prev["doc"].rtf_page, None)
                    doc, cur = prev["doc"], prev
                else:
                    cur = dict(page=_carry(c.get("page"), prev["page"], lambda: rtf.RTFPage(**step["page"])))
                    for name, cls in (("footnote", rtf.RTFFootnote), ("source", rtf.RTFSource)):
                        spec = step.get(name)
                        cur[name] = None if spec is None else _carry(c.get(name), prev[name],
                                                                     lambda cls=cls, spec=spec: cls(**spec))
                    bops, hops = c.get("bodies") or [], c.get("headers") or []
                    cur["bodies"], cur["headers"] = [], []
                    for si, s in enumerate(step["sections"]):
                        pb = prev["bodies"][si] if si < len(prev["bodies"]) else None
                        cur["bodies"].append(_carry(bops[si] if si < len(bops) else None, pb,
                                                    lambda s=s: rtf.RTFBody(**s["body"])))
                        hop = hops[si] if si < len(hops) else None
                        ph = prev["headers"][si] if si < len(prev["headers"]) else None
                        if s["headers"] == "default":
                            cur["headers"].append(None)
                        elif hop is None or ph is None:
                            cur["headers"].append(_mk_headers(rtf, s["headers"]))
                        else:
                            cur["headers"].append([_carry(o, ph[j] if j < len(ph) else None,
                                                          lambda h=h: rtf.RTFColumnHeader(**h))
                                                   for j, (o, h) in enumerate(zip(hop, s["headers"]))])
                    frames = [docgen.make_frame(dict(cols=s["cols"], rows=s["rows"])) for s in step["sections"]]
                    kw = dict(rtf_page=cur["page"])
                    if cur["footnote"] is not None:
                        kw["rtf_footnote"] = cur["footnote"]
                    if cur["source"] is not None:
                        kw["rtf_source"] = cur["source"]
                    cur["doc"] = None
                    cur["caller_bodies"] = cur["bodies"]
                    prev = {**cur, "doc": None}       # the objects exist whether or not the document can be built
                    doc = rtf.RTFDocument(**_doc_kwargs(rtf, step, kw, frames, cur["bodies"], cur["headers"]))
                    cur["doc"] = doc
                    prev = cur
        except Exception as e:  # noqa: BLE001
            out.append(dict(status="construct-error", exc=docgen.classify_exc(e), msg=str(e)[:300]))
            continue
        if not step.get("encode", True):
            out.append(dict(status="not-encoded"))
            continue
        ob = _observe(step, doc, prev["caller_bodies"])
        pw = getattr(doc.rtf_page, "col_width", None)
        ob["page_col_width"] = None if pw is None else fs(pw)
        out.append(ob)
    return out


class _StepRes:
    """records what the judge of single documents says about step k as a finding about the history up to that step"""

    def __init__(self, res, chain, k):
        self.res, self.k = res, k
        self.case = dict(level="hist", steps=chain["steps"][:k + 1])

    def count(self, key, n=1):
        self.res.count(key, n)

    def _why(self, why):
        st = self.case["steps"][self.k]
        how = "the document object of the step before, encoded again" if st.get("redoc") else \
              f"objects handed on as {st.get('carry')}"
        return (f"history of {self.k + 1} documents, last one (table width configured when it is encoded: "
                f"{st.get('page_W')} in; {how}): {why}") if self.k else why

    def fail(self, case, why):
        self.res.fail(self.case, self._why(why))

    def disagree(self, case, why):
        self.res.disagree(self.case, self._why(why))


def chain_labels(chain, obs):
    out = [f"hist_steps:{len(chain['steps'])}"]
    used_page = False          # has the page object at hand been used by an encode?
    for k, (st, ob) in enumerate(zip(chain["steps"], obs)):
        c = st.get("carry") or {}
        if k:
            if st.get("redoc"):
                out.append("hist_redoc")
            pop = c.get("page") or ["fresh"]
            out.append(f"hist_page:{pop[0]}" + ("" if len(pop) < 2 or pop[1] or pop[0] in ("same", "fresh") else ":no_update"))
            for f in sorted(pop[1]) if len(pop) > 1 else []:
                out.append(f"hist_page_field:{pop[0]}:{f}")
            if pop[0] == "fresh":
                used_page = False
            rows = ob.get("rows") or []
            if used_page and pop[0] != "fresh" and len(pop) > 1 and "col_width" in pop[1]:
                out.append("hist_used_page_new_col_width")
                for kind in sorted({r["kind"] for r in rows}):
                    out.append("hist_used_page_new_col_width_row:" + kind)
            for op in c.get("bodies") or []:
                out.append("hist_body:" + op[0] + (":col_rel_width" if len(op) > 1 and op[1] else ""))
            for hop in c.get("headers") or []:
                for op in hop or []:
                    out.append("hist_header:" + op[0] + (":col_rel_width" if len(op) > 1 and op[1] else ""))
            for name in ("footnote", "source"):
                op = c.get(name)
                if op:
                    out.append(f"hist_{name}:" + op[0] + (":col_rel_width" if len(op) > 1 and op[1] else ""))
        out.append("hist_step_status:" + ob["status"])
        if ob["status"] == "ok":
            used_page = True
    return out


def run_chains(res, tier):
    n = 170 if tier == "quick" else 2200
    chains = [CORPUS_HIST_PAGE] + [gen_chain(sub_rng(res.seed, "c08hist", k), tier) for k in range(n)]
    # histories of multi-section documents in which sections have no rows (in the document before, in the one that
    # re-uses its objects, or both)
    for k in range(30 if tier == "quick" else 400):
        rng = sub_rng(res.seed, "c08histempty", k)
        ch = gen_chain(rng, tier, nsec=rng.choice([2, 3, 3, 4]))
        multi_steps = [st for st in ch["steps"] if st["multi"] and not st.get("redoc")]
        for st in multi_steps:
            if rng.random() < 0.7 or st is multi_steps[0]:
                empty_sections(rng, st)
        # a step that re-encodes the document object of the step before shows that document's frames
        for a, b in zip(ch["steps"], ch["steps"][1:]):
            if b.get("redoc"):
                for sa, sb in zip(a["sections"], b["sections"]):
                    sb["rows"] = sa["rows"]
        chains.append(ch)
    obs = common.pool_map(_chain_worker, chains, chunksize=2)
    all_reqs, spans = [], []
    for ch, ob in zip(chains, obs):
        for k, (st, o) in enumerate(zip(ch["steps"], ob)):
            if o["status"] == "not-encoded":
                spans.append(None)
                continue
            exps, reqs = doc_requests(st, o)
            spans.append((len(all_reqs), len(reqs), exps))
            all_reqs += reqs
    outs = common.driver_batch(all_reqs + [rq for ch in chains for rq, _ in page_history_requests(ch)])
    page_outs = iter(outs[len(all_reqs):])
    it = iter(spans)
    for ch, ob in zip(chains, obs):
        # the model of the page object over the history (`pageRun`, `widthsAtEncodes`; C08_page_history): the table
        # width configured at every encode is the one the steps are judged at, and the one the real object holds
        for rq, ks in page_history_requests(ch):
            d = next(page_outs)
            got = [parse_frac(x) for x in d["at_encode"]]
            for kk, w in zip(ks, got):
                res.count("hist_page_model_checked")
                if w != frac(ch["steps"][kk]["page_W"]) or len(got) != len(ks):
                    raise common.MachineryError(f"C08 history: the page model configures {float(w)} at step {kk}, the "
                                                f"generator tracked {ch['steps'][kk]['page_W']}")
        keys = []
        for k, (st, o) in enumerate(zip(ch["steps"], ob)):
            sp = next(it)
            if sp is None:
                continue
            a, m, exps = sp
            sr = _StepRes(res, ch, k)
            keys.append(nontrivial_key(st, o))
            if o["status"] == "ok":
                for r in o["rows"]:
                    res.count("hist_row_kind:" + r["kind"])
                if o.get("page_col_width") != fs(st["page_W"]):
                    sr.disagree(st, f"the page object holds col_width {o.get('page_col_width')} when the document is "
                                    f"encoded; configured (constructor keywords and later updates): {st['page_W']}")
            res.corr_checked += 1
            judge_doc(sr, st, o, exps, outs[a:a + m])
        res.count("hist")
        for lab in chain_labels(ch, ob):
            res.count(lab)
        for st in ch["steps"]:
            for lab in empty_labels(st):
                res.count("hist_" + lab)
        nt = None
        if len([x for x in keys if x is not None]) >= 1 and len(keys) >= 2:
            nt = ("h", tuple(keys), tuple(json_key(st.get("carry")) for st in ch["steps"]))
        res.case(ch, nt)


def page_history_requests(chain):
    """driver requests `c08_page_history`, one per page OBJECT lineage of the history (a freshly constructed page starts
    a new one) → [(request, [step index of every encode of the lineage])]"""
    out, cur, ks = [], None, []
    for k, st in enumerate(chain["steps"]):
        pop = (st.get("carry") or {}).get("page") or ["fresh"]
        if k == 0 or pop[0] == "fresh":
            if cur is not None:
                out.append((cur, ks))
            cur, ks = dict(op="c08_page_history", w0=fs(table_width(st["page"])), ops=[]), []
        elif pop[0] != "same":
            upd = pop[1] if len(pop) > 1 else {}
            if "col_width" in upd:
                cur["ops"].append(["set", fs(upd["col_width"])])
            if not upd or any(f != "col_width" for f in upd):
                cur["ops"].append(["other"])
        if st.get("encode", True):
            cur["ops"].append(["encode"])
            ks.append(k)
    if cur is not None:
        out.append((cur, ks))
    return out


def json_key(v):
    import json

    return json.dumps(v, sort_keys=True, default=str)


CORPUS_HIST_PAGE = dict(level="hist", steps=[
    # a landscape page used for a page_by listing, then derived into a wider one (model_copy(update=…)), then narrowed
    # by assignment, for the next listings: group rows, header, data and footnote rows end at the width configured then
    dict(level="doc", multi=False, page=dict(orientation="landscape"), page_W=8.5, footnote=dict(text="FOOTNOTE-TXT"),
         source=None, header_format="flat", history=None, encode=True, redoc=False, carry=None,
         sections=[dict(cols=["S0C0", "S0C1", "S0C2"],
                        rows=[["S0KEY0a", "s0r0c1", "s0r0c2"], ["S0KEY0a", "s0r1c1", "s0r1c2"], ["S0KEY0b", "s0r2c1", "s0r2c2"]],
                        body=dict(page_by=["S0C0"], col_rel_width=[1, 2, 1]), headers=[dict(text=["S0H0x0", "S0H0x1"])],
                        keep=[False, True, True], mode="page_by", wmode="full", hmode="explicit_nowidth")]),
    dict(level="doc", multi=False, page=dict(orientation="landscape", col_width=9.5), page_W=9.5,
         footnote=dict(text="FOOTNOTE-TXT"), source=None, header_format="flat", history=None, encode=True, redoc=False,
         carry=dict(page=["copy", dict(col_width=9.5)], footnote=["same", {}], source=None, bodies=[["same", {}]],
                    headers=[[["same", {}]]]),
         sections=[dict(cols=["S0C0", "S0C1", "S0C2"],
                        rows=[["S0KEY0a", "s0r0c1", "s0r0c2"], ["S0KEY0b", "s0r1c1", "s0r1c2"]],
                        body=dict(page_by=["S0C0"], col_rel_width=[1, 2, 1]), headers=[dict(text=["S0H0x0", "S0H0x1"])],
                        keep=[False, True, True], mode="page_by", wmode="full", hmode="explicit_nowidth")]),
    dict(level="doc", multi=False, page=dict(orientation="landscape", col_width=7.0), page_W=7.0,
         footnote=dict(text="FOOTNOTE-TXT"), source=None, header_format="flat", history=None, encode=True, redoc=False,
         carry=dict(page=["assign", dict(col_width=7.0)], footnote=["same", {}], source=None, bodies=[["same", {}]],
                    headers=[[["same", {}]]]),
         sections=[dict(cols=["S0C0", "S0C1", "S0C2"],
                        rows=[["S0KEY0a", "s0r0c1", "s0r0c2"], ["S0KEY0b", "s0r1c1", "s0r1c2"]],
                        body=dict(page_by=["S0C0"], col_rel_width=[1, 2, 1]), headers=[dict(text=["S0H0x0", "S0H0x1"])],
                        keep=[False, True, True], mode="page_by", wmode="full", hmode="explicit_nowidth")]),
])


def run_docs(res, tier):
    ndocs = 500 if tier == "quick" else 6000
    cases = [CORPUS_D9, CORPUS_HISTORY]
    for f in sorted((common.CORPUS / "C08").glob("*.json")) if (common.CORPUS / "C08").exists() else []:
        import json
        cases.append(json.loads(f.read_text()))
    for k in range(ndocs):
        cases.append(gen_doc(sub_rng(res.seed, "c08doc", k), tier))
    cases.append(CORPUS_SHARED)
    for k in range(160 if tier == "quick" else 2000):
        cases.append(gen_shared_doc(sub_rng(res.seed, "c08shared", k), tier))
    # sections without rows: first / middle / last / several / all of 2..5 sections; also among sections that list the
    # same body / header objects
    for k in range(140 if tier == "quick" else 1800):
        cases.append(gen_empty_doc(sub_rng(res.seed, "c08empty", k), tier))
    for k in range(40 if tier == "quick" else 500):
        d = gen_shared_doc(sub_rng(res.seed, "c08emptyshared", k), tier)
        empty_sections(sub_rng(res.seed, "c08emptyshared-which", k), d)
        cases.append(d)
    cases += CORPUS_EMPTY       # the smallest documents of the class (fixed)
    obs = common.pool_map(_doc_worker, cases, chunksize=4)
    all_reqs, spans = [], []
    exps_all = []
    for c, o in zip(cases, obs):
        exps, reqs = doc_requests(c, o)
        spans.append((len(all_reqs), len(reqs)))
        all_reqs += reqs
        exps_all.append(exps)
    outs = common.driver_batch(all_reqs)
    for c, o, exps, (a, n) in zip(cases, obs, exps_all, spans):
        drvs = outs[a:a + n]
        sc = strip_case(c)
        res.case(sc, nontrivial_key(c, o))
        res.count("doc")
        res.count("doc_status:" + o["status"])
        res.count("doc_sections:" + str(len(c["sections"])))
        for s in c["sections"]:
            res.count("sec_mode:" + s["mode"])
            res.count("sec_hmode:" + s["hmode"])
            res.count("sec_wmode:" + s["wmode"])
            res.count(f"sec_ncol:{len(s['keep'])}")
            res.count(f"sec_removed:{len(s['keep']) - sum(s['keep'])}")
        if c.get("history"):
            res.count("doc_history:" + "+".join(c["history"]["reuse"]))
        for lab in shared_labels(c) + empty_labels(c):
            res.count(lab)
        if o["status"] == "ok":
            for r in o["rows"]:
                res.count("row_kind:" + r["kind"])
        res.corr_checked += 1
        judge_doc(res, sc, o, exps, drvs)


def run(res: common.Result, build) -> int:
    rng = sub_rng(res.seed, "c08")
    run_unit(res, rng, res.tier)
    run_docs(res, res.tier)
    run_chains(res, res.tier)
    res.extra["float_boundary"] = {k: v for k, v in res.distribution.items() if k.startswith("float_boundary")}
    from .. import crosscorr

    crosscorr.run_cross(crosscorr.LIGHT["C08"], res)      # second tie: the whole-encoder correspondence class
    return common.finish(
        res, build, RULE, TRUSTED, ASSUME,
        explanation="C08_last_is_W / C08_right_edge (last boundary exactly W, hence twip W), "
                    "C08_boundary_proportional (each \\cellx within 1/2 twip of 1440·W·Σ_{i≤k}w_i/Σw), C08_monotone, "
                    "C08_positive, C08_spanning_row, C08_footnote_row, C08_header_inherited_aligns (inherited header = "
                    "data rows after page_by/subline_by removal, for every body vector and mask), C08_section (every row "
                    "kind of a well-formed section ends at twip W and the oracle checkRows accepts the model's rows), "
                    "C08_history (widths independent of earlier uses of the configuration objects), "
                    "C08_sections_shared / C08_section_widths_own / C08_sections_shared_rows (one body object listed for "
                    "several sections of a document: every section's widths come from its own column count, the object "
                    "is not written, every row kind of every such section ends at twip W; C08_sections_memo_witness: "
                    "resolving once per distinct object would not). "
                    "C08_page_history / C08_page_history_rows (a page object that was used, written, copy-updated: every "
                    "row kind of the next document ends at twip of the width configured last; C08_page_keep_witness: an "
                    "encoder that keeps the width on the object would not). "
                    "C08_unrepaired_header_witness / C08_history_old_witness record what the code did before the "
                    "repairs (D9, and the write-back removed in 6e822b0).")


def replay(payload) -> int:
    _cross = payload.get("case") or {}
    if not _cross.get("cross"):
        for _b in payload.get("broken") or []:
            if (_b.get("case") or {}).get("cross"):
                _cross = _b["case"]
    if _cross.get("cross"):
        from .. import crosscorr

        return crosscorr.replay_cross(crosscorr.LIGHT["C08"], _cross)
    case = payload.get("case") or {}
    bad = False
    tmp = common.Result("C08", "quick", 0)
    if case.get("level") == "unit":
        c = (case["w"], case["W"])
        o = _unit_worker(c)
        r = common.driver_batch([dict(op="c08_col_widths", w=[fs(x) for x in c[0]], W=fs(c[1]), eps=EPS_S,
                                      observed=o["twips"])])[0]
        print("implementation twips:", o["twips"], " round(col_width*1440) =", o["twipW"])
        print("model twips         :", r.get("twips"))
        print("violated clauses    :", r.get("viol"))
        judge_unit(tmp, case, o, r)
    elif case.get("level") == "hist":
        obs = _chain_worker(case)
        for k, (st, o) in enumerate(zip(case["steps"], obs)):
            print(f"document {k}: objects handed on as {st.get('carry')}"
                  f"{' (the document object of the step before, encoded again)' if st.get('redoc') else ''}; table width "
                  f"configured when it is encoded: {st['page_W']} in = {round(Fraction(st['page_W']) * 1440)} twips")
            if o["status"] == "not-encoded":
                print("  constructed, not encoded")
                continue
            exps, reqs = doc_requests(st, o)
            drvs = common.driver_batch(reqs)
            if o["status"] == "ok":
                print(f"  page object holds col_width {o.get('page_col_width')}")
                for r in o["rows"]:
                    print(f"  section {r['sec']} {r['kind']:<12} {r['text0']:<14} cellx {r['cellx']}")
            else:
                print("  observation:", o)
            for si, d in enumerate(drvs[:len(exps)]):
                print(f"  section {si}: violated clauses {d.get('viol')}")
            judge_doc(_StepRes(tmp, case, k), st, o, exps, drvs)
    else:
        o = _doc_worker(case)
        exps, reqs = doc_requests(case, o)
        drvs = common.driver_batch(reqs)
        if o["status"] == "ok":
            for r in o["rows"]:
                print(f"  section {r['sec']} {r['kind']:<12} {r['text0']:<14} cellx {r['cellx']}")
        else:
            print("observation:", o)
        for si, d in enumerate(drvs[:len(exps)]):
            print(f"section {si}: model rows {d.get('rows', d.get('model_error'))}")
            print(f"section {si}: violated clauses {d.get('viol')}")
        judge_doc(tmp, case, o, exps, drvs)
    for _, why in tmp.failures:
        print("FAIL:", why)
        bad = True
    for _, why in tmp.disagreements:
        print("DISAGREE:", why)
    if bad:
        print("VIOLATION property=C08 replay=<given>")
        return 1
    if tmp.disagreements:
        print("VIOLATION property=C08 replay=<given> no-failing-input-found")
        return 1
    print("property holds on this input")
    return 0
