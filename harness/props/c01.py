"""C01 — every accepted document encodes to well-formed RTF.

Theorems: lean/Props/C01.lean — the lexer inverts the printer; every document of rtflite's output grammar
(`DocG`: plain material + rows printed from ONE cell list) that satisfies the decidable side condition `docOk`
is `wellFormed`, for any number of pages, rows, cells and any text.
Oracle on the implementation: `rtf_encode()` succeeds for every accepted configuration (the only allowed
refusal: ValueError for non-contiguous group_by keys) and the Lean-defined `wellFormed` (driver op `wf`) holds of
the returned string.
Correspondence: the real string is parsed into a `DocG` tree by the harness, the driver prints it back with
the model's printer and evaluates `docOk`: the re-print must equal the real string byte for byte and `docOk`
must hold — i.e. every real output is an instance of the grammar the theorem is about.
"""
from __future__ import annotations

import json
import re

from .. import common, docgen, laygen
from ..common import sub_rng
from . import c02, c06, c09

MANIFEST = dict(
    text="Lean theorems: compositional lexer inversion of the printer, balance of printed trees, equal \\cellx/\\cell "
         "counts of rows printed from one cell list, hence wellFormed(printDoc d) for every grammar instance with "
         "docOk — unbounded in pages, rows, cells and text. Every run decides wellFormed (the Lean definition) on the "
         "real output of hundreds of generated configurations (single, multi-section, figure; all header / footnote / "
         "placement / pagination / attribute-shape / font-size variants) and re-prints each real output through the "
         "grammar to show it is an instance. Props/C01enc.lean proves C01 for the whole-encoder model: every document "
         "of the decidable domain InDomain that Model.Encode.encode accepts prints to well-formed RTF (any number of "
         "pages, rows, columns, any admissible text); the encoder models (single-section, multi-section, figure) are "
         "compared byte for byte with rtf_encode() on every run. Props/C01total.lean proves the FIRST clause for the "
         "encoder model (C01_encode_total): on every post-construction state the constructors guarantee (decidable "
         "`accepted`) whose attribute shapes are those of C01's quantifier (decidable `shapesInQuantifier`) the model "
         "returns a document, or raises ValueError and the group_by keys are not contiguous — never anything else; "
         "`accepted` is checked against the real constructors in both directions on every run. "
         "Props/C01totalmore.lean proves the same first clause for the multi-section model (C01_encodeM_total: a "
         "document, or ValueError and the keys of some section are not contiguous; every per-section temp_document of "
         "an accepted document is an accepted single-section state, C01_sections_accepted) and for the figure-only "
         "model (C01_encodeF_total: an accepted figure document encodes, no refusal), with `acceptedM` / `acceptedF` "
         "tied to the real constructors in both directions in the same way. Props/C01totalhdr.lean reads the quantifier's "
         "header clause on the constructed state: a header row whose width vector (own or inherited) has at least as "
         "many entries as the row has cells is inside the quantifier under every column removal "
         "(C01_header_widths_cover: the removal slice is taken only for a row with one cell per displayed column and "
         "never leaves fewer entries than cells), so a row naming every ORIGINAL column under page_by / subline_by must "
         "encode; the encoder correspondence and the well-formedness oracle run a header-variation class (1-3 explicit "
         "rows, 1 … original columns + 1 cells each, widths inherited / per original / per displayed column / per cell, "
         "every column-removal strategy, single-section, multi-section, nested header lists) on every run. "
         "Props/C01totalnull.lean reads the quantifier's 'nulls' on whole columns: group_by over columns that hold nothing "
         "but nulls (polars dtype Null, or a concrete dtype without a value) has contiguous keys at every level, so the "
         "one permitted refusal cannot occur and the model encodes (C01_null_keys_contiguous, "
         "C01_encode_total_null_keys[_wellformed]); the well-formedness oracle, the byte-exact encoder correspondence "
         "(single- and multi-section) and the totality tie run a data-shape class on every run (harness/datashapes.py): "
         "whole columns that are untyped-null (dtype Null), typed-null (String / Int64 / Float64 / Boolean / Date / "
         "Object), null except one value, Object columns mixing str / int / float / bool / None, and zero-row frames "
         "with those dtypes, as data column (one, several, all), group_by key at every level, page_by key at every "
         "level and subline_by key, on documents that continue over several pages. "
         "Container spellings: the constructors keep the Python container they are handed for the Sequence-typed "
         "arguments (a tuple page_by stays a tuple), so the well-formedness oracle, the byte-exact encoder "
         "correspondences (single-section, multi-section, nested headers, figure) and the totality ties also run an "
         "argument-spelling class on every run: documents of every generator class with each container-typed "
         "constructor argument (column-name arguments of every body, texts, header lists, margin, col_rel_width, "
         "figure lists) as list / tuple / bare str / numpy array where the constructors accept it, arguments and "
         "sections mixing containers; the encoder models read the entries of the constructed state and are unaffected "
         "by the spelling. "
         "Equal boundaries: C01 allows non-decreasing boundaries, and a column whose absolute width rounds to zero twips "
         "(col_rel_width=[1, 0.0001, 1], the usual way of hiding a helper column) makes two adjacent cells end on the "
         "same twip; the well-formedness oracle and the byte-exact encoder correspondences (single-section, "
         "multi-section, nested headers) run a zero-width-column class on every run (harness/zerowidth.py): tiny "
         "relative widths on one / the last / a run of two or more adjacent / all-but-the-first displayed columns of "
         "the body and of header rows with their own widths, never on the first cell of a row (that is the listed "
         "finding C01-cellx0-subtwip-column, explored by its own stream); the exact cumulative widths of the encoder "
         "model agree with the encoder's floating-point ones on these rows.",
    note="Totality is a theorem about the encoder MODEL (byte-exact against rtf_encode() on every generated document, "
         "exceptions included); of the real encoder it is observed on the configuration product (exceptions other than "
         "the documented ValueError are violations). Configurations the constructors accept outside the quantifier "
         "(empty attribute lists, ragged matrices, None for a required text attribute, col_rel_width=None on a "
         "table-rendered footnote, empty header text, page_by consuming every column, width vectors shorter than the "
         "cells) raise inside rtf_encode(): domain decisions (DESIGN §8), each with a Lean witness and a real replay "
         "on every run. The encoder model works on display cells, so a column's polars dtype is invisible to it: that "
         "the real encoder treats every dtype alike is observed (data-shape class), not proved. A group_by KEY column of "
         "dtype Object is not generated: polars refuses to compare Object series, rtf_encode() raises "
         "InvalidOperationError on the unchanged tree (reported; Object columns in every other role encode). "
         "The harness's parser of real output into the grammar is trusted only fail-safe: any slip shows "
         "as a re-print mismatch.",
    technique="Lean 4 proof (lexer/printer inversion, folds over tokens; well-formedness of the whole-encoder model's "
              "output) + Lean-decided oracle on real output + grammar-instance and byte-exact encoder correspondence",
    design="7/C01",
)

RULE = ("configurations from the product: strategy × header mode (default, explicit, multi-row, none, as_colheader=False, "
        "varied = 1-3 explicit rows with 1 … original column count + 1 cells each × widths inherited / per original column / "
        "per displayed column / per cell, written without regard to the columns page_by / subline_by remove) "
        "× title/subline/footnote/source/page header/footer presence × as_table × placements × orientation/paper size × "
        "nrow × page_by/subline_by/group_by/new_page/pageby_row/pageby_header × attribute shapes × integer and "
        "half-point sizes × cell kinds (padded strings, ints, floats, nulls, non-ASCII) × column data shapes (whole "
        "column untyped-null = dtype Null / typed-null String Int64 Float64 Boolean Date Object / null except one value / "
        "Object mixing str int float bool None / zero-row frame with those dtypes) × column role (data: one, several, "
        "all; group_by level 0-2; page_by level 0-2; subline_by), mostly 2+ pages; multi-section and figure "
        "documents; × container spelling of every container-typed constructor argument (group_by / page_by / subline_by "
        "of every body as list / tuple / bare str, each argument and each section on its own; component texts str / "
        "list / tuple; header list / tuple / single object, header texts list / tuple / frame / str; page margin list / "
        "tuple; col_rel_width of body / headers / footnote / source list / tuple / numpy array; figure list and size "
        "lists list / tuple / array) on the single-section, multi-section, nested-header and figure streams; × zero-width "
        "columns (relative width 1e-4 … 1e-9 on one / the last / a run of ≥ 2 adjacent / all but the first / a scattered "
        "subset of the displayed columns other than the first, body and header rows with own widths, per section: rows "
        "with equal adjacent \\cellx boundaries) on the mixed, header-variation, multi-section and nested-header streams; non-trivial = ≥ 2 pages or ≥ 2 sections/figures; distinct by configuration tuple")

# ----------------------------------------------------------------------------- real output → grammar tree

_TOK = re.compile(
    r"(?P<open>\{)|(?P<close>\})|\\(?P<word>[A-Za-z]+)(?P<param>-?\d+)?(?P<sp> )?|\\'(?P<hex>..)|\\(?P<sym>[^A-Za-z'])|"
    r"(?P<nl>\n)|(?P<txt>[^\\{}\n]+)", re.S)


def parse_nodes(s: str):
    """flat token list → nested node list (JSON shape of Driver/Rtf.lean). Raises ValueError when not parseable."""
    pos = 0
    stack = [[]]
    n = len(s)
    while pos < n:
        m = _TOK.match(s, pos)
        if not m or m.end() == pos:
            raise ValueError(f"cannot tokenise at {pos}: {s[pos:pos + 20]!r}")
        pos = m.end()
        if m.group("open"):
            stack.append([])
        elif m.group("close"):
            if len(stack) == 1:
                raise ValueError("unbalanced close")
            body = stack.pop()
            stack[-1].append(["grp", body])
        elif m.group("word"):
            p = m.group("param")
            stack[-1].append(["cw", m.group("word"), int(p) if p is not None else None, m.group("sp") is not None])
        elif m.group("hex") is not None:
            h = m.group("hex")
            stack[-1].append(["hex", h[0], h[1]])
        elif m.group("sym") is not None:
            stack[-1].append(["sym", m.group("sym")])
        elif m.group("nl"):
            stack[-1].append(["nl"])
        else:
            stack[-1].append(["txt", m.group("txt")])
    if len(stack) != 1:
        raise ValueError("unbalanced open")
    return stack[0]


def to_docg(s: str):
    top = parse_nodes(s)
    if len(top) != 1 or top[0][0] != "grp":
        raise ValueError("not exactly one top-level group")
    body = top[0][1]
    if not body or body[0][:3] != ["cw", "rtf", 1] or body[0][3]:
        raise ValueError("does not begin with \\rtf1")
    nodes = body[1:]
    head, blocks = None, []
    cur = []
    i = 0
    while i < len(nodes):
        nd = nodes[i]
        if nd[0] == "cw" and nd[1] == "trowd" and nd[2] is None and not nd[3]:
            if head is None:
                head = cur
            elif cur:
                blocks.append(["plain", cur])
            cur = []
            defs, contents, acc = [], [], []
            i += 1
            mid = None
            while i < len(nodes):
                x = nodes[i]
                if x[0] == "cw" and x[1] == "cellx" and x[2] is not None and not x[3]:
                    defs.append((acc, x[2]))
                    acc = []
                elif x[0] == "cw" and x[1] == "cell" and x[2] is None and not x[3]:
                    contents.append(acc)
                    acc = []
                elif x[0] == "cw" and x[1] == "row" and x[2] is None and not x[3]:
                    mid = acc
                    break
                else:
                    acc.append(x)
                i += 1
            if mid is None or len(defs) != len(contents):
                raise ValueError(f"row with {len(defs)} \\cellx and {len(contents)} \\cell")
            blocks.append(["row", [], [[d, k, c] for (d, k), c in zip(defs, contents)], mid])
        else:
            cur.append(nd)
        i += 1
    if head is None:
        head = cur
    elif cur:
        blocks.append(["plain", cur])
    return dict(head=head, blocks=blocks)


# ----------------------------------------------------------------------------- generator

def gen_headers_case(rng, k):
    """the header-variation class inside C01's quantifier: explicit header rows with any number of cells from 1 to the
    original column count + 1 (spanning, fewer than / exactly / more than the displayed columns, one per ORIGINAL
    column — still naming the page_by / subline_by columns the table loses), widths inherited from the body or given
    per original / per displayed column / per cell, 1–3 rows, under every pagination strategy; every row's width vector
    covers its cells (`in_domain`), so rtf_encode() must succeed on every one of them"""
    from .. import encodecorr

    geo = c06.rand_geometry(rng)
    strategy = rng.choice(encodecorr.HV_STRATEGIES + ["plain"])
    spec, info = laygen.gen_spec(rng, strategy=strategy, n=rng.randint(0, 30), dividers=(k % 5 == 0),
                                 geometry=geo or None, header_mode="explicit", page_headers=(rng.random() < 0.3),
                                 ndata=rng.choice([1, 2, 2, 3, 4]), levels=rng.choice([None, 1, 2, 3]))
    info["expect_error"] = False
    if strategy != "plain" and rng.random() < 0.5:
        c09.permute_columns(rng, spec, info)
    ncols = len(spec["df"]["cols"])
    if rng.random() < 0.4:
        spec["body"]["col_rel_width"] = [rng.choice([1, 2, 1.5, 3, 0.7]) for _ in range(ncols)]
    encodecorr.vary_headers(rng, spec, info, in_domain=True)
    for a in rng.sample(sorted(c09.ATTRS), rng.randint(0, 3)):
        g = c09.ATTRS[a]
        spec["body"][a] = g(rng) if rng.random() < 0.5 or a in ("cell_height", "cell_justification") else \
            [g(rng) for _ in range(ncols)]
    if rng.random() < 0.3:
        c02.mutate_cells(rng, spec, info, convert_off=False)
    encodecorr.label_headers(spec, info)
    return spec, info


def gen_case(rng, k):
    kind = k % 12
    if kind == 10:
        spec, info = c02.gen_multi(rng)
        info["expect_error"] = False
        return spec, info
    if kind == 11:
        spec, info = c06.gen_figure(rng)
        info["expect_error"] = False
        return spec, info
    geo = c06.rand_geometry(rng)
    spec, info = laygen.gen_spec(rng, dividers=(k % 5 == 0), geometry=geo or None,
                                 page_headers=(rng.random() < 0.5))
    info["expect_error"] = False
    body = spec["body"]
    # default page-number field header sometimes (balanced RTF fragment in user text)
    if rng.random() < 0.3:
        spec["page_header"] = {}
    # attribute shapes
    ncols = len(spec["df"]["cols"])
    n = info["n"]
    for a in rng.sample(sorted(c09.ATTRS), rng.randint(0, 5)):
        g = c09.ATTRS[a]
        sh = rng.choice(["scalar", "percol", "matrix", "pattern"])
        if a in ("cell_height", "cell_justification"):
            sh = "scalar"
        # "pattern": a matrix with fewer rows than the table, recycled row-wise by the library (accepted at construction)
        nr = max(n, 1) if sh == "matrix" else rng.randint(2, max(2, min(5, n - 1))) if n > 2 else max(n, 1)
        body[a] = g(rng) if sh == "scalar" else [g(rng) for _ in range(ncols)] if sh == "percol" else \
            [[g(rng) for _ in range(ncols)] for _ in range(nr)]
    if rng.random() < 0.3:
        body["text_font_size"] = rng.choice([7.5, 8.5, 9.5, 10.5])
    # cell kinds
    c02.mutate_cells(rng, spec, info, convert_off=False)
    first = len(info["hier"])
    if rng.random() < 0.3 and n:
        for r in spec["df"]["rows"]:
            if info["ndata"] > 1 and rng.random() < 0.3:
                r[first + 1] = rng.choice(["café", "αβγ", "naïve ±", "😀 ok", "€5", "x ≥ y"])
    # title / footnote with several lines and non-ASCII
    if spec.get("title") and rng.random() < 0.3:
        spec["title"]["text"] = ["TTL0 é", "TTL1 \\alpha"]
    # group_by on a data column
    if rng.random() < 0.25 and n and not info["page_by"] and not info["subline_by"]:
        gb = [f"v{(i * 3) // max(1, n)}" for i in range(n)]
        contiguous = rng.random() < 0.7
        if not contiguous and n >= 3:
            gb[-1] = gb[0] if gb[0] != gb[-2] else "v9"
            if len(set(gb)) > 1 and gb[-1] in gb[:-1] and gb[-2] != gb[-1]:
                info["expect_error"] = True
        spec["df"]["cols"] = spec["df"]["cols"] + ["GRP"]
        for r, v in zip(spec["df"]["rows"], gb):
            r.append(v)
        body["group_by"] = ["GRP"]
        h = spec["headers"]
        if isinstance(h, list):
            for hh in h[-1:]:
                if hh and len(hh.get("text", [])) == len(info["displayed"]):
                    hh["text"] = hh["text"] + ["HDGRP"]
    return spec, info


def _worker(args):
    seed, k, fixed, *rest = args
    try:
        if fixed is not None:
            spec, info = fixed["spec"], fixed["info"]
        elif rest and rest[0] == "shapes":
            # the data-shape class (harness/datashapes.py): every fourth document is multi-section
            from .. import datashapes

            rng = sub_rng(seed, "c01", "shapes", k)
            spec, info = datashapes.gen_multi(rng, k) if k % 4 == 3 else datashapes.gen_table(rng, k)
        elif rest and rest[0]:
            spec, info = gen_headers_case(sub_rng(seed, "c01", "headers", k), k)
        else:
            spec, info = gen_case(sub_rng(seed, "c01", k), k)
        if fixed is None and len(rest) > 1 and rest[1] == "args":
            # the argument-spelling class: the same document of one of the classes above (single table, multi-section,
            # figure; header variation; data shapes) with every container-typed constructor argument handed over in
            # another container the constructors accept — column-name arguments of every body as tuple / bare str
            # (each argument, each section on its own: list / tuple mixes), texts, header lists, margin, col_rel_width,
            # figure lists (docgen `gen_spelling(args=True)`)
            from .. import encodecorr

            encodecorr.respell(sub_rng(seed, "c01", "argspelling", str(rest[0]), k), spec, info)
        if fixed is None and len(rest) > 1 and rest[1] == "zerow":
            # the zero-width-column class (harness/zerowidth.py): the same document of one of the classes above with
            # tiny relative widths on displayed columns other than the first (one / the last / a run of adjacent
            # columns / all but the first), in the body and in header rows with their own widths — rows that declare
            # equal adjacent boundaries
            from .. import zerowidth

            zerowidth.apply(sub_rng(seed, "c01", "zerowidth", str(rest[0]), k), spec, info)
        st = docgen.encode(spec)
        out = dict(spec=spec, info=info, status=st[0])
        if st[0] == "ok":
            out["rtf"] = st[1]
            try:
                out["tree"] = to_docg(st[1])
            except ValueError as e:
                out["tree_error"] = str(e)
        else:
            out["exc"], out["msg"] = st[1], st[2]
        return out
    except Exception:  # noqa: BLE001
        import traceback

        return dict(machinery=traceback.format_exc()[-1500:])


def judge(res, o, wf, tree):
    case = dict(spec=o["spec"], info={k: v for k, v in o["info"].items() if k != "expect"})
    info = o["info"]
    if o["status"] != "ok":
        if o["status"] == "encode-error" and o["exc"] == "ValueError" and info.get("expect_error"):
            res.count("refused:non-contiguous group_by")
            return
        res.fail(case, f"{o['status']}: {o['exc']}: {o['msg'][:200]} — an accepted configuration must encode "
                       f"(only non-contiguous group_by keys may be refused, with ValueError)")
        return
    if info.get("expect_error"):
        res.count("accepted:non-contiguous-looking group_by")
    if not wf["ok"]:
        res.fail(case, f"rtf_encode() output is not well-formed RTF: {wf['report']}")
        return
    if "tree_error" in o:
        res.disagree(case, f"output is not an instance of the grammar: {o['tree_error']}")
        return
    if tree is not None:
        res.corr_checked += 1
        if tree["text"] != o["rtf"]:
            a, b = tree["text"], o["rtf"]
            i = next((j for j in range(min(len(a), len(b))) if a[j] != b[j]), min(len(a), len(b)))
            res.disagree(case, f"re-print through the grammar differs from the real output at offset {i}: "
                               f"model {a[i - 20:i + 30]!r} vs real {b[i - 20:i + 30]!r}")
        elif not tree["docOk"]:
            res.disagree(case, f"grammar side condition docOk fails on the real output (plainOk={tree['plainOk']}, "
                               f"adjOk={tree['adjOk']})")


# ------------------------------------------------------------------ known finding: \cellx0

FINDING_ID = "C01-cellx0-subtwip-column"
FINDING_WHAT = ("RTFBody(col_rel_width=[1, 100000]) on the default 6.25 in table: the first column is narrower than half "
                "a twip, round() gives 0 and every row declares \\cellx0 — a boundary that is not positive")


def _cellx_worker(args):
    """(ratio, nrows) → encoded document; runs in a pool worker (rtflite / polars are never imported in the parent)"""
    try:
        return _cellx_doc(*args)
    except Exception as e:  # noqa: BLE001
        return f"ERROR {type(e).__name__}: {e}"


def _cellx_doc(ratio: int, nrows: int = 1):
    import polars as pl
    import rtflite as rtf

    df = pl.DataFrame({"a": [f"r{i}c0" for i in range(nrows)], "b": [f"r{i}c1" for i in range(nrows)]})
    return rtf.RTFDocument(df=df, rtf_body=rtf.RTFBody(col_rel_width=[1, ratio])).rtf_encode()


def findings_stream(res) -> list[str]:
    """re-confirm the listed finding; while it is listed, explore its class with the explained deviation: the ONLY
    defect of such a document is the zero first boundary (with it replaced by 1 the output is well-formed), and the
    boundary is zero only where the exact width of the first column is below half a twip"""
    import re
    from fractions import Fraction

    listed = {e.get("id") for e in common.known_findings("C01")}
    lines = []
    params = [(100000, 1)]
    for i in range(24):
        rng = common.sub_rng(res.seed, "c01f", i)
        params.append((rng.choice([3000, 9000, 17999, 18001, 18500, 40000, 100000, rng.randint(2000, 300000)]),
                       rng.randint(1, 30)))
    outs = common.pool_map(_cellx_worker, params, chunksize=4)
    try:
        out = outs[0]
        wf = common.driver_batch([dict(op="wf", rtf=out)])[0]
        still = "\\cellx0" in out and not wf["ok"]
        obs = f"{sorted(set(re.findall(r'\\cellx-?[0-9]+', out)))}; Lean wellFormed: {wf['report'][:80]}"
    except Exception as e:  # noqa: BLE001
        still, obs = True, f"{type(e).__name__}: {e}"
    if FINDING_ID not in listed:
        res.notes.append(f"{'reproduced' if still else 'no longer reproduced'}, not listed in known_findings.json: "
                         f"{FINDING_ID}: {FINDING_WHAT} (observed {obs})")
        if still:
            res.fail(dict(level="finding", ratio=100000), f"{FINDING_WHAT} (observed {obs})")
        return lines
    res.known_hits[FINDING_ID] = int(still)
    if still:
        lines.append(f"KNOWN-FINDING: property=C01 {FINDING_ID}: {FINDING_WHAT} (observed {obs})")
    reqs, meta = [], []
    for (ratio, n), out in zip(params[1:], outs[1:]):
        exact = Fraction(25, 4) * 1440 / (1 + ratio)          # 6.25 in * 1/(1+ratio), in twips
        zero = "\\cellx0" in out
        res.count("cellx0_class:" + ("zero" if zero else "positive"))
        case = dict(level="finding-class", ratio=ratio, nrows=n)
        if abs(exact - Fraction(1, 2)) > Fraction(1, 10**6) and zero != (exact < Fraction(1, 2)):
            res.fail(case, f"first boundary is {'0' if zero else 'positive'} although the exact first-column width is "
                           f"{float(exact):.4f} twip")
        reqs.append(dict(op="wf", rtf=out.replace("\\cellx0\n", "\\cellx1\n") if zero else out))
        meta.append(case)
    for case, wf in zip(meta, common.driver_batch(reqs)):
        if not wf["ok"]:
            res.fail(case, "not well-formed beyond what the zero first boundary explains: " + wf["report"][:200])
    return lines


def run(res, build):
    from .. import emitunit

    known_lines = findings_stream(res)

    emitunit.run(res, res.tier)     # unit level: real Row/Cell/TextContent emitters vs Model/Emit.lean, byte-exact
    from .. import datashapes, encodecorr, zerowidth

    # document level: the whole single-section encoder model (Model/Encode.lean = composition of the pagination,
    # layout, border, attribute, colour, width, group_by, conversion, escape and emitter models) must return the
    # very string rtf_encode() returns
    outs = encodecorr.run(res, res.tier)
    res.evaluations += len(outs)
    # first clause (totality, Props/C01total.lean): the decidable hypotheses `accepted` / `shapesInQuantifier` /
    # `measureOk` of the totality theorem evaluated on the same post-construction states — `accepted` is neither
    # narrower nor wider than the real constructors, and the theorem's partition (encodes / refused for non-contiguous
    # keys / outside the quantifier) is the one the real encoder shows
    from .. import encodetotal

    res.evaluations += encodetotal.run(res, outs)
    # the multi-section path (Model/EncodeMulti.lean), the figure path (Model/EncodeFigure.lean) and nested header
    # lists on a single frame, byte-exact as well
    from .. import encodecorr2

    outs = encodecorr2.run(res, res.tier)
    res.evaluations += len(outs)
    # first clause on those paths (Props/C01totalmore.lean): `acceptedM` / `acceptedF` against the real constructors in
    # both directions, the totality theorems' partition against what the real encoder does
    res.evaluations += encodetotal.run_more(res, outs)
    n = 420 if res.tier == "quick" else 6000
    jobs = [(res.seed, k, None) for k in range(n)]
    jobs += [(res.seed, k, None, True) for k in range(n // 5)]      # the header-variation class (`gen_headers_case`)
    jobs += [(res.seed, k, None, "shapes") for k in range(n // 3)]  # the data-shape class (`harness/datashapes.py`)
    # the argument-spelling class (`encodecorr.respell`) over the three classes above
    jobs += [(res.seed, k, None, False, "args") for k in range(n // 4)]
    jobs += [(res.seed, k, None, True, "args") for k in range(n // 10)]
    jobs += [(res.seed, k, None, "shapes", "args") for k in range(n // 6)]
    # the zero-width-column class (`harness/zerowidth.py`) over the mixed and the header-variation class
    jobs += [(res.seed, k, None, False, "zerow") for k in range(n // 3)]
    jobs += [(res.seed, k, None, True, "zerow") for k in range(n // 6)]
    cdir = common.CORPUS / "C01"
    if cdir.exists():
        for i, f in enumerate(sorted(cdir.glob("*.json"))):
            jobs.insert(0, (res.seed, -1 - i, json.loads(f.read_text())))
    outs = common.pool_map(_worker, jobs, chunksize=4)
    for o in outs:
        if "machinery" in o:
            raise common.MachineryError("worker failed: " + o["machinery"])
    reqs, idx = [], []
    for i, o in enumerate(outs):
        if o["status"] == "ok":
            reqs.append(dict(op="wf", rtf=o["rtf"]))
            idx.append((i, "wf"))
            if "tree" in o:
                reqs.append(dict(op="c01_tree", **o["tree"]))
                idx.append((i, "tree"))
    drv = common.driver_batch(reqs)
    wf, tree = {}, {}
    for (i, what), d in zip(idx, drv):
        (wf if what == "wf" else tree)[i] = d
    for i, o in enumerate(outs):
        info = o["info"]
        np_ = o.get("rtf", "").count("\\page") + 1 if o["status"] == "ok" else 0
        nt = None
        if np_ >= 2 or info.get("strategy") in ("multi", "figure"):
            nt = (info.get("strategy"), info.get("header_mode"), info.get("footnote"), info.get("source"),
                  str(info.get("placements")), np_, json.dumps(sorted((o["spec"].get("body") or {}).keys())
                                                               if isinstance(o["spec"].get("body"), dict) else "multi"))
            if info.get("header_mode") == "varied":
                nt += (str([r[1:3] for r in info.get("header_rows", [])]),)
            if info.get("data_shapes"):
                nt += (str(sorted(set((r, s) for r, _, s in info["data_shapes"]))),)
            if o["spec"].get("spelling"):
                nt += (str(sorted(o["spec"]["spelling"].items())),)
            if info.get("zero_width"):
                nt += (str(sorted(set(info["zero_width"]))),)
        res.case(dict(spec=o["spec"], info=info), nt)
        res.count("kind:" + str(info.get("strategy")))
        res.count("header:" + str(info.get("header_mode")))
        res.count("status:" + o["status"])
        encodecorr.count_header_rows(res, info, prefix="hdrcells:wf")
        datashapes.count(res, info, prefix="datashape:wf")
        encodecorr.count_spelling(res, info, f"spell:wf:{o['spec'].get('kind', 'table')}:{o['status']}")
        zerowidth.count(res, info, "zerowidth:wf")
        if info.get("zero_width") and o["status"] == "ok":
            eq = any(a == b for r in re.findall(r"\\trowd.*?\\row(?![a-z])", o["rtf"], flags=re.S)
                     for bs in [re.findall(r"\\cellx(-?\d+)", r)] for a, b in zip(bs, bs[1:]))
            res.count("zerowidth:wf:rows with equal adjacent boundaries:" + ("yes" if eq else "no"))
        if info.get("data_shapes"):
            res.count(f"datashape:wf:pages={min(np_, 3)}{'+' if np_ > 3 else ''}")
        judge(res, o, wf.get(i), tree.get(i))
    # the replay names the smallest failing input found (stable: ties keep the order of discovery)
    # — among the inputs accepted at construction first: a refusal by the constructors of a document the generators
    # mean to be accepted is reported too, but the statement speaks about accepted configurations
    res.failures.sort(key=lambda cw: (str(cw[1]).startswith("construct-error"), len(json.dumps(cw[0], default=str))))
    return common.finish(
        res, build, RULE, known_lines=known_lines, trusted=
        ["Lean 4.33 kernel; axioms ⊆ {propext, Classical.choice, Quot.sound} (audited per theorem on every run)",
         "Lean compiler for the driver executable",
         "Model/Rtf.lean is our reading of RTF's lexical syntax (the specification the theorems are relative to)",
         "harness/props/c01.py parse of real output into the grammar (fail-safe: checked by byte-exact re-print)"],
        assumptions=["pydantic construction, polars, Pillow are parameters; the configuration product is sampled, not "
                     "enumerated"],
        explanation="C01_lex_print, C01_balanced, C01_rows, C01_grammar_wellformed, C01_digits hold for every tree / "
                    "grammar instance. wellFormed (Lean) is decided on every real output; each real output is shown to "
                    "be a grammar instance by re-printing it.")


def replay(payload):
    case = payload.get("case") or {}
    if case.get("level") in ("finding", "finding-class"):
        from fractions import Fraction

        ratio, n = case["ratio"], case.get("nrows", 1)
        out = common.pool_map(_cellx_worker, [(ratio, n)] * 4)[0]
        zero = "\\cellx0" in out
        exact = Fraction(25, 4) * 1440 / (1 + ratio)
        wf = common.driver_batch([dict(op="wf", rtf=out), dict(op="wf", rtf=out.replace("\\cellx0\n", "\\cellx1\n"))])
        print(f"ratio 1:{ratio}, {n} rows: exact first-column width {float(exact):.4f} twip; \\cellx0 present: {zero}; "
              f"Lean wellFormed: {wf[0]['report'][:100]}; with the zero boundary replaced by 1: {wf[1]['report'][:100]}")
        listed = FINDING_ID in {e.get("id") for e in common.known_findings("C01")}
        explained = listed and (not zero or exact < Fraction(1, 2) + Fraction(1, 10**6)) and wf[1]["ok"]
        if wf[0]["ok"]:
            print("property holds on this input")
            return 0
        if explained:
            print(f"KNOWN-FINDING: property=C01 {FINDING_ID}: {FINDING_WHAT}")
            return 0
        print("VIOLATION property=C01 replay=<given>")
        return 1
    if case.get("level") == "encode-doc2":
        from .. import encodecorr2

        return encodecorr2.replay_case(case)
    if str(case.get("level", "")).startswith("encode-total"):
        from .. import encodetotal

        return encodetotal.replay_case(case)
    if "spec" not in case:
        for b in payload.get("broken", []):
            print("no longer checks:", b.get("kind"), "-", (b.get("why") or b.get("log") or "")[:600])
            if b.get("kind") == "correspondence" and "case" in b:
                case = b["case"]
        if "spec" not in case:
            print("VIOLATION property=C01 replay=<given> no-failing-input-found")
            return 1
    o = _worker((0, 0, dict(spec=case["spec"], info=case["info"])))
    if "machinery" in o:
        print(o["machinery"])
        return 2
    res = common.Result("C01", "quick", 0)
    wf = tree = None
    if o["status"] == "ok":
        reqs = [dict(op="wf", rtf=o["rtf"])] + ([dict(op="c01_tree", **o["tree"])] if "tree" in o else [])
        d = common.driver_batch(reqs)
        wf, tree = d[0], (d[1] if len(d) > 1 else None)
        print("wellFormed:", wf)
    else:
        print("status:", o["status"], o.get("exc"), o.get("msg"))
    judge(res, o, wf, tree)
    for _, why in res.failures:
        print("FAIL:", why)
    for _, why in res.disagreements:
        print("GRAMMAR/CORRESPONDENCE:", why)
    if res.failures:
        print("VIOLATION property=C01 replay=<given>")
        return 1
    print("property holds on this input")
    return 0
