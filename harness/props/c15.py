"""C15 — concurrent encodes do not interfere.

Theorems: lean/Props/C15.lean about `Model.Interleave` (threads as programs over the shared-state events
of one rtf_encode(): strategy-registry register/get, colour-context set/lookup/clear; arbitrary schedules).

Tie to the code on every run:
  unit level         real `ColorService.get_rtf_color_index` under a context set through
                     `set_document_context(used_colors=…)` vs `Model.Interleave.colorIndex`;
                     cell probe: a context set in one real thread must be invisible in another (the `Local` cell).
  observation level  REAL threads calling `RTFDocument.rtf_encode()` under a deterministic scheduler
                     (harness/sched.py: `sys.settrace` "call" events inside the rtflite package are the switch
                     points).  Oracle on the implementation: every thread's returned string is byte-equal to the
                     string the same document gives when encoded alone *in a fresh interpreter*; and the
                     Lean-defined predicate `notInterfered` holds of the colour indices / strategy classes each
                     thread actually obtained (logged by wrappers installed from here, not in /repo) against the
                     ones it obtained alone.  Model agreement: the driver replays the logged abstract schedule in
                     `Model.Interleave.run .Local` and must reproduce every logged result.
Schedules: ALL single-preemption schedules (thread X parked before its k-th library call for every k, the
others run to completion, X resumes) for every ordered choice of X; 2-/3-preemption schedules enumerated at the
switch points adjacent to shared-state accesses ("guided") and sampled uniformly; 3-thread schedules, among them
"one thread held while ALL the others encode" (`held_while_all`): thread X is held before its k-th call — k at every
call boundary INSIDE the dynamic extent of one of X's shared-state accesses (sched.py logs where each access begins
and returns: the points between the steps of one logical access, check … act / insert … trim … re-read), and k
anywhere (sampled) — the two other documents are encoded one after the other, in both orders (sampled: the first one
only partly), X resumes; the other documents are encoded alone right before (history: X is the least recently used
document of the process, which matters wherever the library keeps a bounded number of recent things).
Document sets: mixed sets (different palettes and shapes) and SAME-FEATURE sets (`gen_feature_set`): both / all three
documents use the same feature — page_by heading rows, subline_by headings, group_by, multi-section, figures, each with
column headers, footnote / source (as table or not), title of their own formats — on one skeleton (same column names,
grouping column at the same index, same first group value, same component texts) with every resolved setting drawn
from pools that are disjoint between the documents, so that state shared between threads under a common key shows in
the bytes.  For every same-feature pair the quick tier enumerates all single-preemption schedules that park document 0.
SHARED-OBJECT sets (`gen_shared_set`, spec key "share"): the documents in flight were given the same component OBJECTS
(column headers with their own col_rel_width, body, page, title, footnote, source, page header / footer — RTFDocument
keeps them by reference) and differ in what such an object's rendering depends on (page geometry, palette, displayed
columns, data); every document has ≥ 2 pages with repeated column headers.  The solo baseline of each document is taken
in a fresh process in which the whole set is built the same way (same sharing) and that document alone is encoded.
Quick tier: `shared-headers` (header objects shared, page geometry different) with document 0 parked at every library
call boundary (exhaustive), the other role, `shared-most` (every component object shared but the page and one
coloured component) and `shared-page` (the page object shared) at evenly spaced boundaries in both roles; thorough:
every boundary in both roles for all of them, and three documents.
OPTION sides and affected texts: every set's texts carry snippets the per-component switches act on (`AFFECTED`: LaTeX
commands with a Unicode mapping, the RTF_CHAR_MAPPING characters, non-ASCII) and text_convert is switched off for some
components of some documents; `pair-options` (`gen_option_set`) is the pair whose documents sit on different sides of
EVERY per-component switch (text_convert of every component, as_table, text_hyphenation, pageby_header, new_page,
as_colheader, use_color).
PROCESS-WIDE CELLS nobody listed (`sched.StateProbe` / `state_windows`): every instance of a package class that is
alive while no document exists (module-level singletons, objects kept by functools.cache / lru_cache, class-level
objects), every module global and class attribute of the package is fingerprinted at every library call boundary of each
document's solo encode; the boundaries at which such a cell differs from its idle value (inside a set … restore window:
a flag switched off around one call in a try/finally) or next to a write that stays are park points: family
`state-window` parks every document of every set there while the other document(s) are encoded from start to finish.
Cell classes: every `contextvars.ContextVar` of the package is classified on every run (fresh interpreter): a mutable
default object that an encode on another thread changes in place is a process-wide cell (`CtxMode.Global`), not the
per-thread cell the theorems are about.  Likewise every shared input object: if encodes of different documents leave
different states on it (fields, private attributes, extras), it is a process-wide cell carrying per-document state.
"""
from __future__ import annotations

import hashlib
import io
import contextlib
import json
import os
import struct
import subprocess
import sys
import tempfile
import time
import zlib

from .. import common, docgen
from ..common import sub_rng

RULE = ("schedules of 2 or 3 real threads encoding documents with different palettes (one shared colour whose "
        "table position differs per document) and shapes (plain / page_by / subline_by / multi-section / figure), "
        "and same-feature sets (both / all documents use page_by heading rows, subline_by, group_by, multi-section or "
        "figures on one skeleton — same column names, grouping column index, first group value, component texts — "
        "with formats, alignments, fonts, sizes, colours, borders, heights, figure sizes from pools disjoint between "
        "the documents), and sets whose documents were GIVEN THE SAME COMPONENT OBJECTS (column headers with own "
        "col_rel_width, body, page, title, footnote, source, page header / footer — kept by reference by RTFDocument) "
        "while differing in page geometry, palette, displayed columns, data and page count (≥ 2 pages each, column "
        "headers repeated, document 0 ≥ 3 pages; solo baseline built with the same sharing in a fresh process); "
        "every set's texts carry LaTeX commands with a Unicode mapping / RTF_CHAR_MAPPING characters / non-ASCII and "
        "some components have text_convert off; pair-options: two documents on different sides of every per-component "
        "switch (text_convert per component, as_table, text_hyphenation, pageby_header, new_page, as_colheader, "
        "use_color); every document of every set is also parked at each library call boundary at which an attribute of "
        "a process-wide object of the package (module-level / cached / class-level instance, module global, class "
        "attribute — found by a heap scan, no name list) differs from its idle value or next to a write that stays; "
        "three-document sets also under 'one thread held inside / next to one of its shared accesses (every call "
        "boundary of the access's dynamic extent) or anywhere, while both other documents are encoded, in both "
        "orders, after the history: the others encoded alone'; "
        "non-trivial = the schedule is *discriminating*: replayed in the model with one process-wide "
        "colour cell (the pre-repair semantics) at least one thread would obtain a wrong colour index; distinct by "
        "(document set, schedule)")
TRUSTED = [
    "Lean 4.33 kernel; axioms ⊆ {propext, Classical.choice, Quot.sound} (audited per theorem on every run)",
    "Lean compiler for the driver executable (compiled evaluation agrees with kernel reduction)",
    "harness/sched.py: token-passing scheduler on the 'call' events of sys.settrace, delivered through "
    "sys.monitoring (PY_START/PY_RESUME/PY_THROW of code in the rtflite package; both observers are run on every "
    "baseline document on every run and must agree, else sys.settrace is used); wrappers that log the shared "
    "accesses (a wrong log shows up as model disagreement or as a byte difference, i.e. fails safe)",
    "CPython: a thread parked in a trace function executes nothing; str == on returned documents",
]
ASSUME = [
    "thread switches are modelled at function-call boundaries inside the rtflite package; preemption inside a "
    "single bytecode-level shared access is outside the model (each access is one dict/ContextVar operation, "
    "atomic under the GIL)",
    "free-threaded (no-GIL) CPython and data races inside C extensions (polars, Pillow) are outside the model",
    "contextvars: a new threading.Thread starts with an empty context (default None) — probed on every run; every "
    "ContextVar of the package is bound with .set() per encode and has an immutable default (a mutable default object "
    "mutated in place is one cell per process) — classified on every run",
    "documents are not shared between threads (each thread encodes its own RTFDocument); the component objects they "
    "were constructed from may be (sets shared-*), and are then expected to be read-only input of an encode — every "
    "shared object's state is compared after encodes of different documents on every run",
]
MANIFEST = dict(
    text="Lean theorems over an interleaving model of concurrent rtf_encode() calls (any number of threads, any "
         "programs over registry register/get and colour-context set/lookup/clear, any schedule): with a "
         "per-thread colour cell (ContextVar, the current code) every thread's local state equals its solo state "
         "after the same number of own steps (frame lemma + simulation + induction on the schedule), hence its "
         "outputs are always a prefix of, and on completion equal to, its solo outputs; with one process-wide cell "
         "(the code before 981b773) the statement is refuted by a 2-thread/1-preemption witness. Tied to the code "
         "on every run by a deterministic scheduler for real threads (call events of sys.settrace / "
         "sys.monitoring; all single-preemption schedules of a document pair exhaustively, guided and sampled "
         "2-/3-preemption and 3-thread schedules; mixed document sets and same-feature sets — page_by heading rows, "
         "subline_by, group_by, multi-section, figures with different settings on one skeleton, one document of each "
         "pair parked at every library call boundary): "
         "byte-equality of every thread's document with its fresh-process solo document, Lean-evaluated "
         "notInterfered on the logged lookups, and replay of the logged schedule in the model. A process-wide memo "
         "that is reset per use (e.g. a ContextVar whose mutable default object is mutated in place) is the Global "
         "cell of the model: exact sequentially (C15_global_sequential_reset), refuted under one preemption "
         "(C15_shared_default_memo_interferes); every ContextVar of the package is classified on every run. "
         "Document sets that share component OBJECTS by identity (one RTFColumnHeader / RTFBody / RTFPage / RTFTitle / "
         "RTFFootnote / RTFSource / page header / footer object given to both documents; different page geometry, "
         "palette, displayed columns, data, page counts ≥ 2; sets shared-headers, shared-most, shared-page) are "
         "scheduled too — one of them with document 0 parked at every library call boundary, the others at evenly "
         "spaced boundaries in both roles (quick; thorough: every boundary, both roles) — against solo documents "
         "built with the same sharing; what an encode stores on such an object is the Global cell as well "
         "(objMemoProg: C15_object_memo_sequential, C15_shared_object_memo_interferes, "
         "C15_private_object_memo_exact), and the state of every shared object after encodes of different documents is "
         "compared on every run. Three-thread schedules include 'one thread held at every call boundary inside the "
         "dynamic extent of each of its shared accesses while BOTH other documents are encoded (both orders), after "
         "the others were encoded alone' — the schedules a bounded, content-keyed cache on a process-wide service "
         "needs (Model.InterleaveLru, Props/C15lru: atomic lookups always hit, two threads are safe under all 64 "
         "interleavings, three threads with three palettes fail under one preemption). A service-wide flag that is "
         "switched off around one call and restored in a finally (set … restore window on an attribute of a cached / "
         "module-level object) is the Global cell too: exact sequentially (C15_flag_window_sequential), broken by one "
         "preemption inside the window and only there, one-sidedly (C15_flag_window_interferes), exact under every "
         "schedule when the flag is per call / per thread (C15_private_flag_exact); the harness finds such windows "
         "by fingerprinting every process-wide object of the package at every library call boundary of a solo encode "
         "and parks each document inside each of them (family state-window), with documents that sit on different "
         "sides of every per-component switch and texts the switches act on (mapped LaTeX commands, non-ASCII).",
    note="PARTIAL with respect to the runtime: switch points are library call boundaries (≈2 300 per small "
         "encode); preemption inside one bytecode-level shared access, free-threaded CPython and races inside C "
         "extensions (polars, Pillow) are outside the model and the scheduler. The strategy registry is a shared "
         "dict in the model; non-interference needs (and the check verifies on the logs) that every encode "
         "registers the same classes before reading them.",
    technique="Lean 4 proof (frame lemma, simulation, induction on schedules) + schedule-controlled real threads "
              "(exhaustive single preemption) + model replay of logged shared-state events",
    design="7/C15",
)

STRAT_IDS = {"default": 0, "page_by": 1, "subline": 2}
CLS_IDS = {"DefaultPaginationStrategy": 0, "PageByStrategy": 1, "SublineStrategy": 2}
RAISED = 10 ** 6 + 1


def _stable_id(s: str, table: dict) -> int:
    if s in table:
        return table[s]
    return 1000 + int.from_bytes(hashlib.sha256(s.encode()).digest()[:3], "big")


# ------------------------------------------------------------------ documents

def _png(w: int, h: int, shade: int) -> str:
    def chunk(tag, data):
        c = struct.pack(">I", len(data)) + tag + data
        return c + struct.pack(">I", zlib.crc32(tag + data) & 0xFFFFFFFF)
    raw = b"".join(b"\x00" + bytes([shade, 255 - shade, (shade * 7) % 256]) * w for _ in range(h))
    return (b"\x89PNG\r\n\x1a\n" + chunk(b"IHDR", struct.pack(">IIBBBBB", w, h, 8, 2, 0, 0, 0))
            + chunk(b"IDAT", zlib.compress(raw)) + chunk(b"IEND", b"")).hex()


def color_names():
    from rtflite.dictionary.color_table import name_to_type

    return dict(name_to_type)


def gen_palettes(rng, n, n2t):
    """n palettes sharing one colour X whose dense index differs from palette to palette"""
    names = sorted((k for k in n2t if k and k != "black"), key=lambda k: n2t[k])
    while True:
        xi = rng.randrange(4, len(names) - 4)
        x = names[xi]
        below = names[:xi]
        above = names[xi + 1:]
        pals = []
        used = {x}
        for t in range(n):
            nb = t  # thread t has t colours below X → X sits at position t+1
            lo = rng.sample([c for c in below if c not in used], nb)
            used.update(lo)
            hi = rng.sample([c for c in above if c not in used], rng.randint(1, 2))
            used.update(hi)
            pals.append(dict(common=x, own=lo + hi))
        order = list(range(n))
        rng.shuffle(order)
        return [pals[i] for i in order]


def gen_doc(rng, kind, pal, tag):
    """document spec (docgen format) of the given kind using the palette"""
    x, own = pal["common"], pal["own"]
    cols_all = [x] + own

    def pick():
        return rng.choice(cols_all)

    def frame(nr, nc, key=None, kp=""):
        cols = [f"{tag}c{j}" for j in range(nc)]
        rows = [[f"{tag}{i}_{j}" for j in range(nc)] for i in range(nr)]
        if key:
            cols = ["grp"] + cols
            ks = []
            v = 0
            for i in range(nr):
                if i and rng.random() < 0.45:
                    v += 1
                ks.append(f"{kp}G{v}")
            rows = [[ks[i]] + r for i, r in enumerate(rows)]
        return dict(cols=cols, rows=rows)

    def body_colors(nc):
        b = dict(text_color=[x] + [pick() for _ in range(nc - 1)])
        r = rng.random()
        if r < 0.4:
            b["text_background_color"] = [[pick() for _ in range(nc)]]
        elif r < 0.6:
            b["text_background_color"] = [pick()] + [""] * (nc - 1)
        if rng.random() < 0.3:
            b["border_color_top"] = [[pick()]]
        return b

    spec = dict(kind="table")
    if rng.random() < 0.8 or kind == "figure":
        spec["title"] = dict(text=f"Title {tag}", text_color=pick())
    if rng.random() < 0.5 or kind == "figure":
        spec["footnote"] = dict(text=f"note {tag}", text_color=x,
                                as_table=(rng.random() < 0.5 and kind != "figure"))
    if rng.random() < 0.3:
        spec["source"] = dict(text=f"src {tag}", text_color=pick())
    if rng.random() < 0.3:
        spec["page_header"] = dict(text=f"hdr {tag}", text_color=pick())
    if kind in ("table", "tsmall"):
        nr, nc = (rng.randint(2, 4), rng.randint(2, 3)) if kind == "table" else (rng.randint(2, 3), 2)
        spec["df"] = frame(nr, nc)
        spec["body"] = body_colors(nc)
        if rng.random() < 0.5:
            spec["headers"] = [dict(text=[f"H{j}" for j in range(nc)], text_color=pick())]
    elif kind in ("pageby", "subline"):
        nr, nc = rng.randint(4, 5), 2
        spec["df"] = frame(nr, nc, key=True)
        b = body_colors(nc + 1)
        if kind == "pageby":
            b["page_by"] = ["grp"]
            b["new_page"] = rng.random() < 0.5
        else:
            b["subline_by"] = ["grp"]
        spec["body"] = b
        spec["page"] = dict(nrow=rng.randint(5, 9))
        spec["headers"] = [dict(text=[f"H{j}" for j in range(nc)], text_color=pick())]
    elif kind == "groupby":
        # group_by over >= 2 pages: the page-start rows get their group value back (suppress, then restore)
        nr, nc = 5, 1
        spec["df"] = frame(nr, nc, key=True, kp=tag)     # group values differ between the documents
        b = dict(text_color=[x, pick()])
        b["group_by"] = ["grp"]
        spec["body"] = b
        spec["page"] = dict(nrow=4)
        spec.pop("title", None)
        spec.pop("page_header", None)
        spec["headers"] = [dict(text=["grp"] + [f"H{j}" for j in range(nc)], text_color=pick())]
        spec.pop("footnote", None)
        spec.pop("source", None)
    elif kind == "multi":
        spec["kind"] = "multi"
        n1, n2 = rng.randint(2, 3), rng.randint(2, 3)
        spec["df"] = [frame(rng.randint(2, 3), n1), frame(rng.randint(2, 3), n2)]
        spec["body"] = [body_colors(n1), body_colors(n2)]
        spec["headers"] = [[dict(text=[f"H{j}" for j in range(n1)], text_color=pick())],
                           [dict(text=[f"K{j}" for j in range(n2)])]]
    elif kind in ("fontmix", "font14"):
        # a pair for shared state in the width-measuring path: one document switches between font sizes while it is
        # measured, the other is paginated by widths measured at the size the first one switches to
        from .. import laygen

        nc = 2
        cw = 6.25 / nc
        words = ["lorem", "ipsum", "dolor", "sit", "amet", "elit"]
        t = f"{tag}w"
        while laygen.measure(t, 1, 14) < 1.35 * cw:
            t += " " + rng.choice(words)
        if kind == "fontmix":
            spec["df"] = dict(cols=[f"{tag}c0", f"{tag}c1"], rows=[[f"{tag}{i}_0", f"{tag}{i}_1"] for i in range(3)])
            b = body_colors(nc)
            b["text_font_size"] = [9, 14]
        else:
            spec["df"] = dict(cols=[f"{tag}c0", f"{tag}c1"],
                              rows=[[f"{tag}{i}_0", t if i % 2 == 0 else f"{tag}{i}_1"] for i in range(5)])
            b = body_colors(nc)
            b["text_font_size"] = 14
            spec["page"] = dict(nrow=5)
        spec["body"] = b
        spec["headers"] = [dict(text=[f"H{j}" for j in range(nc)])]
    elif kind == "figure":
        spec["kind"] = "figure"
        nf = rng.randint(1, 2)
        spec["figure"] = dict(files=[dict(name=f"{tag}{i}.png", hex=_png(3 + i, 2, rng.randrange(256)))
                                     for i in range(nf)], fig_width=2.0, fig_height=1.5)
        spec.pop("page_header", None)
    else:
        raise ValueError(kind)
    return spec


def gen_docset(seed, k, kinds):
    rng = sub_rng(seed, "c15docs", k)
    pals = gen_palettes(rng, len(kinds), color_names())
    specs = [gen_doc(rng, kind, pal, "ABC"[i]) for i, (kind, pal) in enumerate(zip(kinds, pals))]
    if not any(kd in ("fontmix", "font14") for kd in kinds):      # (their texts are made for their widths)
        affect_docset(specs, sub_rng(seed, "c15affect", k))
    return specs


# ------------------------------------------------------------------ texts that the per-component options act on
#
# A per-component switch (text_convert, text_hyphenation, as_table, pageby_header, as_colheader, new_page …) selects a
# code path; whatever the two paths share between threads shows only if (a) the documents in flight sit on DIFFERENT
# sides of the switch and (b) the texts are ones the switch changes: LaTeX commands with a Unicode mapping (\alpha,
# \mu, \pm: text_convert), the characters of RTF_CHAR_MAPPING (^ _ >= <=: text_convert), non-ASCII characters (the
# \uN escapes).  AFFECTED texts are appended to the texts of every document set; `gen_option_set` builds the pair that
# differs in every switch.

AFFECTED = ["\\alpha", "\\mu", "\\pm", "\\beta", "\\geq", "\\leq", "\\sigma", "\\gamma", "\\infty", "\\alpha\\beta",
            "µ", "é", "≥", "x_1", "a^2", ">=", "<=", "\\pm µ", "\\unmapped"]
LATEX = [a for a in AFFECTED if a.startswith("\\") and a != "\\unmapped"]

OPTION_SWITCHES = ("body.text_convert", "headers.text_convert", "title.text_convert", "footnote.text_convert",
                   "source.text_convert", "page_header.text_convert", "page_footer.text_convert",
                   "subline.text_convert", "footnote.as_table", "source.as_table", "body.text_hyphenation",
                   "headers.text_hyphenation", "title.text_hyphenation", "body.pageby_header", "body.new_page",
                   "body.as_colheader", "page.use_color")


def affect_docset(specs, rng, p_text=0.6, p_off=0.35):
    """append AFFECTED snippets to the texts of the documents (component texts, header cells, data cells of the
    non-grouping columns) and switch text_convert off for some components — in place; draws from `rng` only"""
    for spec in specs:
        if spec.get("kind") == "figure":
            comps = ("title", "footnote", "source", "page_header")
        else:
            comps = ("title", "footnote", "source", "page_header", "body", "headers")
        has_latex = False
        for c in comps:
            v = spec.get(c)
            if v is None:
                continue
            if c == "body":
                dfs = spec["df"] if isinstance(spec["df"], list) else [spec["df"]]
                bodies = v if isinstance(v, list) else [v]
                for df, b in zip(dfs, bodies):
                    keys = set((b.get("page_by") or []) + (b.get("subline_by") or []) + (b.get("group_by") or []))
                    for row in df["rows"]:
                        for j, name in enumerate(df["cols"]):
                            if name not in keys and rng.random() < p_text:
                                a = rng.choice(AFFECTED)
                                has_latex |= a in LATEX
                                row[j] = f"{row[j]} {a}"
                    if rng.random() < p_off:
                        nc = len(df["cols"])
                        b["text_convert"] = (False if rng.random() < 0.5 else
                                             [[rng.random() < 0.5 for _ in range(nc)]])
            elif c == "headers":
                secs = v if v and isinstance(v[0], list) else [v]
                for sec in secs:
                    for h in sec:
                        if h is None or not isinstance(h.get("text"), list):
                            continue
                        h["text"] = [f"{t} {rng.choice(AFFECTED)}" if rng.random() < p_text else t for t in h["text"]]
                        if rng.random() < p_off:
                            h["text_convert"] = False
            else:
                if isinstance(v.get("text"), str) and rng.random() < p_text:
                    a = rng.choice(AFFECTED)
                    has_latex |= a in LATEX
                    v["text"] = f"{v['text']} {a}"
                if rng.random() < p_off:
                    v["text_convert"] = not (c in ("title", "footnote", "source"))   # the side that is not the default
        if not has_latex:                             # every document has a text that conversion changes
            for c in ("title", "footnote", "source", "page_header"):
                if spec.get(c) is not None and isinstance(spec[c].get("text"), str) and \
                        spec[c].get("text_convert", True) is True:
                    spec[c]["text"] += " " + rng.choice(LATEX)
                    break
    return specs


def gen_option_set(seed, k, n=2):
    """n tiny single-table documents (page_by on a two-valued column, 2 data columns, 2–3 rows) that differ in EVERY
    per-component switch (OPTION_SWITCHES): document 0 gets a drawn side of each switch, document 1 the other side (a
    third document a fresh draw); every text carries AFFECTED snippets, the same ones in every document; palettes as
    in the other sets"""
    rng = sub_rng(seed, "c15opts", k)
    pals = gen_palettes(rng, n, color_names())
    side0 = {sw: rng.random() < 0.5 for sw in OPTION_SWITCHES}
    nr = rng.randint(2, 3)
    snip = lambda: rng.choice(LATEX) if rng.random() < 0.6 else rng.choice(AFFECTED)   # noqa: E731
    cells = [[f"v{r}_{j} {snip()}" for j in range(2)] for r in range(nr)]
    texts = dict(title=f"Title {snip()} {rng.choice(LATEX)}", footnote=f"note {{^a}} x_1 {snip()}",
                 source=f"src {snip()}", page_header=f"hdr {snip()}", page_footer=f"ftr {snip()}",
                 subline=f"sub {snip()}")
    htext = [f"H{j} {snip()}" for j in range(2)]
    present = [c for c, pr in (("title", 1.0), ("footnote", 1.0), ("source", 0.6), ("page_header", 0.4),
                               ("page_footer", 0.4), ("subline", 0.3)) if rng.random() < pr]
    specs = []
    for i, pal in enumerate(pals):
        tag = "ABC"[i]
        on = {sw: (side0[sw] if i == 0 else (not side0[sw]) if i == 1 else rng.random() < 0.5)
              for sw in OPTION_SWITCHES}
        x, own = pal["common"], pal["own"]
        rows = [["G0" if r < (nr + 1) // 2 else f"{tag}G1"] + list(cells[r]) for r in range(nr)]
        spec = dict(kind="table", df=dict(cols=["grp", "c0", "c1"], rows=rows))
        spec["body"] = dict(page_by=["grp"], new_page=on["body.new_page"], pageby_header=on["body.pageby_header"],
                            as_colheader=on["body.as_colheader"], text_convert=on["body.text_convert"],
                            text_hyphenation=on["body.text_hyphenation"], text_color=[x, own[0], own[-1]])
        spec["headers"] = [dict(text=list(htext), text_convert=on["headers.text_convert"],
                                text_hyphenation=on["headers.text_hyphenation"], text_color=rng.choice(own))]
        for c in present:
            d = dict(text=texts[c], text_convert=on[c + ".text_convert"], text_color=rng.choice([x] + own))
            if c in ("footnote", "source"):
                d["as_table"] = on[c + ".as_table"]
            if c == "title":
                d["text_hyphenation"] = on["title.text_hyphenation"]
            spec[c] = d
        spec["page"] = dict(nrow=rng.randint(9, 12), use_color=on["page.use_color"])
        spec["options"] = {sw: v for sw, v in on.items() if sw.split(".")[0] in ("body", "headers", "page") + tuple(present)}
        specs.append(spec)
    return specs


# ------------------------------------------------------------------ same-feature document sets
#
# A memo / cache / "current …" variable that is shared between threads shows only when both encodes in flight go
# through it under the SAME key with DIFFERENT resolved values.  The sets below are built for that: the documents of a
# set all exercise one feature (page_by heading rows, subline_by headings, group_by, multi-section, figures) on the same
# skeleton — same column names, the grouping column at the same column index, the same first group value, the same
# header / footnote / source texts — and every per-document setting that an encode resolves is drawn from value pools
# that are disjoint between the documents of the set (`_SIDE`): whatever one encode takes over from another is visible
# in the returned string.

FEATURES = ("pageby", "subline", "groupby", "multi", "figure")

_SIDE = dict(
    text_format=(["b", "bi", "u"], ["i", "s", "iu"], ["", "bu", "is"]),
    text_justification=(["l", "j"], ["r", "d"], ["c"]),
    text_font_size=([8, 10], [11, 12], [7, 9]),
    text_font=([1, 4], [6, 9], [7, 8]),
    text_indent_first=([0, 120], [240, 360], [60, 180]),
    text_indent_left=([0, 100], [200, 300], [50, 150]),
    text_indent_right=([0, 90], [180, 270], [45, 135]),
    text_space_before=([15, 20], [30, 40], [5, 10]),
    text_space_after=([15, 25], [35, 45], [5, 12]),
    border=(["single", "double"], ["dotted", "dashed"], ["thick", "triple"]),
    border_width=([15, 20], [30, 40], [5, 10]),
    cell_height=([0.15, 0.2], [0.25, 0.3], [0.1, 0.12]),
    cell_justification=(["l"], ["r"], ["c"]),
    cell_vertical_justification=(["top"], ["center"], ["bottom"]),
    fig_width=([1.5, 2.0], [2.5, 3.0], [1.0, 1.25]),
    fig_height=([1.0, 1.5], [2.0, 2.25], [0.5, 0.75]),
    fig_align=(["left"], ["right"], ["center"]),
)


def _styled(rng, side, nc, pal, what="body"):
    """attributes of a table-like component (body / column header / footnote / source) of the document on `side`:
    one value per column (`[[v0, v1, …]]`, broadcast over the rows), every value from the side's own pool; colours:
    column 0 carries the colour the palettes share (at a different table position per document), the rest own ones"""
    x, own = pal["common"], pal["own"]

    def vec(key):
        return [[rng.choice(_SIDE[key][side]) for _ in range(nc)]]

    a = dict(text_format=vec("text_format"), text_justification=vec("text_justification"),
             text_font_size=vec("text_font_size"), text_font=vec("text_font"),
             text_color=[[x] + [rng.choice(own) for _ in range(nc - 1)]],
             text_background_color=[[rng.choice(own + [""]) for _ in range(nc)]])
    for k in ("text_indent_first", "text_indent_left", "text_indent_right", "text_space_before", "text_space_after",
              "border_width", "cell_height", "cell_justification", "cell_vertical_justification"):
        if rng.random() < 0.7:
            a[k] = vec(k)
    for k in ("border_left", "border_right", "border_top", "border_bottom"):
        if rng.random() < 0.7:
            a[k] = [[rng.choice(_SIDE["border"][side]) for _ in range(nc)]]
    if rng.random() < 0.5:
        a["border_color_" + rng.choice(["left", "right", "top", "bottom"])] = [[rng.choice([x] + own) for _ in range(nc)]]
    if what == "body":
        a["text_hyphenation"] = [[(side + j) % 2 == 0 for j in range(nc)]]
        a["text_convert"] = [[(side + j) % 2 == 1 for j in range(nc)]]
    return a


def _line(rng, side, pal, text, table=None):
    """title / page header / footnote / source of the document on `side`; `table` = as_table for footnote and source"""
    x, own = pal["common"], pal["own"]
    d = dict(text=text, text_color=rng.choice([x] + own), text_font_size=rng.choice(_SIDE["text_font_size"][side]),
             text_format=rng.choice(_SIDE["text_format"][side]),
             text_justification=rng.choice(_SIDE["text_justification"][side]),
             text_font=rng.choice(_SIDE["text_font"][side]))
    if table is not None:
        d["as_table"] = table
        if table:
            d["border_top"] = [[rng.choice(_SIDE["border"][side])]]
            d["border_left"] = [[rng.choice(_SIDE["border"][side])]]
            d["text_background_color"] = rng.choice(own)
            d["cell_height"] = [[rng.choice(_SIDE["cell_height"][side])]]
    return d


def gen_feature_set(seed, k, feature, n=2, nc=2):
    """n documents that all use `feature`, on one skeleton (nc data columns + the grouping column), with pairwise
    different settings (see above).  nc = 1 gives the small documents of the quick tier (2–3 rows, two groups, fewer
    optional components: the cost of enumerating every call boundary grows with the square of the encode's length)"""
    rng = sub_rng(seed, "c15feat", k)
    pals = gen_palettes(rng, n, color_names())
    sides = list(range(3))
    rng.shuffle(sides)
    sides = sides[:n]
    # ---- the skeleton: what the documents have in common (the likely keys of a memo)
    kpos = rng.randrange(nc + 1)                      # index of the grouping column, the same in every document
    names = [f"c{j}" for j in range(nc)]
    names.insert(kpos, "grp")
    g0 = "G0"                                        # first group value, the same in every document
    arng = sub_rng(seed, "c15feat-affect", k)          # texts the per-component options act on (see AFFECTED)
    htext = [f"H{j} {arng.choice(AFFECTED)}" for j in range(nc + 1)]
    cell_snip = [[arng.choice(LATEX if (r + j) % 2 == 0 else AFFECTED) for j in range(nc)] for r in range(8)]
    mode = rng.choice(["samepage", "first_row"])      # how page_by headings become spanning rows
    pb_header = rng.random() < 0.5
    title, note, src = (f"Title {arng.choice(LATEX)}", f"note {{^a}} x_1 {arng.choice(LATEX)}",
                        f"src {arng.choice(AFFECTED)}")
    note_table = rng.random() < 0.6
    src_table = rng.random() < 0.6
    # optional components are decided per set (all documents of the set have them, each with its own settings)
    small = nc == 1
    with_title = rng.random() < (1.0 if feature == "figure" else 0.3 if small else 0.7)
    with_src = rng.random() < (1.0 if feature == "figure" else 0.2 if small else 0.4)
    with_hdr = rng.random() < (0.1 if small else 0.2)
    specs = []
    for i, (side, pal) in enumerate(zip(sides, pals)):
        tag = "ABC"[i]
        x, own = pal["common"], pal["own"]

        def keyed_frame(nr, ngroups, all_cols=True):
            # group values: G0 first (shared), then values of the document's own
            per = [1] * ngroups
            for _ in range(nr - ngroups):
                per[rng.randrange(ngroups)] += 1
            keys = []
            for g, cnt in enumerate(per):
                keys += [g0 if g == 0 else f"{tag}G{g}"] * cnt
            rows = []
            for r in range(nr):
                row = [f"{tag}{r}_{j}" if (r + j) % 3 else f"v{r}_{j}" for j in range(nc)]   # some texts shared
                row = [f"{t} {cell_snip[r % 8][j]}" for j, t in enumerate(row)]  # … and every cell has a snippet
                row.insert(kpos, keys[r])
                rows.append(row)
            return dict(cols=list(names), rows=rows)

        spec = dict(kind="table")
        if with_title:
            spec["title"] = _line(rng, side, pal, title)
        spec["footnote"] = _line(rng, side, pal, note, table=note_table)
        spec["footnote"]["text_convert"] = bool(side % 2)
        if with_src:
            spec["source"] = _line(rng, side, pal, src, table=src_table)
        if with_hdr:
            spec["page_header"] = _line(rng, side, pal, "hdr " + LATEX[k % len(LATEX)])
        for ci, c in enumerate(("title", "source", "page_header")):   # text_convert: a side per component and document
            if c in spec:
                spec[c]["text_convert"] = bool((side + ci) % 2)
        if feature in ("pageby", "subline", "groupby"):
            nr = rng.randint(2, 3) if small else rng.randint(3, 4)
            spec["df"] = keyed_frame(nr, 2 if nr <= 3 else rng.randint(2, 3))
            b = _styled(rng, side, nc + 1, pal)
            # the grouping column itself always differs from the other documents' in every resolved attribute
            if feature == "pageby":
                b["page_by"] = ["grp"]
                if mode == "samepage":
                    b["new_page"] = False
                else:
                    b["new_page"] = True
                    b["pageby_row"] = "first_row"
                b["pageby_header"] = pb_header
                spec["page"] = dict(nrow=rng.randint(8, 12))
                hn = nc
            elif feature == "subline":
                b["subline_by"] = ["grp"]
                b["pageby_header"] = pb_header
                spec["page"] = dict(nrow=rng.randint(9, 12))
                hn = nc
            else:
                b["group_by"] = ["grp"]
                spec["page"] = dict(nrow=rng.randint(5, 6))      # ≥ 2 pages: page-start rows get their value back
                hn = nc + 1
            spec["body"] = b
            h = _styled(rng, side, hn, pal, "header")
            h["text"] = htext[:hn]
            h["text_convert"] = bool((side + 1) % 2)
            spec["headers"] = [h]
        elif feature == "multi":
            spec["kind"] = "multi"
            n1 = rng.randint(1, 2) if small else 2
            n2 = rng.randint(1, 2)                    # one-row sections included
            spec["df"] = [keyed_frame(n1, n1), keyed_frame(n2, n2)]
            spec["body"] = [_styled(rng, side, nc + 1, pal), _styled(rng, side, nc + 1, pal)]
            hs = []
            for s in range(2):
                h = _styled(rng, side, nc + 1, pal, "header")
                h["text"] = [f"{'HK'[s]}{j}" for j in range(nc + 1)]
                hs.append([h])
            spec["headers"] = hs
        elif feature == "figure":
            spec["kind"] = "figure"
            nf = 2
            spec["figure"] = dict(files=[dict(name=f"fig{j}.png", hex=_png(3 + j + i, 2 + i, rng.randrange(256)))
                                         for j in range(nf)],
                                  fig_width=[rng.choice(_SIDE["fig_width"][side]) for _ in range(nf)],
                                  fig_height=[rng.choice(_SIDE["fig_height"][side]) for _ in range(nf)],
                                  fig_align=_SIDE["fig_align"][side][0])
            for comp in ("footnote", "source"):
                spec[comp]["as_table"] = False
                for kk in ("border_top", "border_left", "text_background_color", "cell_height"):
                    spec[comp].pop(kk, None)
            spec["page"] = dict(page_title=rng.choice(["all", "first"]), page_footnote=rng.choice(["all", "last"]),
                                page_source=rng.choice(["all", "last"]))
            spec.pop("page_header", None)
        else:
            raise ValueError(feature)
        specs.append(spec)
    return specs


# ------------------------------------------------------------------ sets that share configuration OBJECTS
#
# The documents of the sets above are built from independent specs: every document gets component objects of its own.
# Callers commonly hand ONE component object to several documents (a family of tables with the same column header, the
# same page set-up, the same footnote).  RTFDocument keeps what it is given by reference (a body / column header with
# explicit col_rel_width of full length, page, title, footnote, source, page header / footer), so whatever an encode
# leaves ON such an object (a memo, a "current …" attribute) is one cell per process, reachable from every thread
# that encodes a document holding the object (Model.Interleave: `CtxMode.Global`, `objMemoProg`).  The sets below put
# such documents in flight together.  A document may carry
#     "share": {component: index of an EARLIER document of the set whose object of that component it is given}
# (component ∈ SHAREABLE; its own dict for that component is the owner's, kept for readers of the spec).  The documents
# differ in what the rendering of a shared object depends on besides the object itself: page geometry (orientation →
# col_width → every \cellx of a header / body / footnote table), the palette (the shared object uses the colour the
# palettes have in common, which sits at a different position of each document's dense colour table), the displayed
# columns (one document removes a page_by column the other does not have), the data and the number of pages (every
# document has ≥ 2 pages with the column headers repeated; document 0 ≥ 3, so that what page 2 leaves is used again).

SHAREABLE = ("headers", "body", "page", "title", "footnote", "source", "page_header", "page_footer")
_COLOURED = tuple(c for c in SHAREABLE if c != "page")


def gen_shared_set(seed, k, n=2, must=("headers",), never=(), p_share=0.35, small=True, p_present=None):
    """n single-table documents; the components in `must` and a random choice of the others (none of `never`) are
    shared by identity.  p_share = 1: everything present is shared except `never` and one coloured component, which
    stays private so that the palettes differ.  p_present: probability of each optional component (default: by
    component, lower for the small documents of the quick tier)"""
    rng = sub_rng(seed, "c15shared", k)
    pals = gen_palettes(rng, n, color_names())
    sides = list(range(3))
    rng.shuffle(sides)
    nc = 2 if small else rng.randint(2, 3)
    hn = 1 if small else rng.randint(1, 2)
    present = ["headers", "body", "page"]
    for c, pr in (("title", 0.8), ("footnote", 0.5), ("source", 0.3), ("page_header", 0.3), ("page_footer", 0.3)):
        if c in must or rng.random() < (p_present if p_present is not None else pr * 0.6 if small else pr):
            present.append(c)
    share = set(must) | {c for c in present if c not in never and rng.random() < p_share}
    private_coloured = [c for c in present if c in _COLOURED and c not in share]
    if not private_coloured:                          # the palettes must differ: a coloured component stays private
        cand = [c for c in present if c in _COLOURED and c not in must]
        c = rng.choice([c for c in cand if c not in ("headers", "body")] or cand or ["title"])
        if c not in present:
            present.append(c)
        share.discard(c)
        private_coloured = [c]
    # displayed columns: with a private body, the later documents may take a page_by column out of the table that
    # document 0 does not have at all (the shared header row fits both)
    feature = rng.choice(["plain", "plain", "groupby", "pageby"] + (["plain"] * 2 if small else []))
    extra_pageby = "body" not in share and feature == "plain" and rng.random() < 0.5
    x = pals[0]["common"]
    shared_pal = dict(common=x, own=[x])
    oside = sides[0]
    names = [f"c{j}" for j in range(nc)]
    ncols = nc + (1 if feature != "plain" else 0)
    allnames = (["grp"] if feature != "plain" else []) + names
    # ---- the shared objects' dicts (owner: document 0)
    sh = {}
    if "headers" in share:
        sh["headers"] = []
        for r in range(hn):
            h = _styled(rng, oside, nc if feature != "groupby" else ncols, shared_pal, "header")
            h["text"] = [f"H{r}{j}" for j in range(nc if feature != "groupby" else ncols)]
            h["col_rel_width"] = [rng.choice([1, 1.5, 2]) for _ in h["text"]]
            sh["headers"].append(h)
    if "body" in share:
        b = _styled(rng, oside, ncols, shared_pal)
        b["col_rel_width"] = [rng.choice([1, 1.5, 2]) for _ in range(ncols)]
        sh["body"] = b
    for c in ("title", "page_header", "page_footer"):
        if c in share:
            sh[c] = _line(rng, oside, shared_pal, {"title": "Title \\mu", "page_header": "hdr \\pm", "page_footer": "ftr \\alpha"}[c])
    for c in ("footnote", "source"):
        if c in share:
            sh[c] = _line(rng, oside, shared_pal, "note {^a} x_1 \\beta" if c == "footnote" else "src \\geq", table=rng.random() < 0.6)
    orients = ["portrait", "landscape"]
    rng.shuffle(orients)
    rows_per_page = 1 if small else 2                 # small: the cost of a schedule family grows with the encode's length
    specs = []
    for i in range(n):
        side, pal, tag = sides[i], pals[i], "ABC"[i]
        own = pal["own"]
        pb = extra_pageby and i > 0
        cols = (["grp"] if pb else []) + allnames
        nr = (3 if i == 0 else 2) if small else rng.randint(5, 6) if i == 0 else rng.randint(3, 4)
        ngroups = 2
        rows = []
        for r in range(nr):
            row = [f"{tag}{r}_{j}" if (r + j) % 3 else f"v{r}_{j}" for j in range(nc)]
            row = [f"{t} {LATEX[(3 * r + j) % len(LATEX)]}" for j, t in enumerate(row)]   # texts conversion changes
            if feature != "plain" or pb:
                row.insert(0, "G0" if r < (nr + 1) // ngroups else f"{tag}G1")
            rows.append(row)
        spec = dict(kind="table", df=dict(cols=cols, rows=rows))
        # body (explicit widths of full length: the document keeps the caller's object)
        feat = dict(pageby_header=True)               # column headers repeated on every page
        if feature == "groupby":
            feat["group_by"] = ["grp"]
        elif feature == "pageby" or pb:
            feat.update(page_by=["grp"], new_page=False)
        if "body" in share:
            spec["body"] = json.loads(json.dumps(dict(sh["body"], **feat)))
        else:
            b = _styled(rng, side, len(cols), pal)
            if rng.random() < 0.7:
                b["col_rel_width"] = [rng.choice([1, 1.5, 2]) for _ in cols]
            b.update(feat)
            spec["body"] = b
        # column headers: explicit widths of their own, so that the document keeps the caller's objects
        hcells = nc if feature != "groupby" else ncols
        if "headers" in share:
            spec["headers"] = json.loads(json.dumps(sh["headers"]))
        else:
            hs = []
            for r in range(hn):
                h = _styled(rng, side, hcells, pal, "header")
                h["text"] = [f"H{r}{j}" for j in range(hcells)]
                if rng.random() < 0.7:
                    h["col_rel_width"] = [rng.choice([1, 1.5, 2]) for _ in range(hcells)]
                hs.append(h)
            spec["headers"] = hs
        for c in ("title", "page_header", "page_footer", "footnote", "source"):
            if c not in present:
                continue
            if c in share:
                spec[c] = json.loads(json.dumps(sh[c]))
            elif c in ("footnote", "source"):
                spec[c] = _line(rng, side, pal, "note {^a} x_1 \\beta" if c == "footnote" else "src \\geq", table=rng.random() < 0.6)
            else:
                spec[c] = _line(rng, side, pal, {"title": "Title \\mu", "page_header": "hdr \\pm", "page_footer": "ftr \\alpha"}[c])
        # the private coloured components carry the document's own colours (own[0] sorts below the common colour in
        # the documents that have such a colour: the common colour's table position differs between the documents)
        c0 = private_coloured[0]
        if c0 in ("body", "headers"):
            for d in ([spec["body"]] if c0 == "body" else spec["headers"]):
                w = len(d["text_color"][0])
                d["text_background_color"] = [[own[0]] + [rng.choice(own + [""]) for _ in range(w - 1)]]
        else:
            spec[c0]["text_color"] = own[0]
        # page: the rows the paginator reserves on every page (header rows with text, footnote, source) + data rows
        over = hn + ("footnote" in present) + ("source" in present)
        if "page" in share and i > 0:
            spec["page"] = json.loads(json.dumps(specs[0]["page"]))
        else:
            spec["page"] = dict(orientation=orients[i % 2], nrow=over + rows_per_page)
            if i >= 2 or rng.random() < 0.3:
                spec["page"]["col_width"] = rng.choice([4.5, 5.0, 5.5])
            if rng.random() < 0.2:
                spec["page"]["page_title"] = "first"          # default "all": repeated on every page
            if "footnote" in present and rng.random() < 0.5:
                spec["page"]["page_footnote"] = "all"         # default "last"
            if "source" in present and rng.random() < 0.5:
                spec["page"]["page_source"] = "all"
        if i > 0:
            spec["share"] = {c: 0 for c in SHAREABLE if c in share}
        specs.append(spec)
    return specs


def share_labels(specs):
    """input-distribution labels of a set that shares objects"""
    out = []
    sh = sorted({c for s in specs for c in (s.get("share") or {})})
    for c in sh:
        out.append(f"shared-object:{c}")
    out.append("shared-object-count:" + str(len(sh)))
    pages = [json.dumps(s.get("page"), sort_keys=True) for s in specs]
    out.append("shared-set-differs:page-geometry" if len(set(pages)) > 1 else "shared-set-differs:same-page-object")
    if len({len(s["df"]["cols"]) for s in specs}) > 1:
        out.append("shared-set-differs:displayed-columns-by-page_by")
    for f in ("group_by", "page_by"):
        if any(f in (s.get("body") or {}) for s in specs):
            out.append(f"shared-set-feature:{f}")
    return out


# ------------------------------------------------------------------ running real code

_COMPONENT_ARGS = dict(body=("rtf_body", "RTFBody"), page=("rtf_page", "RTFPage"), title=("rtf_title", "RTFTitle"),
                       subline=("rtf_subline", "RTFSubline"), page_header=("rtf_page_header", "RTFPageHeader"),
                       page_footer=("rtf_page_footer", "RTFPageFooter"), footnote=("rtf_footnote", "RTFFootnote"),
                       source=("rtf_source", "RTFSource"))


def _build_sharing(spec, reuse):
    """a kind="table" document through the public constructors, with the objects in `reuse` (component → object built
    for an earlier document) handed over in place of objects of its own → (document, component → the caller's object)"""
    import rtflite as rtf

    if spec.get("kind", "table") != "table" or spec.get("spelling"):
        raise ValueError("object sharing is implemented for plain kind='table' specs")
    kw = dict(df=docgen.make_frame(spec["df"]))
    mine = {}
    for key, (arg, cls) in _COMPONENT_ARGS.items():
        if key in reuse:
            mine[key] = reuse[key]
        elif spec.get(key) is not None:
            mine[key] = getattr(rtf, cls)(**docgen._kw(spec[key]))
        else:
            continue
        kw[arg] = mine[key]
    h = spec.get("headers", "default")
    if "headers" in reuse:
        mine["headers"] = reuse["headers"]
    elif h != "default":
        mine["headers"] = [None if x is None else rtf.RTFColumnHeader(**docgen._kw(x)) for x in h]
    if "headers" in mine:
        kw["rtf_column_header"] = list(mine["headers"])      # the header OBJECTS are shared, not the list
    return rtf.RTFDocument(**kw), mine


def shares_objects(specs) -> bool:
    return any(s.get("share") for s in specs)


def _build_all(specs, wd, objects=None):
    """the documents of a set, in order; a document with "share" is given the very objects built for the earlier
    document it names.  `objects` (a list) receives, per document, component → the caller's object (sharing sets)"""
    docs = []
    if shares_objects(specs):
        objs = []
        for i, s in enumerate(specs):
            sh = s.get("share") or {}
            for c, j in sh.items():
                if c not in SHAREABLE or not (0 <= j < i) or c not in objs[j]:
                    raise ValueError(f"document {i}: cannot share {c!r} of document {j}")
            doc, mine = _build_sharing(s, {c: objs[j][c] for c, j in sh.items()})
            objs.append(mine)
            docs.append(doc)
        if objects is not None:
            objects.extend(objs)
        return docs
    for i, s in enumerate(specs):
        d = os.path.join(wd, f"t{i}")
        os.makedirs(d, exist_ok=True)
        docs.append(docgen.build(s, d))
    return docs


def _held(doc):
    """component → the objects the constructed document holds"""
    out = {}
    for key, (arg, _cls) in _COMPONENT_ARGS.items():
        v = getattr(doc, arg, None)
        if v is not None:
            out[key] = v if isinstance(v, list) else [v]
    h = getattr(doc, "rtf_column_header", None)
    if h:
        out["headers"] = [x for sec in h for x in (sec if isinstance(sec, list) else [sec]) if x is not None]
    return out


def held_by_identity(docs, objects):
    """per shared component: do all the documents that were given the object really hold it (the constructor keeps
    what it is given, it makes no copy)?  → {component: bool}"""
    out = {}
    for i, mine in enumerate(objects):
        held = _held(docs[i])
        for c, o in mine.items():
            if not any(o is m.get(c) for j, m in enumerate(objects) if j != i):
                continue
            mineobjs = [x for x in (o if isinstance(o, list) else [o]) if x is not None]
            ok = all(any(x is y for y in held.get(c, [])) for x in mineobjs)
            out[c] = out.get(c, True) and ok
    return out


def solo_fresh(spec, specs=None, i=None) -> dict:
    """encode alone in a fresh interpreter (own hash seed, no history) → dict(status, rtf|msg).  A document of a set
    that shares objects (`specs`, `i`) is built the way it is built for the concurrent run — the whole set, in order,
    with the same sharing — and then document `i` alone is encoded"""
    if specs is not None and shares_objects(specs):
        spec = dict(specs=specs, i=i)
    env = dict(os.environ)
    env["PYTHONPATH"] = os.pathsep.join([str(common.VERIF)] + ([env["PYTHONPATH"]] if env.get("PYTHONPATH") else []))
    p = subprocess.run([sys.executable, "-m", "harness.props.c15", "--solo"], input=json.dumps(spec).encode(),
                       capture_output=True, cwd=str(common.VERIF), env=env, timeout=300)
    if p.returncode != 0:
        raise common.MachineryError("solo subprocess failed: " + p.stderr.decode()[-400:])
    return json.loads(p.stdout.decode())


def cell_classes(specs) -> list:
    """`_cell_classes` in a fresh interpreter (no encode has touched any default object yet)"""
    env = dict(os.environ)
    env["PYTHONPATH"] = os.pathsep.join([str(common.VERIF)] + ([env["PYTHONPATH"]] if env.get("PYTHONPATH") else []))
    p = subprocess.run([sys.executable, "-m", "harness.props.c15", "--cells"], input=json.dumps(specs).encode(),
                       capture_output=True, cwd=str(common.VERIF), env=env, timeout=300)
    if p.returncode != 0:
        raise common.MachineryError("cell-class subprocess failed: " + p.stderr.decode()[-400:])
    return json.loads(p.stdout.decode())


def _obj_state(o):
    """everything an object of the library's component classes carries: declared fields, private attributes, extras
    (recursively through nested models and containers), as a comparable plain structure"""
    import pydantic

    def conv(v, depth=0):
        if depth > 6:
            return repr(v)[:200]
        if isinstance(v, pydantic.BaseModel):
            return dict(cls=type(v).__name__,
                        fields=conv(dict(getattr(v, "__dict__", None) or {}), depth + 1),
                        private=conv(dict(getattr(v, "__pydantic_private__", None) or {}), depth + 1),
                        extra=conv(dict(getattr(v, "__pydantic_extra__", None) or {}), depth + 1))
        if isinstance(v, dict):
            return {repr(k): conv(x, depth + 1) for k, x in v.items()}
        if isinstance(v, (list, tuple)):
            return [type(v).__name__] + [conv(x, depth + 1) for x in v]
        return repr(v)[:2000]
    return conv(o)


def _state_diff(a, b):
    """where two object states differ → short text"""
    def leaf(x, y):
        """the first place where two converted values differ"""
        if isinstance(x, list) and isinstance(y, list):
            if len(x) != len(y):
                return f"{len(x) - 1} vs {len(y) - 1} elements"
            for k, (u, v) in enumerate(zip(x, y)):
                if u != v:
                    return f"element {k - 1}: " + leaf(u, v)
        if isinstance(x, dict) and isinstance(y, dict):
            for k in sorted(set(x) | set(y)):
                if x.get(k) != y.get(k):
                    return f"{k}: " + leaf(x.get(k), y.get(k))
        return f"{str(x)[:80]} vs {str(y)[:80]}"

    out = []
    for part in ("fields", "private", "extra"):
        ka, kb = a.get(part, {}), b.get(part, {})
        for k in sorted(set(ka) | set(kb)):
            if ka.get(k) != kb.get(k):
                out.append(f"{'field' if part == 'fields' else part + ' attribute'} {k.strip(chr(39))}: "
                           + leaf(ka.get(k), kb.get(k)))
    return "; ".join(out)[:500]


def _cell_classes(groups):
    """Classify every `contextvars.ContextVar` of the rtflite package as a per-thread or a process-wide cell
    (Model.Interleave: `CtxMode.Local` / `CtxMode.Global`), by what happens to it while the documents are encoded on
    another thread.  A variable is a per-thread cell only through `.set()`; its DEFAULT object is handed to every
    thread, so a mutable default that an encode changes in place is one cell per process.  Must run before the process
    has encoded anything.  → list of dict(var, where, default, mutable_default, mutated_by_encode, leaked_binding).
    `groups`: document sets (lists of specs; one flat list of specs = one set).
    INPUT OBJECTS: a component object that several documents of a set were given (spec key "share") is reachable from
    every thread that encodes one of them.  Its complete state (fields, private attributes, extras) is read after every
    single encode: an object on which encodes of DIFFERENT documents leave DIFFERENT states carries per-document state
    in a process-wide cell (entries of kind "input-object", `mutated_by_encode` = that verdict; `written` = some encode
    changed it at all)."""
    if groups and isinstance(groups[0], dict):
        groups = [groups]
    import contextvars
    import copy
    import threading

    import rtflite  # noqa: F401

    missing = object()
    found, before, snap, after = {}, {}, {}, {}

    def scan():
        new = {}
        for mname, mod in sorted(sys.modules.items()):
            if not (mname == "rtflite" or mname.startswith("rtflite.")) or mod is None:
                continue
            holders = [(mname, vars(mod))]
            holders += [(f"{mname}.{k}", vars(v)) for k, v in list(vars(mod).items())
                        if isinstance(v, type) and getattr(v, "__module__", None) == mname]
            for where, ns in holders:
                for k, v in list(ns.items()):
                    if isinstance(v, contextvars.ContextVar) and id(v) not in found:
                        found[id(v)] = new[id(v)] = (f"{where}.{k}", v)
        return new

    def read(keys, into):
        for key in keys:
            try:
                into[key] = found[key][1].get()
            except LookupError:
                into[key] = missing

    def in_thread(fn, *a):
        t = threading.Thread(target=fn, args=a)     # a new thread has an empty context: .get() gives the default
        t.start()
        t.join(240)

    def snapshot(keys):
        in_thread(read, keys, before)
        for key in keys:
            try:
                c = copy.deepcopy(before[key])
                snap[key] = (c is not before[key], c)        # deepcopy returns immutable atoms themselves
            except Exception:  # noqa: BLE001
                snap[key] = (True, None)

    with tempfile.TemporaryDirectory(prefix="rtfv_c15c_") as wd, contextlib.redirect_stdout(io.StringIO()):
        docs, tracked = [], []           # tracked: dict(name, where, obj, holders = indices into docs, states)
        for g, specs in enumerate(groups):
            gd = os.path.join(wd, f"g{g}")
            os.makedirs(gd, exist_ok=True)
            objects = []
            ds = _build_all(specs, gd, objects)
            base = len(docs)
            docs += ds
            seen = set()
            for i, mine in enumerate(objects):
                for c, o in mine.items():
                    holders = [base + j for j, m in enumerate(objects) if m.get(c) is o]
                    if len(holders) < 2 or id(o) in seen:
                        continue
                    seen.add(id(o))
                    for k, x in enumerate(o if isinstance(o, list) else [o]):
                        if x is not None:
                            tracked.append(dict(name=type(x).__name__, where=f"set {g}: {c}[{k}] given to documents "
                                                f"{[h - base for h in holders]}", obj=x, holders=holders, group=g,
                                                component=c, state0=_obj_state(x), states=[]))
        snapshot(list(scan()))

        def encode_one(d):
            try:
                d.rtf_encode()
            except Exception:  # noqa: BLE001
                pass

        late = []
        changed, leaked = {}, set()
        for di, d in enumerate(docs):                # after every single encode: what does a NEW thread see?
            in_thread(encode_one, d)
            for tr in tracked:
                if di in tr["holders"]:
                    tr["states"].append(_obj_state(tr["obj"]))
            new = list(scan())                       # variables of modules imported during the encode
            late += new
            snapshot(new)
            after.clear()
            in_thread(read, list(found), after)
            for key in found:
                mutable, copy0 = snap[key]
                if after[key] is not before[key]:
                    leaked.add(key)
                elif mutable and copy0 is not None and key not in changed and after[key] != copy0:
                    changed[key] = repr(after[key])[:160]
    out = []
    for key, (name, var) in sorted(found.items(), key=lambda kv: kv[1][0]):
        mutable, copy0 = snap[key]
        mutable = bool(mutable and before[key] is not missing)
        out.append(dict(kind="contextvar", var=var.name, where=name,
                        default="<none>" if before[key] is missing else repr(copy0)[:80],
                        mutable_default=mutable, mutated_by_encode=bool(mutable and key in changed),
                        leaked_binding=key in leaked, seen_before_first_encode=key not in late,
                        left_behind=changed.get(key)))
    for tr in tracked:
        sts = tr["states"]
        differ = next((b for b in sts[1:] if b != sts[0]), None) if sts else None
        written = any(b != tr["state0"] for b in sts)
        out.append(dict(kind="input-object", var=tr["name"], where=tr["where"], group=tr["group"],
                        component=tr["component"], default="", mutable_default=True,
                        mutated_by_encode=differ is not None, written=written, leaked_binding=False,
                        left_behind=(_state_diff(sts[0], differ) if differ is not None else
                                     _state_diff(tr["state0"], sts[0]) if written else None)))
    return out


def _baseline_worker(task):
    """task = ('fresh', spec) | ('traced', specs) | ('cells', specs) | None (padding)"""
    if task is None:
        return None
    if task[0] == "fresh":
        return solo_fresh(*task[1:])
    if task[0] == "cells":
        return cell_classes(task[1])
    from .. import sched

    specs = task[1]
    out = []
    identity = {}
    with tempfile.TemporaryDirectory(prefix="rtfv_c15_") as wd, contextlib.redirect_stdout(io.StringIO()):
        # the process-wide cells of the package (sched.StateProbe): found while no document exists, after a warm-up
        # encode of the set (whatever the library builds once and keeps — cached services, strategy objects — is alive)
        wdw = os.path.join(wd, "warm")
        os.makedirs(wdw, exist_ok=True)
        for d in _build_all(specs, wdw):
            try:
                d.rtf_encode()
            except Exception:  # noqa: BLE001
                pass
        d = None
        probe = sched.StateProbe()
        objects = []
        docs = _build_all(specs, wd, objects)
        if objects:
            identity = held_by_identity(docs, objects)
        for d in docs:
            r = sched.run_scheduled([d.rtf_encode], [[0, None]])
            plain = d.rtf_encode()
            res = r["results"][0]
            # the two observers of library calls (sys.settrace / sys.monitoring, see sched.py) must see the same
            # switch points: same number of calls, shared accesses at the same call numbers
            obs = {}
            for mode in ("settrace", sched.default_mode()):
                if mode not in obs:
                    q = sched.run_scheduled([d.rtf_encode], [[0, None]], mode=mode)
                    obs[mode] = [q["counts"][0], [[e[1], e[4]] for e in q["log"]]]
            sw = sched.state_windows(d.rtf_encode, probe)
            out.append(dict(state=dict(calls=sw["calls"], points=sw["points"], restored=sw["restored"],
                                       kept=sw["kept"], cells=sw["cells"], holders=len(probe.holders),
                                       instances=probe.n_instances),
                            result=res, same_untraced=(res[0] == "ok" and res[1] == plain), calls=r["counts"][0],
                            log=r["log"], observers_agree=len({json.dumps(v) for v in obs.values()}) == 1,
                            observers={k: v[0] for k, v in obs.items()}))
    out.append(dict(wrappers={k: (v if isinstance(v, (bool, str)) else True) for k, v in sched._PATCHED.items()
                              if k != "lookup_code"}, identity=identity))
    return out


_BASE: dict = {}   # docset id → dict(specs, solo=[rtf…]); filled before the schedule pool is forked


def _diff_excerpt(a: str, b: str) -> str:
    i = 0
    n = min(len(a), len(b))
    while i < n and a[i] == b[i]:
        i += 1
    return f"first difference at char {i}: solo …{a[max(0, i - 30):i + 30]!r}… vs concurrent …{b[max(0, i - 30):i + 30]!r}…"


def run_one(specs, solo, segments, timeout=60.0, history=None) -> dict:
    """`history`: indices of documents of the set that are encoded alone (one after the other, on the calling thread)
    right before the threads start: what the process did last is part of a schedule's input wherever the library keeps
    a bounded number of recent things (the document whose thread is held is then the least recently used one)"""
    from .. import sched

    with tempfile.TemporaryDirectory(prefix="rtfv_c15_") as wd, contextlib.redirect_stdout(io.StringIO()):
        c0 = time.process_time()
        docs = _build_all(specs, wd)
        for i in history or []:
            try:
                docs[i].rtf_encode()
            except Exception:  # noqa: BLE001
                pass
        t0 = time.time()
        try:
            r = sched.run_scheduled([d.rtf_encode for d in docs], segments, timeout, lazy_trace=True)
        except sched.SchedulerTimeout as e:
            return dict(status="timeout", msg=str(e))
    same, diffs, errs = [], [], []
    for i, res in enumerate(r["results"]):
        if res is None or res[0] != "ok":
            same.append(False)
            errs.append([i, list(res) if res else None])
            diffs.append(f"thread {i} did not return a document: {res}")
        else:
            eq = res[1] == solo[i]
            same.append(eq)
            if not eq:
                diffs.append(f"thread {i}: " + _diff_excerpt(solo[i], res[1]))
    return dict(status="ok", same=same, diffs=diffs[:3], errors=errs, log=r["log"], counts=r["counts"],
                parks=r["parks"], wall=round(time.time() - t0, 4), cpu=round(time.process_time() - c0, 4))


_WARM: set = set()


def _warm_up(name, specs):
    """once per worker process and document set: encode every document alone, untraced, so that whatever the library
    imports or initialises lazily on first use is done before a thread can be parked in the middle of it (a thread
    parked inside an import holds the module lock and the other thread would block on it for as long as the park
    lasts — an artefact of parking, not an interference between encodes)"""
    if name in _WARM:
        return
    _WARM.add(name)
    with tempfile.TemporaryDirectory(prefix="rtfv_c15w_") as wd, contextlib.redirect_stdout(io.StringIO()):
        for d in _build_all(specs, wd):
            try:
                d.rtf_encode()
            except Exception:  # noqa: BLE001
                pass


def _sched_worker(task):
    base = _BASE[task["set"]]
    _warm_up(task["set"], base["specs"])
    return run_one(base["specs"], base["solo"], task["segments"], history=task.get("history"))


# ------------------------------------------------------------------ log → model events

def abstract_log(log, nthreads, n2t):
    """→ (progs, outs, schedule) in the driver's JSON shapes"""
    def cid(name):
        if not name or name == "black":
            return 0
        return n2t.get(name, 100000 + int.from_bytes(hashlib.sha256(str(name).encode()).digest()[:2], "big"))

    progs = [[] for _ in range(nthreads)]
    outs = [[] for _ in range(nthreads)]
    schedule = []
    for e in log:
        tid, kind, args, res = e[0], e[1], e[2], e[3]
        if kind == "reg":
            ev = ["reg", _stable_id(args[0], STRAT_IDS), _stable_id(args[1], CLS_IDS)]
            out = None
        elif kind == "get":
            ev = ["get", _stable_id(args[0], STRAT_IDS)]
            out = ["strat", None if isinstance(res, str) and res.startswith("raise ") else _stable_id(res, CLS_IDS)]
        elif kind == "set":
            ev = ["clear"] if args is None else ["set", [cid(c) for c in args]]
            out = None
        elif kind == "clear":
            ev = ["clear"]
            out = None
        elif kind == "lookup":
            val = res if isinstance(res, int) and res >= 0 else RAISED
            if args[1] is not None:        # explicit used_colors: does not read the context → local computation
                ev = ["emit", val]
                out = ["val", val]
            else:
                ev = ["lookup", cid(args[0])]
                out = ["idx", val]
        else:
            continue
        progs[tid].append(ev)
        if out is not None:
            outs[tid].append(out)
        schedule.append(tid)
    return progs, outs, schedule


def canon_events(log):
    """a thread's own events with order-insensitive palettes, for 'executed the same accesses as alone'"""
    out = []
    for e in log:
        kind, args = e[1], e[2]
        if kind == "set" and args is not None:
            args = sorted(args)
        out.append([kind, args])
    return out


# ------------------------------------------------------------------ schedules

def guided_points(log, ncalls, offsets=(-2, -1, 0, 1)):
    """call budgets that park a thread next to one of its shared-state accesses; offset -1 alone = "right before
    every shared access" (the preemption points of systematic concurrency testing)"""
    pts = set()
    for e in log:
        c = e[4] if len(e) > 4 else None
        if c is None:
            continue
        for d in offsets:
            if 0 <= c + d <= ncalls:
                pts.add(c + d)
    return sorted(pts)


def inside_points(log, ncalls):
    """call budgets that park a thread INSIDE one of its shared-state accesses (or right before / after it): every
    library call boundary within the dynamic extent of the access, logged by the wrappers as entry[5] = [calls entered
    when the access began, … when it returned].  A logical access of several steps (look a key up, insert, trim,
    read again) is atomic only if no other thread runs between its steps; these are the points between them"""
    pts = set()
    for e in log:
        ext = e[5] if len(e) > 5 else None
        if not ext or ext[0] is None or ext[1] is None:
            continue
        pts.update(range(max(0, ext[0] - 1), min(ncalls, ext[1] + 1) + 1))
    return sorted(pts)


def held_while_all(calls, inside, rng, n_inside, n_any):
    """≥ 3 threads, one preemption of the victim: thread x is held before its (k+1)-th call while ALL the other
    documents are encoded — one after the other, in both orders; sampled variants: the first of them only partly (it
    finishes after the second) — then x resumes.  Every schedule carries the history "the others were encoded alone
    just before" (x is the least recently used document of the process).
      held-inside: every thread x, k at every call boundary inside / next to one of x's shared accesses, both orders
                   (sampled down to n_inside)
      held-any:    n_any schedules with x, k (any call boundary), the order and the variant drawn uniformly"""
    n = len(calls)
    out = []
    for x in range(n):
        others = [t for t in range(n) if t != x]
        for k in inside[x]:
            for order in (others, others[::-1]):
                out.append(("held-inside", [[x, k]] + [[t, None] for t in order] + [[x, None]], list(order)))
    if n_inside is not None and len(out) > n_inside:
        out = rng.sample(out, n_inside)
    for _ in range(n_any):
        x = rng.randrange(n)
        order = [t for t in range(n) if t != x]
        rng.shuffle(order)
        k = rng.randint(0, calls[x])
        if rng.random() < 0.5 or calls[order[0]] < 3:
            segs = [[x, k]] + [[t, None] for t in order] + [[x, None]]
        else:
            m = rng.randint(1, calls[order[0]] - 1)
            segs = [[x, k], [order[0], m]] + [[t, None] for t in order[1:]] + [[order[0], None], [x, None]]
        out.append(("held-any", segs, list(order)))
    return out


def single_preemption(n, calls):
    """thread x parked before its (k+1)-th call, the others run to completion in order, x resumes"""
    out = []
    for x in range(n):
        others = [t for t in range(n) if t != x]
        for k in range(calls[x] + 1):
            out.append(("single", [[x, k]] + [[t, None] for t in others] + [[x, None]]))
    return out


def guided2(calls, gp, rng, limit, fam="guided2"):
    n = len(calls)
    out = []
    for a in range(n):
        for b in range(n):
            if a == b:
                continue
            for ka in gp[a]:
                for kb in gp[b]:
                    out.append((fam, [[a, ka], [b, kb], [a, None], [b, None]]))
    if limit is not None and len(out) > limit:
        out = rng.sample(out, limit)
    return out


def sampled(calls, gp, rng, count, npre):
    """npre preemptions, budgets uniform over the remaining calls or (half of the time) at guided points"""
    n = len(calls)
    out = []
    for _ in range(count):
        order = list(range(n))
        rng.shuffle(order)
        segs = []
        used = [0] * n
        # round-robin over a random thread order; each visit consumes a random budget
        t_i = 0
        for _p in range(npre):
            t = order[t_i % n]
            t_i += 1
            rest = calls[t] - used[t]
            if rest <= 1:
                continue
            if rng.random() < 0.5:
                cand = [g - used[t] for g in gp[t] if g - used[t] >= 1 and g < calls[t]]
                b = rng.choice(cand) if cand else rng.randint(1, rest - 1)
            else:
                b = rng.randint(1, rest - 1)
            used[t] += b
            segs.append([t, b])
        segs += [[t, None] for t in order[t_i % n:] + order[:t_i % n]]
        out.append((f"sampled{npre}", segs))
    return out


def guided3(calls, gp, rng, count):
    """a, b, a again: [a:k1],[b:m],[a:k2-k1],[b:None],[a:None]"""
    n = len(calls)
    out = []
    for _ in range(count):
        a, b = rng.sample(range(n), 2)
        if len(gp[a]) < 2 or not gp[b]:
            continue
        k1, k2 = sorted(rng.sample(gp[a], 2))
        m = rng.choice(gp[b])
        if k1 == 0 or m == 0:
            continue
        out.append(("guided3", [[a, k1], [b, m], [a, k2 - k1], [b, None], [a, None]]))
    return out


def three_thread(calls, gp, rng, count):
    out = []
    if len(calls) < 3:
        return out
    for _ in range(count):
        a, b, c = rng.sample(range(3), 3)
        ka, kb = rng.choice(gp[a]), rng.choice(gp[b])
        if rng.random() < 0.5:
            kc = rng.choice(gp[c])
            out.append(("three", [[a, ka], [b, kb], [c, kc], [b, None], [a, None], [c, None]]))
        else:
            out.append(("three", [[a, ka], [b, kb], [c, None], [a, None], [b, None]]))
    return out


# ------------------------------------------------------------------ unit level

def _unit_worker(chunk):
    """chunk = list of (palette|None, colour) → list of (ctx ids|None, colour id, observed)"""
    try:
        from rtflite.services.color_service import color_service as svc
        from rtflite.dictionary.color_table import name_to_type as n2t
    except Exception as e:  # noqa: BLE001
        return ("unavailable", f"{type(e).__name__}: {e}")

    def cid(c):
        return 0 if (not c or c == "black") else n2t[c]

    out = []
    for pal, col in chunk:
        try:
            if pal is None:
                svc.clear_document_context()
            else:
                svc.set_document_context(used_colors=list(pal))
            got = svc.get_rtf_color_index(col)
        except (AttributeError, TypeError) as e:
            return ("unavailable", f"{type(e).__name__}: {e}")
        finally:
            try:
                svc.clear_document_context()
            except Exception:  # noqa: BLE001
                pass
        out.append((None if pal is None else [cid(c) for c in pal], cid(col), got))
    return out


def _probe_worker(chunk):
    """cell probe with two real threads: A sets a context and keeps it; B (started afterwards) looks colours
    up; then A looks up; → per case dict(b=[…], a=[…])"""
    import threading

    from rtflite.services.color_service import color_service as svc

    out = []
    for pal, cols in chunk:
        a_set, b_done = threading.Event(), threading.Event()
        rec = dict(a=[], b=[], b_seen_ctx=None)

        def ta():
            svc.set_document_context(used_colors=list(pal))
            a_set.set()
            b_done.wait(20)
            rec["a"] = [svc.get_rtf_color_index(c) for c in cols]
            svc.clear_document_context()

        def tb():
            a_set.wait(20)
            rec["b"] = [svc.get_rtf_color_index(c) for c in cols]
            svc.clear_document_context()      # must not wipe A's context
            b_done.set()

        x, y = threading.Thread(target=ta), threading.Thread(target=tb)
        x.start(); y.start(); x.join(30); y.join(30)
        out.append(rec)
    return out


def run_unit(res, tier, n2t):
    rng = sub_rng(res.seed, "c15unit")
    names = sorted(k for k in n2t if k)
    n = 3000 if tier == "quick" else 30000
    cases = []
    for _ in range(n):
        r = rng.random()
        if r < 0.12:
            pal = None
        else:
            pal = rng.sample(names, rng.randint(0, 7))
            if rng.random() < 0.25:
                pal.insert(rng.randrange(len(pal) + 1), rng.choice(["", "black"]))
            if rng.random() < 0.1 and pal:
                pal.append(rng.choice(pal))          # duplicate entry
        r = rng.random()
        if pal and r < 0.65:
            col = rng.choice(pal)
        elif r < 0.9:
            col = rng.choice(names)
        else:
            col = rng.choice(["", "black"])
        cases.append((pal, col))
    chunks = [cases[i:i + 250] for i in range(0, len(cases), 250)]
    obs = common.pool_map(_unit_worker, chunks, chunksize=1)
    if any(isinstance(o, tuple) and o and o[0] == "unavailable" for o in obs):
        msg = next(o[1] for o in obs if isinstance(o, tuple) and o and o[0] == "unavailable")
        res.notes.append("unit correspondence unavailable: " + msg)
        res.count("unit_unavailable", len(cases))
        return
    flat = [x for o in obs for x in o]
    items = [({"ctx": ctx, "c": c} if ctx is not None else {"c": c}) for ctx, c, _ in flat]
    drv = common.driver_batch([dict(op="c15_color_index", items=items)])[0]["idx"]
    for (pal, col), (ctx, c, got), want in zip(cases, flat, drv):
        case = dict(level="unit", palette=pal, colour=col)
        res.case(case, ("u", tuple(ctx) if ctx is not None else None, c) if ctx else None)
        res.count("unit:" + ("no-context" if pal is None else "context"))
        res.corr_checked += 1
        if got != want:
            res.disagree(case, f"get_rtf_color_index → {got}, model colorIndex → {want}")
    # cell probe
    np_ = 24 if tier == "quick" else 120
    pc = []
    for _ in range(np_):
        pal = rng.sample([k for k in names if k != "black"], rng.randint(2, 5))
        pc.append((pal, [rng.choice(pal) for _ in range(3)] + [rng.choice(names)]))
    pobs = common.pool_map(_probe_worker, [pc[i:i + 6] for i in range(0, len(pc), 6)], chunksize=1)
    pflat = [x for o in pobs for x in o]

    def cid(c):
        return 0 if (not c or c == "black") else n2t[c]

    reqs = []
    for (pal, cols), _rec in zip(pc, pflat):
        pa = [["set", [cid(c) for c in pal]]] + [["lookup", cid(c)] for c in cols] + [["clear"]]
        pb = [["lookup", cid(c)] for c in cols] + [["clear"]]
        reqs.append(dict(op="c15_replay", progs=[pa, pb], schedule=[0] + [1] * len(pb) + [0] * (len(cols) + 1)))
    drv = common.driver_batch(reqs)
    for (pal, cols), rec, d in zip(pc, pflat, drv):
        case = dict(level="probe", palette=pal, colours=cols)
        res.case(case, ("p", tuple(pal), tuple(cols)))
        res.count("unit:cell-probe")
        res.corr_checked += 1
        ma = [o[1] for o in d["local"][0]]
        mb = [o[1] for o in d["local"][1]]
        if rec["a"] != ma or rec["b"] != mb:
            g = ([o[1] for o in d["global"][0]], [o[1] for o in d["global"][1]])
            res.disagree(case, f"two real threads: setter saw {rec['a']}, other thread saw {rec['b']}; per-thread-cell "
                               f"model says {ma} / {mb}" + ("; this is what the process-wide-cell model predicts"
                                                            if (rec['a'], rec['b']) == g else ""))


# ------------------------------------------------------------------ observation level

def prepare_sets(res, tier):
    """document sets + fresh solo strings + traced solo logs; fills _BASE"""
    plan = [("pair-tables", ["table", "table"] if tier == "thorough" else ["tsmall", "tsmall"])]
    plan += [("pair-fonts", ["fontmix", "font14"])]
    plan += [("pair-groupby", ["groupby", "groupby"])]
    if tier == "thorough":
        plan += [("pair-multi-pageby", ["multi", "pageby"]), ("pair-figure-subline", ["figure", "subline"]),
                 ("triple", ["table", "pageby", "figure"])]
    else:
        plan += [("triple", ["tsmall", "figure", "tsmall"])]
    nold = len(plan)
    # the pair that differs in every per-component switch, all texts being ones the switches act on (gen_option_set)
    plan += [("pair-options", ["options", "options"])]
    nopt = len(plan)
    # same-feature sets (documents that use the same feature with different settings, see gen_feature_set)
    frng = sub_rng(res.seed, "c15featplan")
    plan += [(f"same-{f}", [f + "*", f + "*"]) for f in FEATURES]
    tf = frng.choice(FEATURES[:4])
    plan += [("same-triple", [tf + "*"] * 3)]
    nfeat = len(plan)
    # sets whose documents were given the same component OBJECTS (see gen_shared_set): one in which the column
    # header objects (own col_rel_width) are shared for sure and the page geometry differs, one in which (nearly)
    # every component object is shared except the page, one in which the page object is shared (same geometry; the
    # documents differ in palette, data, page count, displayed columns); thorough: three documents as well
    shared_plan = [("shared-headers", 2, dict(must=("headers",), never=("page",), p_share=0.3)),
                   ("shared-most", 2, dict(must=(), never=("page",), p_share=1.0, p_present=0.75)),
                   ("shared-page", 2, dict(must=("page",), p_share=0.35, p_present=0.5))]
    if tier == "thorough":
        shared_plan += [("shared-triple", 3, dict(must=(frng.choice(SHAREABLE),), p_share=0.4))]
    plan += [(name, ["shared"] * n) for name, n, _ in shared_plan]
    sets = {}
    tasks = []
    for k, (name, kinds) in enumerate(plan):
        if k < nold:
            specs = gen_docset(res.seed, k, kinds)
        elif k < nopt:
            specs = gen_option_set(res.seed, k - nold, n=len(kinds))
        elif k < nfeat:
            specs = gen_feature_set(res.seed, k - nopt, kinds[0].rstrip("*"), n=len(kinds),
                                    nc=2 if tier == "thorough" else 1)
        else:
            specs = gen_shared_set(res.seed, k - nfeat, n=len(kinds), small=True, **shared_plan[k - nfeat][2])
        sets[name] = dict(specs=specs, kinds=kinds)
        if shares_objects(specs):
            tasks += [("fresh", s, specs, i) for i, s in enumerate(specs)]
        else:
            tasks += [("fresh", s) for s in specs]
        tasks.append(("traced", specs))
    cell_specs = [[sp for name, _ in plan[nopt:nfeat] for sp in sets[name]["specs"]]]
    cell_specs += [sets[name]["specs"] for name, _ in plan[nfeat:]]
    ci = len(tasks)
    tasks.append(("cells", cell_specs))
    while len(tasks) < 4:
        tasks.append(None)
    outs = common.pool_map(_baseline_worker, tasks, chunksize=1)
    sets["__cells__"] = dict(classes=outs[ci], specs=cell_specs)
    it = iter(outs)
    for name, kinds in plan:
        st = sets[name]
        fresh = [next(it) for _ in kinds]
        traced = next(it)
        for i, f in enumerate(fresh):
            if f.get("status") != "ok":
                raise common.MachineryError(f"generated document {name}[{i}] does not encode alone: {f}")
        st["solo"] = [f["rtf"] for f in fresh]
        st["wrappers"] = traced[-1]["wrappers"]
        st["identity"] = traced[-1].get("identity") or {}
        st["traced"] = traced[:-1]
        for i, t in enumerate(st["traced"]):
            if not t.get("observers_agree", True) and os.environ.get("VERIF_SCHED_SETTRACE") != "1":
                res.notes.append(f"sys.monitoring and sys.settrace saw different library calls for {name}[{i}] "
                                 f"({t.get('observers')}); all schedules are run under sys.settrace")
                os.environ["VERIF_SCHED_SETTRACE"] = "1"      # inherited by the schedule workers (forked later)
        st["calls"] = [t["calls"] for t in st["traced"]]
        st["gp"] = [guided_points(t["log"], t["calls"]) for t in st["traced"]]
        st["gp_before"] = [guided_points(t["log"], t["calls"], (-1,)) for t in st["traced"]]
        st["gp_inside"] = [inside_points(t["log"], t["calls"]) for t in st["traced"]]
        # call boundaries at which a process-wide cell of the package (an attribute of a module-level / cached /
        # class-level object, a module global) holds a value different from its idle value, or next to a write that
        # stays (sched.state_windows); usable only if the probe's run saw the same number of library calls
        st["gp_state"], st["state_cells"] = [], []
        for i, t in enumerate(st["traced"]):
            sw = t.get("state") or {}
            ok = sw.get("calls") == t["calls"]
            if sw and not ok:
                res.notes.append(f"{name}[{i}]: the state probe saw {sw.get('calls')} library calls, the scheduler "
                                 f"{t['calls']}; its park points are not used")
            st["gp_state"].append([k for k in sw.get("points", []) if 0 <= k <= t["calls"]] if ok else [])
            st["state_cells"].append(dict(restored=sw.get("restored", []), kept=sw.get("kept", []),
                                          points={c: len(v) for c, v in (sw.get("cells") or {}).items()},
                                          holders=sw.get("holders"), instances=sw.get("instances")))
        _BASE[name] = dict(specs=st["specs"], solo=st["solo"])
    return plan, sets


def judge_run(res, case, st, ob, drv, n2t_unused=None):
    """apply oracle + agreement to one scheduled run; returns (discriminating?, failed?)"""
    n = len(st["specs"])
    if ob["status"] != "ok":
        raise common.MachineryError(f"scheduler: {ob.get('msg')} under schedule {case['segments']}")
    failed = False
    # (1) byte equality with the fresh solo document
    if not all(ob["same"]):
        parks = "; ".join(f"thread {p[0]} parked before its call #{p[1]} ({p[2]} at {p[3]})" for p in ob["parks"][:4])
        expl = ""
        if drv is not None and "agree_global" in drv and all(drv["agree_global"]) and not all(drv["agree"]):
            expl = " — the logged colour indices are exactly those of the process-wide-cell model"
        res.fail(case, f"concurrent encode differs from solo encode: {ob['diffs']}; {parks}{expl}")
        failed = True
    if drv is None:
        return False, failed
    # (2) Lean-evaluated notInterfered on the logged results
    if not failed and not all(drv["spec_ok"]):
        bad = [i for i, ok in enumerate(drv["spec_ok"]) if not ok]
        res.fail(case, f"threads {bad} obtained colour indices / strategies different from their solo run "
                       f"(documents happen to be byte-equal)")
        failed = True
    # (3) same accesses as alone
    if not failed:
        for i in range(n):
            mine = canon_events([e for e in ob["log"] if e[0] == i])
            alone = canon_events(st["traced"][i]["log"])
            if mine != alone:
                res.fail(case, f"thread {i} executed different shared-state accesses than alone "
                               f"({len(mine)} vs {len(alone)} events)")
                failed = True
                break
    # (4) model agreement
    if not all(drv["agree"]):
        bad = [i for i, ok in enumerate(drv["agree"]) if not ok]
        if not failed:
            res.disagree(case, f"model (per-thread cell) replay of the logged schedule differs from the logged results "
                               f"for threads {bad}")
    if not all(drv["wf"]) and not failed:
        res.disagree(case, "a thread's logged program is not of the modelled shape (non-canonical registration or a "
                           "registry read before the thread's own registration): hypothesis of C15_local_* not met")
    return (not all(drv["model_global_ok"])), failed


# three-document sets: how many of the schedules "x held inside one of its shared accesses, the two others encoded"
# (all of them: None) and how many with x held anywhere are run
HELD_INSIDE = dict(quick={None: 500, "triple": None}, thorough={None: None})
HELD_ANY = dict(quick=100, thorough=2000)
# per document set: how many of the schedules "a document parked inside a window of a process-wide cell" are run
STATE_WINDOW_CAP = dict(quick=240, thorough=None)


def run_sched(res, tier, n2t):
    t0 = time.time()
    plan, sets = prepare_sets(res, tier)
    res.extra["baseline_s"] = round(time.time() - t0, 2)
    from .. import sched as _sched
    res.extra["call_observer"] = _sched.default_mode()
    res.extra["observers_agree_on_baselines"] = all(t.get("observers_agree", True) for name, _ in plan
                                                    for t in sets[name]["traced"])
    for name, _ in plan:
        st = sets[name]
        w = st["wrappers"]
        if w.get("error") or not all(w.get(k) is True for k in ("set", "clear", "lookup")):
            res.notes.append(f"shared-access log unavailable ({w}); byte oracle only")
        for i, t in enumerate(st["traced"]):
            if not t["same_untraced"] or t["result"][0] != "ok" or t["result"][1] != st["solo"][i]:
                res.fail(dict(level="sequential", set=name, thread=i, spec=st["specs"][i],
                              **(dict(specs=st["specs"]) if shares_objects(st["specs"]) else {})),
                         "encoding a document after other documents in the same process differs from encoding it in "
                         "a fresh process (the no-preemption schedule)")
    # cell classes: every ContextVar of the package must be the per-thread kind of cell the model assumes
    cells = sets.pop("__cells__")
    res.extra["contextvars"] = [{k: v for k, v in c.items() if k != "left_behind"} for c in cells["classes"]
                                if c.get("kind", "contextvar") == "contextvar"]
    res.extra["shared_input_objects"] = [{k: v for k, v in c.items() if k in ("var", "where", "written",
                                                                               "mutated_by_encode", "left_behind")}
                                         for c in cells["classes"] if c.get("kind") == "input-object"]
    for c in cells["classes"]:
        case = dict(level="cells", var=c["var"], where=c["where"], specs=cells["specs"])
        res.case(dict(level="cells", var=c["var"], where=c["where"]), None)
        res.corr_checked += 1
        if c.get("kind") == "input-object":
            res.count(f"cells:input-object-{c['component']}-" + ("per-document-state" if c["mutated_by_encode"] else
                                                                 "written-same-state" if c["written"] else "read-only"))
            if c["mutated_by_encode"]:
                res.disagree(case, f"the {c['var']} object of {c['where']} is not read-only input: encodes of different "
                                   f"documents that hold it leave different states on it ({c['left_behind']}) — what "
                                   f"an encode stores on an object several documents were given is a process-wide "
                                   f"cell (Model.Interleave CtxMode.Global, objMemoProg), for which C15 is refuted "
                                   f"(C15_shared_object_memo_interferes)")
            continue
        res.count("cells:contextvar-" + ("mutable-default" if c["mutable_default"] else "immutable-default"))
        if c["mutated_by_encode"]:
            res.disagree(case, f"ContextVar {c['var']!r} ({c['where']}) is not a per-thread cell: its default object "
                               f"{c['default']} is mutable, every thread's .get() returns that one object, and an encode "
                               f"on another thread changed it in place (left behind: {c['left_behind']}) — a "
                               f"process-wide cell (Model.Interleave CtxMode.Global), for which C15 is refuted "
                               f"(C15_shared_default_memo_interferes)")
        elif c["leaked_binding"]:
            res.notes.append(f"ContextVar {c['var']!r}: a new thread reads a different default object after an encode")
    import re as _re
    for name, _ in plan:
        st = sets[name]
        if not shares_objects(st["specs"]):
            continue
        for lab in share_labels(st["specs"]):
            res.count(f"{name}:{lab}")
        for c, ok in sorted(st["identity"].items()):
            res.count(f"{name}:" + ("held-by-identity:" if ok else "copied-by-constructor:") + c)
        pages = [len(_re.findall(r"\\page(?![a-z])", r)) + 1 for r in st["solo"]]
        res.extra.setdefault("shared_set_pages", {})[name] = pages
        res.extra.setdefault("shared_set_objects", {})[name] = dict(
            shared=sorted({c for sp in st["specs"] for c in (sp.get("share") or {})}), held_by_identity=st["identity"])
        for i, n_pages in enumerate(pages):
            res.count(f"{name}:pages={n_pages}")
            if n_pages < 2:
                res.notes.append(f"{name}[{i}] has one page only: nothing repeats in it")
    for name, _ in plan:
        specs = sets[name]["specs"]
        if all("options" in sp for sp in specs):
            for sw_ in OPTION_SWITCHES:
                sides = [sp["options"].get(sw_) for sp in specs]
                if None not in sides:
                    res.count(f"{name}:switch:{sw_}:" + ("differs" if len(set(sides)) > 1 else "same"))
        offs = sum(1 for sp in specs if '"text_convert": false' in json.dumps(sp).lower()
                   or '"text_convert": [[' in json.dumps(sp))
        latex = sum(1 for sp in specs if any(a in json.dumps(sp) for a in (json.dumps(x)[1:-1] for x in LATEX)))
        res.count(f"{name}:documents-with-text_convert-off={offs},with-mapped-LaTeX-text={latex}")
    rng = sub_rng(res.seed, "c15sched")
    tasks = []
    fam_counts = {}
    for name, kinds in plan:
        st = sets[name]
        calls, gp, n = st["calls"], st["gp"], len(kinds)
        fams = []
        if name == "pair-tables" or (tier == "thorough" and n == 2):
            same = name.startswith(("same-", "shared-"))
            fams += single_preemption(n, calls)
            fams += guided2(calls, st["gp_before"], rng, 1500 if same else None, "before-access2")  # else exhaustive
            fams += guided2(calls, gp, rng, 300 if tier == "quick" else 3000 if name == "pair-tables" else
                            500 if same else 1500)
            fams += sampled(calls, gp, rng, 200 if tier == "quick" or same else 700, 2)
            fams += sampled(calls, gp, rng, 200 if tier == "quick" or same else 700, 3)
            fams += guided3(calls, gp, rng, 200 if tier == "quick" or same else 700)
        if name in ("pair-fonts", "pair-groupby") and tier == "quick":
            # the document that switches font sizes is parked at every library call boundary while the other one is
            # encoded from start to finish
            fams += [f for f in single_preemption(n, calls) if f[1][0][0] == 0]
        if name.startswith("same-") and n == 2 and tier == "quick":
            # both documents go through the same feature code with different settings: document 0 is parked at every
            # library call boundary while the other one is encoded from start to finish
            fams += [f for f in single_preemption(n, calls) if f[1][0][0] == 0]
        if name.startswith("shared-") and n == 2 and tier == "quick":
            # documents that were given the same component objects.  shared-headers: document 0 (≥ 3 pages) is parked
            # at EVERY library call boundary while the other one is encoded from start to finish; the other roles /
            # the other set: parked at evenly spaced call boundaries (random phase), i.e. in every stretch of the encode
            allsp = single_preemption(n, calls)
            for x in range(n):
                mine = [f for f in allsp if f[1][0][0] == x]
                if name == "shared-headers" and x == 0:
                    fams += mine
                else:
                    every = max(1, len(mine) // 250)
                    off = rng.randrange(every)
                    fams += [("single-spaced", f[1]) for f in mine[off::every]]
            fams += sampled(calls, gp, rng, 40, 2)
            fams += guided3(calls, gp, rng, 40)
        if name == "pair-options" and tier == "quick":
            # the documents sit on different sides of every per-component switch: each is parked at evenly spaced call
            # boundaries (random phase) while the other one is encoded from start to finish, + sampled 2 / 3 preemptions
            allsp = single_preemption(n, calls)
            for x in range(n):
                mine = [f for f in allsp if f[1][0][0] == x]
                every = max(1, len(mine) // 200)
                fams += [("single-spaced", f[1]) for f in mine[rng.randrange(every)::every]]
            fams += sampled(calls, gp, rng, 40, 2)
            fams += guided3(calls, gp, rng, 40)
        # every document of every set: parked at the call boundaries inside the set … restore windows of the
        # process-wide cells its encode writes (and on both sides of the writes that stay) while the other document(s)
        # are encoded from start to finish (three documents: in both orders)
        have = {json.dumps(f[1]) for f in fams}
        sw = []
        for x in range(n):
            others = [t for t in range(n) if t != x]
            for k in st["gp_state"][x]:
                for order in ((others, others[::-1]) if n == 3 else (others,)):
                    segs = [[x, k]] + [[t, None] for t in order] + [[x, None]]
                    if json.dumps(segs) not in have:
                        sw.append(("state-window", segs))
        cap = STATE_WINDOW_CAP[tier]
        if cap is not None and len(sw) > cap:
            sw = rng.sample(sw, cap)
        fams += sw
        if n == 3:
            # single preemption of each of the three threads at the switch points next to its shared accesses
            fams += [f for f in single_preemption(n, calls) if f[1][0][1] in set(gp[f[1][0][0]])]
            same3 = name.startswith(("same-", "shared-"))
            fams += three_thread(calls, gp, rng, (200 if same3 else 300) if tier == "quick" else 2000)
            fams += sampled(calls, gp, rng, (100 if same3 else 150) if tier == "quick" else 1000, 3)
            # one thread held (inside one of its shared accesses / anywhere) while BOTH other documents are encoded
            fams += held_while_all(calls, st["gp_inside"], rng, HELD_INSIDE[tier].get(name, HELD_INSIDE[tier][None]),
                                   HELD_ANY[tier])
        for fam in fams:
            task = dict(set=name, family=fam[0], segments=fam[1])
            if len(fam) > 2:
                task["history"] = fam[2]
            tasks.append(task)
            fam_counts[f"{name}/{fam[0]}"] = fam_counts.get(f"{name}/{fam[0]}", 0) + 1
    t1 = time.time()
    obs = common.pool_map(_sched_worker, tasks, chunksize=8)
    # A thread that ends in an exception of the ENVIRONMENT (OSError: Pillow's "cannot open resource" when the machine
    # is out of file descriptors, MemoryError) is not evidence of interference.  The scheduler is deterministic, so the
    # same schedule is run twice more in fresh worker processes: interference reproduces, a starved machine does not.
    env = ("OSError", "MemoryError", "BlockingIOError", "TimeoutError")
    suspects = [k for k, o in enumerate(obs)
                if o.get("status") == "ok" and o.get("errors")
                and all(e[1] and len(e[1]) > 1 and e[1][1] in env for e in o["errors"])
                and all(s or any(e[0] == i for e in o["errors"]) for i, s in enumerate(o["same"]))]
    for k in suspects[:20]:
        again = common.pool_map(_sched_worker, [tasks[k]] * 4, chunksize=1)[:2]
        if all(a.get("status") == "ok" and all(a["same"]) for a in again):
            res.count("schedule:environment-error-not-reproduced")
            res.notes.append(f"schedule {tasks[k]['segments']} of set {tasks[k]['set']}: a thread raised "
                             f"{obs[k]['errors'][0][1][1:3]} once; the same schedule run twice more in fresh processes "
                             f"returned the solo documents — counted as an environment error, not as interference")
            obs[k] = again[0]
    res.extra["schedule_runs_s"] = round(time.time() - t1, 2)
    res.extra["schedule_runs_cpu_s"] = round(sum(o.get("cpu", 0) for o in obs), 1)
    res.extra["schedule_runs_cpu_s_note"] = ("process CPU time summed over all scheduled runs (build + threads under "
                                             "trace); divide by the number of worker processes for the wall time on "
                                             "an otherwise idle machine")
    reqs, idx = [], []
    for k, (t, ob) in enumerate(zip(tasks, obs)):
        if ob["status"] != "ok":
            continue
        st = sets[t["set"]]
        n = len(st["specs"])
        progs, outs, schedule = abstract_log(ob["log"], n, n2t)
        solo_outs = [abstract_log(tr["log"], 1, n2t)[1][0] for tr in st["traced"]]
        reqs.append(dict(op="c15_replay", progs=progs, schedule=schedule, observed=outs, observed_solo=solo_outs,
                         finished=[True] * n))
        idx.append(k)
    t2 = time.time()
    drv = dict(zip(idx, common.driver_batch(reqs)))
    res.extra["driver_s"] = round(time.time() - t2, 2)
    ndisc = 0
    for k, (t, ob) in enumerate(zip(tasks, obs)):
        st = sets[t["set"]]
        case = dict(level="sched", set=t["set"], family=t["family"], kinds=st["kinds"], segments=t["segments"],
                    specs=st["specs"], **({"history": t["history"]} if t.get("history") else {}))
        disc, _ = judge_run(res, case, st, ob, drv.get(k))
        ndisc += bool(disc)
        res.case(dict(level="sched", set=t["set"], family=t["family"], segments=t["segments"],
                      parks=ob.get("parks"), kinds=st["kinds"], **({"history": t["history"]} if t.get("history") else {})),
                 (t["set"], json.dumps(t["segments"])) if disc else None)
        res.count(f"{t['set']}/{t['family']}")
        res.corr_checked += 1
    res.exhaustive = True
    res.extra["switch_points_per_thread"] = {name: sets[name]["calls"] for name, _ in plan}
    res.extra["shared_events_per_thread"] = {name: [len(t["log"]) for t in sets[name]["traced"]] for name, _ in plan}
    res.extra["guided_points_per_thread"] = {name: [len(g) for g in sets[name]["gp"]] for name, _ in plan}
    res.extra["before_access_points_per_thread"] = {name: [len(g) for g in sets[name]["gp_before"]] for name, _ in plan}
    res.extra["state_window_points_per_thread"] = {name: [len(g) for g in sets[name]["gp_state"]] for name, _ in plan}
    res.extra["process_wide_cells_written"] = {name: sets[name]["state_cells"] for name, _ in plan}
    for name, _ in plan:
        for i, sc in enumerate(sets[name]["state_cells"]):
            res.count(f"state-cells:{name}[{i}]:" + ("none-written" if not (sc["restored"] or sc["kept"]) else
                                                      f"restored={len(sc['restored'])},kept={len(sc['kept'])}"))
    res.extra["inside_access_points_per_thread"] = {name: [len(g) for g in sets[name]["gp_inside"]] for name, _ in plan}
    res.extra["schedules_by_family"] = fam_counts
    res.extra["schedules_total"] = len(tasks)
    res.extra["discriminating_schedules"] = ndisc
    res.extra["exhaustive_what"] = ("all single-preemption schedules (every library call boundary of the preempted "
                                    "thread, every choice of preempted thread) of: "
                                    + ", ".join(n for n, k in plan if n == "pair-tables" or
                                                (tier == "thorough" and len(k) == 2))
                                    + "; all two-preemption schedules whose preemptions sit right before a "
                                      "shared-state access, of: "
                                    + ", ".join(n for n, k in plan if n == "pair-tables" or
                                                (tier == "thorough" and len(k) == 2 and not n.startswith("same-")))
                                    + ("; all single-preemption schedules that park document 0 (every library call "
                                       "boundary) of: " + ", ".join(n for n, k in plan if len(k) == 2 and
                                                                    n not in ("pair-tables", "shared-most",
                                                                              "shared-page"))
                                       if tier == "quick" else "")
                                    + "; three documents, one held at every call boundary inside / next to each of its "
                                      "shared accesses while the two others are encoded, both orders, of: "
                                    + ", ".join(n for n, k in plan if len(k) == 3 and
                                                HELD_INSIDE[tier].get(n, HELD_INSIDE[tier][None]) is None))
    if ndisc == 0:
        res.notes.append("no discriminating schedule was produced — the run would not have noticed the old defect")
        res.disagree(dict(level="meta"), "schedule generator produced no schedule on which the process-wide-cell model "
                                         "differs from the per-thread-cell model")


def run(res: common.Result, build) -> int:
    n2t = color_names()
    run_unit(res, res.tier, n2t)
    run_sched(res, res.tier, n2t)
    return common.finish(
        res, build, RULE, TRUSTED, ASSUME,
        explanation="C15_local_exact/prefix/complete/spec hold for every number of threads, every program over the "
                    "modelled shared-state events and every schedule (frame lemma + simulation, induction on the "
                    "schedule); C15_global_witness refutes the same statement for the pre-repair process-wide cell. "
                    "PARTIAL w.r.t. the runtime: switch points are library call boundaries; preemption inside one "
                    "bytecode-level access, free-threaded CPython and C-extension races are not covered.")


def replay(payload) -> int:
    case = payload.get("case") or {}
    if not case:
        for b in payload.get("broken") or []:
            if b.get("kind") == "correspondence" and b.get("case"):
                case = b["case"]
                print("replaying the first input on which model and implementation disagreed:", b.get("why", "")[:300])
            elif b.get("kind") == "proof-obligation":
                print("proof obligation broken:", b.get("theorems"), b.get("bad_axioms"), b.get("forbidden"))
    n2t = color_names()
    level = case.get("level")
    if level == "sched":
        specs = case["specs"]
        solo = []
        for i, s in enumerate(specs):
            f = solo_fresh(s, specs, i)
            if f.get("status") != "ok":
                print("document does not encode alone:", f)
                return 2
            solo.append(f["rtf"])
        traced = _baseline_worker(("traced", specs))[:-1]
        if case.get("history"):
            print("history: documents", case["history"], "encoded alone (in this order) right before the threads start")
        ob = run_one(specs, solo, case["segments"], history=case.get("history"))
        if ob["status"] != "ok":
            print("scheduler problem:", ob)
            return 2
        n = len(specs)
        progs, outs, schedule = abstract_log(ob["log"], n, n2t)
        solo_outs = [abstract_log(tr["log"], 1, n2t)[1][0] for tr in traced]
        d = common.driver_batch([dict(op="c15_replay", progs=progs, schedule=schedule, observed=outs,
                                      observed_solo=solo_outs, finished=[True] * n)])[0]
        print("documents      :", case.get("kinds"), " schedule segments [thread, calls]:", case["segments"])
        for p in ob["parks"]:
            print(f"  thread {p[0]} parked before its library call #{p[1]}: {p[2]} ({p[3]})")
        print("library calls observed until the last park:", ob["counts"])
        print("byte-equal to solo document per thread:", ob["same"])
        for x in ob["diffs"]:
            print("  ", x)
        for i in range(n):
            print(f"thread {i} lookups concurrent: {[o[1] for o in outs[i]]}")
            print(f"thread {i} lookups alone     : {[o[1] for o in solo_outs[i]]}")
        print("Lean notInterfered per thread          :", d["spec_ok"])
        print("model (per-thread cell) reproduces log :", d["agree"])
        print("model (process-wide cell) reproduces log:", d["agree_global"])
        tmp = common.Result("C15", "quick", 0)
        st = dict(specs=specs, traced=traced)
        judge_run(tmp, case, st, ob, d)
        for _, why in tmp.failures:
            print("FAIL:", why[:600])
        bad = bool(tmp.failures)
    elif level == "cells":
        cl = [c for c in cell_classes(case["specs"]) if c["var"] == case.get("var")
              and (c.get("kind", "contextvar") == "contextvar" or c["where"] == case.get("where"))]
        for c in cl:
            print(c)
        bad = any(c["mutated_by_encode"] for c in cl)
        if any(c.get("kind") == "input-object" for c in cl):
            print("the object is a process-wide cell carrying per-document state (encodes of different documents that "
                  "were given it leave different states on it):", bad)
        else:
            print("the variable is a process-wide cell (mutable default object changed in place by an encode on "
                  "another thread):", bad)
    elif level == "sequential":
        f = solo_fresh(case["spec"], case.get("specs"), case.get("thread"))
        print("fresh-process encode status:", f.get("status"))
        tr = _baseline_worker(("traced", case.get("specs") or [case["spec"]]))[case.get("thread", 0) if
                                                                                 case.get("specs") else 0]
        bad = not (tr["result"][0] == "ok" and tr["result"][1] == f.get("rtf") and tr["same_untraced"])
        print("in-process encode equals fresh-process encode:", not bad)
    elif level == "unit":
        o = _unit_worker([(case["palette"], case["colour"])])
        ctx, c, got = o[0]
        want = common.driver_batch([dict(op="c15_color_index",
                                         items=[{"ctx": ctx, "c": c} if ctx is not None else {"c": c}])])[0]["idx"][0]
        print("implementation:", got, " model:", want)
        bad = got != want
    elif level == "probe":
        rec = _probe_worker([(case["palette"], case["colours"])])[0]
        print("setter thread saw", rec["a"], "; other thread saw", rec["b"])
        cid = lambda c: 0 if (not c or c == "black") else n2t[c]  # noqa: E731
        want_b = [cid(c) for c in case["colours"]]
        bad = rec["b"] != want_b
        print("other thread should see master indices", want_b)
    else:
        print("nothing to replay for this case:", level)
        return 2
    if bad:
        print("VIOLATION property=C15 replay=<given>")
        return 1
    print("property holds on this input")
    return 0


def _solo_main():
    spec = json.loads(sys.stdin.read())
    with tempfile.TemporaryDirectory(prefix="rtfv_c15s_") as wd:
        if "specs" in spec:
            try:
                with contextlib.redirect_stdout(io.StringIO()):
                    doc = _build_all(spec["specs"], wd)[spec["i"]]
                st = None
            except Exception as e:  # noqa: BLE001
                st = ("construct-error", docgen.classify_exc(e), str(e)[:300])
            if st is None:
                try:
                    with contextlib.redirect_stdout(io.StringIO()):
                        st = ("ok", docgen._encode_with_deadline(doc))
                except Exception as e:  # noqa: BLE001
                    st = ("encode-error", docgen.classify_exc(e), str(e)[:300])
        else:
            st = docgen.encode(spec, wd)
    if st[0] == "ok":
        print(json.dumps(dict(status="ok", rtf=st[1])))
    else:
        print(json.dumps(dict(status=st[0], exc=st[1], msg=st[2])))


if __name__ == "__main__":
    if "--solo" in sys.argv:
        _solo_main()
    elif "--cells" in sys.argv:
        print(json.dumps(_cell_classes(json.loads(sys.stdin.read()))))
