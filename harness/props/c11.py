"""C11 — text conversion translates exactly the documented tokens and nothing else.

Theorems: lean/Props/C11.lean about `Model.Convert` (the ordered `str.replace` passes over RTF_CHAR_MAPPING
followed by the LaTeX regex pass of `TextContent._convert_special_chars`, excluding the per-character escaper
which is C10's) and the one-pass specification `Model.Convert.spec`.

Tie to the code on every run:
  unit level         real `TextContent(text=t, convert=b)._convert_special_chars()` (the `\\uc1\\uN*` escapes are
                     undone here, so the check is independent of the escaper)  vs  model (driver op `c11_convert`)
                     on: all 682 commands x context templates, braced commands, unknown commands, all special
                     sequences and their pairs, random plain texts, random token soups, conversion off.
  oracle             evaluated by the driver on the *implementation's* output: `out == render (spec t)`
                     (Lean-defined spec), plus the events read back from the output (`readObs`), plus a snapshot
                     of the documented symbol table (corpus/C11/latex_table.json) for the single-command cases.
  observation level  whole documents through `rtf_encode()`: a convertible text in every component kind
                     (title, subline, page header/footer, column header, body, footnote, source) with default and
                     overridden `text_convert` (scalar, per line, per column, matrix); every text position is read
                     back with harness/rtfread.py and compared with the reading of `render (spec t)` (flag on) or of
                     the raw text (flag off); the flag expected at a position is the documented meaning of the
                     user's value, the model's flag is `flagAt` on the constructed component's value.
  literal-like texts a second document family whose texts look like a literal of another kind (ints, floats, exponents,
                     digit-group underscores, radix forms, inf/nan words, booleans / missing-value words, complex,
                     non-ASCII digits, near misses of the number grammar) x every decoration (none, `_`/`^` appended or
                     between digits, leading / trailing / inner blanks and newlines, `>=`/`<=`, a command, a page keyword):
                     the texts carry NO tag (the whole text is the literal), positions are identified by their ordinal
                     place in the one-page output; the same text stands in every position kind — title, subline, page
                     header/footer, column header cell, page_by group heading, body cell, footnote and source as table
                     row and as paragraph — with text_convert default / scalar / per line / per column / matrix, and
                     every position whose flag is on must read as the one-pass reading (hence the same everywhere).
                     The same texts run through the unit level (labels `literal`, `literal-off`).
  structured docs    a third document family: the structures that cut the data frame up before it reaches the cell
                     builder — page_by shown as spanning heading rows with SEVERAL GROUPS ON A PAGE (the page is encoded
                     segment by segment, `_encode(segment, …, row_offset)`), nested page_by, new_page with `first_row` /
                     `column`, subline_by, subline_by + page_by, group_by (alone / with page_by), multi-page tables and
                     multi-section documents (one frame + body per section) — x a text_convert that differs BETWEEN
                     ROWS: row-wise nested list, tuple (one value per row), full matrix, cyclic matrix, 2-D array,
                     frame of booleans (minority: per column, scalar, default).  Every cell carries a tagged convertible
                     text; the oracle is per position: a cell is converted iff the user's value at ITS OWN (row, column)
                     of the data frame is on (removed columns, page slices, segments and sections do not re-bind a flag).
                     Heading texts carry tokens where the flag of the page_by column does not depend on the row.  The
                     evidence counts, from the OUTPUT, the pages with several segments and the cells whose own flag
                     differs from the flag of the row at the same offset from the top of their segment / page.

Known deviations (reported once as KNOWN-FINDING while listed in known_findings.json, VIOLATION otherwise):
  C11-D15-blank-after-comparison   `a>=b` -> `a≥ b`
  C11-token-in-brace-group         `\\mathbb{^}` -> `\\mathbb{\\super }`
  C11-pagefield-after-command      `\\alpha\\pagefield` leaves `\\alpha` unconverted
A deviating case is covered by a listed finding only if its output is exactly what the finding's signature
predicts (D15: the Lean rendering with the blank; the other two: an independent multi-pass reference converter
written here from the documented mapping) — anything else is a VIOLATION.
"""
from __future__ import annotations

import json
import re

from .. import common, docgen, rtfread
from ..common import sub_rng

RULE = ("unit: (text, flag) pairs — every command of the symbol table x context templates (start/middle/end, adjacent "
        "commands, followed by letters/digits/braces/punctuation/specials), braced commands and their variations, "
        "unknown commands incl. near misses, all special sequences alone/paired/partial, random plain texts, random "
        "token soups, literal-like texts (ints, floats, exponents, digit-group underscores, radix forms, inf/nan, "
        "booleans, complex, non-ASCII digits, near misses) x decorations (each conversion token, blanks and newlines "
        "around/inside); docs: one-page tables with a tagged convertible text in every component kind under default / "
        "scalar / per-line / per-column / matrix text_convert; untagged one-page tables with a literal-like text "
        "(every family x decoration pair) in every position kind incl. page_by group headings and footnote/source as "
        "table row and as paragraph, positions identified by ordinal place, the same text in all positions or one "
        "draw per position; structured documents — page_by spanning rows with several groups on a page (segments), "
        "nested page_by, new_page first_row / column, subline_by, subline_by + page_by, group_by, group_by + page_by, "
        "multi-page, multi-section — x text_convert differing between rows (row-wise nested list, tuple per row, full / "
        "cyclic matrix, 2-D array, frame; minority per column / scalar / default), all structure x shape pairs, tagged "
        "convertible text in every cell, judged per position by the flag at the cell's own (row, column) of the data "
        "frame. non-trivial = the specification produces at least one "
        "non-plain event (unit) or at least one position whose flag differs from the component default (doc); "
        "distinct by text (unit) or by (component flags, texts) (doc)")
TRUSTED = [
    "Lean 4.33 kernel; axioms ⊆ {propext, Classical.choice, Quot.sound} (audited per theorem on every run)",
    "Lean compiler for the driver executable (compiled evaluation agrees with kernel reduction)",
    "harness/translate.py prints RTF_CHAR_MAPPING, unicode_latex and the constructor defaults as it reads them "
    "(cross-checked against Python on every run by op c11_tables)",
    "undoing of `\\uc1\\uN*` escapes in the unit level (regex in this file); inputs avoid the literal `\\uc1\\u`",
    "harness/rtfread.py (Python RTF reader) for the observation level; both sides of every comparison are read by it",
    "CPython `re` and `str.replace` semantics are modelled (validated by the unit correspondence), not verified",
]
MANIFEST = dict(
    text="Lean theorems over a model of the conversion passes of _convert_special_chars: the eight ordered "
         "str.replace passes equal one simultaneous left-to-right pass (all texts; generic lemma + decided "
         "compatibility of the generated RTF_CHAR_MAPPING), and followed by the LaTeX regex pass they write exactly "
         "the rendering of a one-pass tokeniser specification for every `regular` text (induction), up to the blank "
         "after ≥/≤ (D15). Counterexamples to the full statement are proved (¬C11_full). Table facts (mapping = "
         "documented tokens in order, keys distinct, which control words are symbol-table keys, non-nameable keys, "
         "table digest, constructor defaults) are decide +kernel obligations on tables regenerated from the source "
         "on every run. The model is tied to the code by unit correspondence over all 682 commands x templates and "
         "random texts, and by documents read back per component; the Lean-defined spec is the oracle on the "
         "implementation's output.",
    note="The escaper is excluded (C10). The full statement is false on the unchanged tree: D15 (`a>=b` → `a≥ b`, pinned "
         "by tests/test_divider_filtering.py) and two interaction classes (literal token inside a command's brace "
         "group; `\\pagefield` directly after a command). Proved: agreement on all regular texts; `regular` is "
         "sufficient, not necessary (an unknown command directly followed by `\\pagefield` agrees by coincidence). "
         "Every backslash-free text is regular (C11_backslash_free_regular), so texts that look like numbers or other "
         "literals are covered by the theorems; the flag route does not depend on the text or the position kind "
         "(C11_position_independent). The subline_by heading is written outside the TextContent pipeline (never "
         "converted, no text_convert of its own) and is not a position of this check; page_by headings are (flag of "
         "the body at the page_by column; in the structured documents a heading text carries tokens only where that "
         "column's flag does not depend on the row — the statement does not say which row's flag a heading shared by "
         "several rows takes). Per cell: the flag is the user's value at the cell's own (row, column) of the data frame, "
         "also for cells of the second and later page_by segments of a page, of later pages and of later sections "
         "(C11enc_segment_offset, C11enc_segment_cell_flag, C11enc_data_flag_binding; C02encflag_cell_own_flag).",
    technique="Lean 4 proof (multi-pass = one-pass by induction, table facts by decide +kernel) + differential "
              "correspondence model/implementation + Lean-defined oracle on implementation output",
    design="7/C11",
)
ASSUME = [
    "CPython str.replace / re.sub semantics as modelled (leftmost, non-overlapping; greedy letter run; optional group)",
    "the per-character escaper (C10) is a parameter; unit outputs are compared after undoing `\\uc1\\uN*`",
    "pydantic construction and BroadcastValue are observed, their post-construction values are inputs of the model",
]

FINDINGS = {
    "C11-D15-blank-after-comparison": dict(
        input="a>=b", what="'>=' / '<=' leave the delimiter blank of the intermediate \\geq / \\leq behind the sign "
                           "('a>=b' reads back 'a≥ b'); pinned by tests/test_divider_filtering.py"),
    "C11-token-in-brace-group": dict(
        input="\\mathbb{^}", what="a literal token inside the brace group of a command is converted although the group "
                                  "is looked up (and kept) as a whole ('\\mathbb{^}' → '\\mathbb{\\super }')"),
    "C11-pagefield-after-command": dict(
        input="\\alpha\\pagefield", what="the field group written for \\pagefield is taken as the brace group of a "
                                         "command directly in front of it ('\\alpha\\pagefield' leaves \\alpha unconverted)"),
}
KIND_FINDING = {1: "C11-token-in-brace-group", 2: "C11-pagefield-after-command"}

# the documented mapping (statement of C11 + RTF control words), written out here — NOT imported from rtflite
DOC_MAPPING = [("^", "\\super "), ("_", "\\sub "), (">=", "\\geq "), ("<=", "\\leq "), ("\n", "\\line "),
               ("\\pagenumber", "\\chpgn "), ("\\totalpage", "\\totalpage "),
               ("\\pagefield", "{\\field{\\*\\fldinst NUMPAGES }} ")]
LATEX_RE = re.compile(r"\\[a-zA-Z]+(?:\{[^}]*\})?")
UNESC = re.compile(r"\\uc1\\u(-?\d+)\*")


def snapshot_table() -> dict:
    p = common.CORPUS / "C11" / "latex_table.json"
    return json.loads(p.read_text())["table"]


def reference_multipass(t: str, table: dict) -> str:
    """explained-deviation reference: the documented mapping applied pass by pass, then the command regex"""
    for k, v in DOC_MAPPING:
        t = t.replace(k, v)
    return LATEX_RE.sub(lambda m: chr(table[m.group(0)]) if m.group(0) in table else m.group(0), t)


def unescape(s: str) -> str:
    out = UNESC.sub(lambda m: chr(int(m.group(1)) % 65536), s)
    try:
        return out.encode("utf-16", "surrogatepass").decode("utf-16")
    except UnicodeDecodeError:
        return out


def cps(s: str) -> list[int]:
    return [ord(c) for c in s]


def from_cps(xs) -> str:
    return "".join(chr(x) for x in xs)


# ------------------------------------------------------------------ unit level

def _unit_worker(case):
    """case = (text, conv) → ('ok', unescaped output) | ('unavailable', msg) | ('exc', type, msg)"""
    try:
        from rtflite.row import TextContent
    except Exception as e:  # noqa: BLE001
        return ("unavailable", f"{type(e).__name__}: {e}")
    t, conv = case
    try:
        import contextlib
        import io
        with contextlib.redirect_stdout(io.StringIO()):
            tc = TextContent(text=t, convert=conv)
            if not hasattr(tc, "_convert_special_chars"):
                return ("unavailable", "TextContent._convert_special_chars missing")
            out = tc._convert_special_chars()
    except (ImportError, AttributeError) as e:
        return ("unavailable", f"{type(e).__name__}: {e}")
    except Exception as e:  # noqa: BLE001
        return ("exc", type(e).__name__, str(e)[:200])
    return ("ok", unescape(out))


TEMPLATES_CORE = ["§", "x §", "§ y", "x § y", "x§", "§y", "§1", "§{", "§}", "§.", "§§", "§\\beta", "\\beta§", "(§)"]
TEMPLATES_MORE = ["§{}", "§{x}", "§,", "§;", "§-", "§'", "$§$", "§^2", "§_i", "§>=1", "1<=§", "§\n§", "§ §", "{§}", "\\§",
                  "§\\", "§\\pagenumber", "§ \\pagefield", "§é", "§α", "§ {x}", "§\\foo", "\\foo§", "§=", "§>", "a^§",
                  "§\\totalpage", "§ \\pagefield{", "^§_§", "§{x", "§x}", "§\t", "§  ", "§\\\\", "§{}{}"]
TEMPLATES_IRREG = ["§\\pagefield", "§{\\pagefield", "§{a^b}", "§{>=}", "§{\\pagenumber}", "§{x_1}y", "§{\n}"]
SPECIALS = ["^", "_", ">=", "<=", "\n", "\\pagenumber", "\\totalpage", "\\pagefield"]
PARTIALS = [">", "<", "=", "=>", "=<", ">==", "<<=", ">>=", "<=>", ">=<=", "\\page", "\\pagenum", "\\pagenumbe", "\\pagenumberx",
            "\\pagenumbers", "\\totalpages", "\\total", "\\pagefields", "\\PAGENUMBER", "\\Pagenumber", "\\ pagenumber",
            "\\pagenumber1", "\\pagenumber{x}", "\\totalpage{", "\\pagefield}", "\\\\pagenumber", "\\n", "\r\n", "\r", "^^", "__",
            "^_", "_^", "^{2}", "_{ij}", "\\^", "\\_", "\\super ", "\\sub ", "\\geq ", "\\leq", "\\line ", "\\chpgn ", "\\geq", "\\geqq",
            "\\geq{x}", "\\le", "\\leq1", "{\\field{\\*\\fldinst NUMPAGES }} ", "\\field{x}", "\\fldinst"]
PLAIN_ALPHABETS = [
    "abcdefghijklmnopqrstuvwxyzABCDEFGHIJKLMNOPQRSTUVWXYZ0123456789 ",
    " !\"#$%&'()*+,-./:;?@[]`|~=<>",            # '<' '>' '=' appear but never as '>=' / '<=' (filtered)
    "äöüßéèñçøåÆÐþÿ±×÷¿¡£¥§©®°µ¶·",
    "αβγδεζηθικλμνξοπρστυφχψωΑΒΓΔ",
    "—–‘’“”•…€™≤≥≠≈∞√∑∏∫",
    "中文日本語한국어АБВГДабвгд",
    "\t\r\x0b\x0c",
]


# ---- texts that look like a literal of some other kind (a number, a boolean, a missing-value word …) ----------------
# The property quantifies over texts, not over "texts that look like text": a whole text that some parser would accept
# as a number is still a text whose tokens are converted.  Families x decorations are enumerated systematically.
LITERAL_FAMILIES = {
    "int": ["0", "7", "12", "-3", "+7", "007", "1000000", "42"],
    "float": ["3.5", ".5", "5.", "-0.5", "+2.50", "0.001", "12.0"],
    "exp": ["1e3", "1E-3", "2.5e+5", "1e10", "-4E2", "6.02e23"],
    "grouped": ["1_000", "101_2", "1_0.5", "1e1_0", "7_8", "1_2_3", "0_0", "1_000.000_1", "-1_0", "1_0e-0_5"],
    "radix": ["0x1F", "0b101", "0o17", "0x1_f", "0X_FF", "0b1_0", "1f", "0xDEAD_BEEF"],
    "word": ["inf", "-inf", "+Inf", "nan", "NaN", "Infinity", "-infinity", "INF", "+nan"],
    "bool": ["True", "False", "true", "false", "None", "null", "NA", "NULL", "NaT", "yes", "no", "T", "F"],
    "complex": ["1j", "2+3j", "-1.5J", "1e2j", "(1+2j)"],
    "uni-digit": ["١٢", "１２", "१२", "１.５", "١_٢", "௧௨"],
    "near": ["1,000", "12%", "1/2", "2020-01-31", "12:30", "'12'", "[1]", "(1)", "1.2.3", "--1", "1e", "e1", "_1", "1_",
             "1__0", "1 000", "1e+", "0x", "in f", "1_e3", "1._5", "$12", "#12", "<5", ">5", "=5", "1=1", "- 1"],
}
LITERAL_BLANKS = [" ", "  ", "\t", "\n", "\r", "\r\n", "\xa0", "\u2003", "\u3000", " \n", "\n "]
LITERAL_COMMANDS = ["\\pm", "\\infty", "\\alpha", "\\times", "\\mu", "\\cdot", "\\leq", "\\approx", "\\foo", "\\mathbb{R}"]
LITERAL_DECOR = ["none", "sub", "sup", "group_", "group^", "lead-blank", "trail-blank", "lead-nl", "trail-nl", "inner-nl",
                 "ge", "le", "cmd", "pagekw", "both-blank", "sub+nl"]


def _digit_gaps(t):
    return [i for i in range(1, len(t)) if t[i - 1].isdigit() and t[i].isdigit()]


def literal_text(rng, family, decor):
    """a text of the given literal-like family carrying the given decoration (a conversion token or blanks)"""
    t = rng.choice(LITERAL_FAMILIES[family])
    num = rng.choice(["0", "1", "2", "10", "-3", "0.5", "1e3", "n"])
    if decor == "none":
        return t
    if decor == "sub":
        return t + "_" + num
    if decor == "sup":
        return t + "^" + num
    if decor in ("group_", "group^"):
        ch = decor[-1]
        gaps = _digit_gaps(t)
        if gaps:
            i = rng.choice(gaps)
            return t[:i] + ch + t[i:]
        return t + ch + rng.choice(["0", "1", "000", "2"])
    if decor == "lead-blank":
        return rng.choice(LITERAL_BLANKS) + t
    if decor == "trail-blank":
        return t + rng.choice(LITERAL_BLANKS)
    if decor == "both-blank":
        return rng.choice(LITERAL_BLANKS) + t + rng.choice(LITERAL_BLANKS)
    if decor == "lead-nl":
        return "\n" + t
    if decor == "trail-nl":
        return t + "\n"
    if decor == "inner-nl":
        i = rng.randrange(1, len(t)) if len(t) > 1 else 1
        return t[:i] + "\n" + t[i:]
    if decor == "sub+nl":
        return t + "_" + num + "\n"
    if decor == "ge":
        return rng.choice([">=" + t, t + ">=" + num, ">= " + t])
    if decor == "le":
        return rng.choice(["<=" + t, t + "<=" + num, "<= " + t])
    if decor == "cmd":
        c = rng.choice(LITERAL_COMMANDS)
        return rng.choice([c + " " + t, t + c + " " + num, t + " " + c, c + t if t[0].isdigit() or t[0] in "+-." else c + " " + t])
    if decor == "pagekw":
        k = rng.choice(["\\pagenumber", "\\totalpage", "\\pagefield"])
        return rng.choice([t + "/" + k, k + " " + t, t + " " + k, k])
    raise ValueError(decor)


def literal_plan():
    """every (family, decoration) pair, in a fixed order"""
    return [(f, d) for f in LITERAL_FAMILIES for d in LITERAL_DECOR]


def near_misses(rng, cmds, k):
    out = []
    letters = "abcdefghijklmnopqrstuvwxyzABCDEFGHIJKLMNOPQRSTUVWXYZ"
    for _ in range(k):
        c = rng.choice(cmds)
        how = rng.randrange(7)
        if how == 0 and len(c) > 2:
            c2 = c[:-1]
        elif how == 1:
            c2 = c + rng.choice(letters)
        elif how == 2:
            c2 = c.swapcase()
        elif how == 3 and len(c) > 2:
            i = rng.randrange(1, len(c))
            c2 = c[:i] + rng.choice(letters) + c[i + 1:]
        elif how == 4:
            c2 = "\\" + "".join(rng.choice(letters) for _ in range(rng.randint(1, 9)))
        elif how == 5:
            c2 = c + "{" + rng.choice(["", "x", "R", "1", " ", "ab"]) + "}"
        else:
            c2 = c.replace("{", "{ ") if "{" in c else "\\ " + c[1:]
        out.append(c2)
    return out


def unit_cases(seed, tier, cmds):
    """list of (label, text, conv)"""
    rng = sub_rng(seed, "c11unit")
    cases = []
    simple = [c for c in cmds if LATEX_RE.fullmatch(c)]
    # (a) every command x templates
    tmpls = TEMPLATES_CORE + (TEMPLATES_MORE if tier == "thorough" else [])
    for c in cmds:
        for tp in tmpls:
            cases.append(("cmd", tp.replace("§", c), True))
        if tier == "quick":
            for tp in rng.sample(TEMPLATES_MORE, 4):
                cases.append(("cmd", tp.replace("§", c), True))
        for tp in (TEMPLATES_IRREG if tier == "thorough" else rng.sample(TEMPLATES_IRREG, 1)):
            cases.append(("cmd-irregular", tp.replace("§", c), True))
        cases.append(("cmd-off", rng.choice(tmpls).replace("§", c), False))
    # (b) braced commands and variations
    braced = [c for c in cmds if "{" in c]
    for c in braced:
        head, arg = c.split("{", 1)
        arg = arg[:-1]
        for v in [c + "x", c + "}", c + "{", head + "{" + arg, head + " {" + arg + "}", head + "{" + arg + arg + "}", head + "{}",
                  head + "{{" + arg + "}", head + "{" + arg + " }", head + arg, head + "{" + arg + "}{" + arg + "}", "{" + c + "}",
                  head + "{" + arg.lower() + "}", head + "{" + arg.upper() + "}", c + c, c + "^2", head + "{\\alpha}",
                  head + "{^}", head + "{" + arg + "_1}", head + "\n{" + arg + "}"]:
            cases.append(("braced", v, True))
    # (c) unknown commands, near misses
    nm = near_misses(rng, cmds, 1500 if tier == "quick" else 30000)
    for c in nm:
        tp = rng.choice(TEMPLATES_CORE + TEMPLATES_MORE)
        cases.append(("unknown", tp.replace("§", c), True))
    # (d) special sequences: alone, in templates, ordered pairs, triples, partial forms
    for s in SPECIALS + PARTIALS:
        for tp in ["§", "a§b", "§§", " § ", "a§", "§b", "1§2", "{§}", "\\alpha§", "§\\alpha", "\\foo§", "§\\foo", "\\mathbb{R}§"]:
            cases.append(("special", tp.replace("§", s), True))
        cases.append(("special-off", "a" + s + "b", False))
    for a in SPECIALS + PARTIALS[:12]:
        for b in SPECIALS + PARTIALS[:12]:
            cases.append(("special-pair", a + b, True))
            cases.append(("special-pair", "x" + a + "y" + b + "z", True))
    for _ in range(400 if tier == "quick" else 8000):
        k = rng.randint(3, 6)
        cases.append(("special-seq", "".join(rng.choice(SPECIALS + PARTIALS + ["a", " ", "1"]) for _ in range(k)), True))
    # (e) random plain texts (no backslash, no ^ _ newline, no >= <=): must come out unchanged
    n_plain = 1500 if tier == "quick" else 40000
    for _ in range(n_plain):
        alpha = "".join(rng.sample(PLAIN_ALPHABETS, rng.randint(1, 3)))
        t = "".join(rng.choice(alpha) for _ in range(rng.randint(0, 40)))
        t = t.replace(">=", "> =").replace("<=", "< =")
        cases.append(("plain", t, rng.random() < 0.8))
    # (f) token soups
    soup = list("ab^_><=\n\\{} 1.") + ["\\alpha", "\\pagenumber", "\\totalpage", "\\pagefield", "\\mathbb{R}", "\\foo", ">=", "<=",
                                        "\\mathbb", "{R}", "\\geq", "\\super ", "\\pm", "é", "α", "\\mathcal{L}", "\\mathbb{\\pi}"]
    n_soup = 3000 if tier == "quick" else 100000
    for _ in range(n_soup):
        n = rng.randint(0, 10)
        toks = [rng.choice(soup) if rng.random() < 0.8 else rng.choice(cmds) for _ in range(n)]
        cases.append(("soup", "".join(toks), rng.random() < 0.9))
    # (g) regular-by-construction mixed texts (most cases must stay outside the known classes)
    words = ["Mean", "SD", "n", "x", "95%", "CI", "(N=10)", "p", "value", "-", "+", "/", ":", "and"]
    n_mix = 2500 if tier == "quick" else 40000
    for _ in range(n_mix):
        parts = []
        for _ in range(rng.randint(1, 7)):
            r = rng.random()
            if r < 0.35:
                parts.append(rng.choice(words))
            elif r < 0.6:
                parts.append(rng.choice(simple) + rng.choice([" ", " ", "", ",", ".", ")", "1", "^2", "_i"]))
            elif r < 0.7:
                parts.append(rng.choice(["x^2", "a_i", "H_0", "m^2", "e^x"]))
            elif r < 0.76:
                parts.append(rng.choice(braced))
            elif r < 0.82:
                parts.append(rng.choice(["\\pagenumber", "\\totalpage", "Page \\pagenumber of \\pagefield", "\\pagefield"]))
            elif r < 0.88:
                parts.append(rng.choice(["line one\nline two", "a\nb"]))
            elif r < 0.93:
                parts.append(rng.choice(nm))
            else:
                parts.append(rng.choice(["{x}", "[1]", "a\\b", "\\", "{", "}", "\\ "]))
        cases.append(("mixed", " ".join(parts), True))
    # (h) literal-like texts (numbers, digit groups, radix forms, inf/nan, booleans, …) x every decoration
    for fam, dec in literal_plan():
        for _ in range(3 if tier == "quick" else 12):
            cases.append(("literal", literal_text(rng, fam, dec), True))
        cases.append(("literal-off", literal_text(rng, fam, dec), False))
    # filter: the literal escape prefix and astral / surrogate characters stay outside (escaper's business)
    out = []
    seen = set()
    for lab, t, conv in cases:
        if "\\uc1\\u" in t or any(ord(ch) > 0xFFFF or 0xD800 <= ord(ch) <= 0xDFFF for ch in t):
            continue
        key = (t, conv)
        if key in seen:
            continue
        seen.add(key)
        out.append((lab, t, conv))
    return out


def judge_unit(res, known, table, lab, t, conv, ob, r, stats):
    """returns nothing; records failures / disagreements / known hits"""
    case = dict(level="unit", label=lab, t=cps(t), text=t, conv=conv)
    if ob[0] == "exc":
        res.fail(dict(case, observed=list(ob)), f"_convert_special_chars raised {ob[1]}: {ob[2]}")
        return
    out = ob[1]
    case["observed"] = out
    model = from_cps(r["model"])
    if model != out:
        res.disagree(dict(case, model=model), f"model {model!r} != implementation {out!r} for {t!r} (convert={conv})")
    if not conv:
        if out != t:
            res.fail(case, f"conversion off altered the text: {t!r} -> {out!r}")
        return
    irregular = r["irregular"]
    if r["regular"] != (not irregular):
        raise common.MachineryError(f"regular/irregular inconsistent on {t!r}")
    if r["holds_natural"]:
        if not r["obs_equal"]:
            raise common.MachineryError(f"readObs differs although strings agree on {t!r}")
        if not r["regular"]:
            stats["irregular_but_agree"] = stats.get("irregular_but_agree", 0) + 1
        return
    # the property is false of the implementation's output — is it one of the recorded classes, exactly?
    need = set()
    if not r["nocmp"]:
        need.add("C11-D15-blank-after-comparison")
    for k in irregular:
        need.add(KIND_FINDING[k])
    explained = False
    if r["regular"]:
        explained = (not r["nocmp"]) and r["holds_d15"]
    else:
        explained = out == reference_multipass(t, table)
    nat = from_cps(r["natural"])
    if explained and need and need <= known:
        for f in need:
            res.known_hits[f] = res.known_hits.get(f, 0) + 1
        return
    why = f"convert_special_chars({t!r}) = {out!r}, one-pass reading gives {nat!r}"
    if explained and need:
        why += f" [class {sorted(need)} — not listed in known_findings.json]"
    res.fail(dict(case, expected=nat, classes=sorted(need)), why)


def run_unit(res, known, table, cmds, corpus_cases=()):
    cases = [(c["label"], c["text"], c["conv"]) for c in corpus_cases] + unit_cases(res.seed, res.tier, cmds)
    obs = common.pool_map(_unit_worker, [(t, conv) for _, t, conv in cases], chunksize=512)
    if obs and obs[0][0] == "unavailable":
        res.notes.append("unit correspondence unavailable: " + obs[0][1])
        res.count("unit_unavailable", len(cases))
        return
    reqs = []
    for (lab, t, conv), o in zip(cases, obs):
        rq = dict(op="c11_convert", t=cps(t), conv=conv)
        if o[0] == "ok":
            rq["out"] = cps(o[1])
        reqs.append(rq)
    outs = common.driver_batch(reqs)
    stats = {}
    for (lab, t, conv), o, r in zip(cases, obs, outs):
        nt = None
        if conv and any(e[0] != "plain" for e in r.get("events", [])):
            nt = ("u", t)
        res.case(dict(level="unit", label=lab, text=t, conv=conv), nt)
        res.count("unit:" + lab)
        if conv:
            res.count("unit_regular" if r["regular"] else "unit_irregular")
            if not r["nocmp"]:
                res.count("unit_with_comparison")
        res.corr_checked += 1
        judge_unit(res, known, table, lab, t, conv, o, r, stats)
    # single-command oracle against the snapshot of the documented table
    snap = table
    single = [(t, o) for (lab, t, conv), o in zip(cases, obs) if lab == "cmd" and conv and t in snap and o[0] == "ok"]
    for t, o in single:
        if LATEX_RE.fullmatch(t) and o[1] != chr(snap[t]):
            res.fail(dict(level="unit", label="snapshot", text=t, t=cps(t), conv=True, observed=o[1], expected=chr(snap[t])),
                     f"documented command {t} → U+{snap[t]:04X}, implementation wrote {o[1]!r}")
    res.count("unit_snapshot_commands", len(single))
    for k, v in stats.items():
        res.count(k, v)


# ------------------------------------------------------------------ table echo (translator cross-check)

def check_tables(res, snap):
    from rtflite.core.constants import RTFConstants
    from rtflite.dictionary.unicode_latex import unicode_latex

    r = common.driver_batch([dict(op="c11_tables")])[0]
    rows = list(unicode_latex)
    if r["n_latex"] != len(rows) or r["sum_cp"] != sum(x[2] for x in rows) or r["sum_len"] != sum(len(x[1]) for x in rows):
        raise common.MachineryError("generated LaTeX table differs from the source tree's table (translator)")
    cm = [[cps(k), cps(v)] for k, v in RTFConstants.RTF_CHAR_MAPPING.items()]
    if r["char_mapping"] != cm:
        raise common.MachineryError("generated RTF_CHAR_MAPPING differs from the source tree's (translator)")
    # the source tree's tables against the documentation held by the verification
    if [[from_cps(k), from_cps(v)] for k, v in r["char_mapping"]] != [list(x) for x in DOC_MAPPING]:
        case = dict(level="table", table="RTF_CHAR_MAPPING", observed=[[from_cps(k), from_cps(v)] for k, v in r["char_mapping"]],
                    expected=[list(x) for x in DOC_MAPPING])
        res.disagree(case, "RTF_CHAR_MAPPING is not the documented token list in the documented order")
    cur = {x[1]: x[2] for x in rows}
    if cur != snap:
        diff = sorted(set(cur.items()) ^ set(snap.items()))[:6]
        res.disagree(dict(level="table", table="unicode_latex", differing_rows=diff),
                     f"unicode_latex differs from the documented snapshot: {diff}")
    res.count("table_rows_checked", len(rows))


# ------------------------------------------------------------------ observation level

DOC_SNIPPETS_ON = ["\\alpha", "a^b", "x_i", "\\beta\\gamma", "\\mathbb{R}", "\\pm 2", "\\foo", "\\Delta t", "m^2", "H_0", "\\mu g",
                   "\\pagenumber", "\\totalpage", "\\pagefield", "{x}", "100%", "a & b", "\\leq 5", "\\infty", "\\alphax",
                   "\\mathcal{L}", "(\\sigma)", "\\chi^2", "plain words"]
DOC_SNIPPETS_CMP = ["n>=3", "p<=q"]
COMP_KEYS = ["title", "subline", "page_header", "page_footer", "header", "body", "footnote", "source"]
DOC_DEFAULT = dict(title=True, subline=False, page_header=False, page_footer=False, header=True, body=True,
                   footnote=True, source=True)


def doc_text(rng, tag, cmp_rate):
    parts = [rng.choice(DOC_SNIPPETS_ON) for _ in range(rng.randint(1, 3))]
    if rng.random() < cmp_rate:
        parts.insert(rng.randrange(len(parts) + 1), rng.choice(DOC_SNIPPETS_CMP))
    return tag + " " + " ".join(parts)


def documented_flag(kind, user, i, j):
    """the documented meaning of a user-supplied text_convert at line/row i, column j (for a table component: row and
    column of the data frame / text row the user passed, whatever is removed, sliced or regrouped later)"""
    if user is None:
        return DOC_DEFAULT[kind]
    user = docgen.plain(user)       # spellings: tuple = one value per row, 2-D array / frame = matrix, 1-D = per column
    if isinstance(user, bool):
        return user
    if user and isinstance(user[0], list):          # matrix: row i, column j (recycled)
        row = user[i % len(user)]
        return row[j % len(row)]
    if kind in ("title", "subline", "page_header", "page_footer"):
        return user[i % len(user)]                  # one value per line
    return user[j % len(user)]                      # one value per column


def gen_doc(rng, tier):
    ncols = rng.randint(1, 3)
    nrows = rng.randint(1, 4)
    cmp_rate = 0.06
    spec = dict(kind="table")
    positions = []   # dict(kind, container, line, row, col, text)
    flags = {}

    def flag_choice(kind, nlines=1, ncol=1, nrow=1):
        r = rng.random()
        if r < 0.3:
            return None
        if r < 0.6:
            return rng.random() < 0.5
        if kind in ("title", "subline", "page_header", "page_footer"):
            return [rng.random() < 0.5 for _ in range(rng.choice([nlines, nlines, max(1, nlines - 1), nlines + 1]))]
        if kind == "header":
            return [rng.random() < 0.5 for _ in range(rng.choice([ncol, ncol, 1]))]
        if kind == "body":
            if rng.random() < 0.5:
                return [[rng.random() < 0.5 for _ in range(ncol)]]
            return [[rng.random() < 0.5 for _ in range(ncol)] for _ in range(rng.choice([nrow, nrow, 1, 2]))]
        return rng.random() < 0.5

    rows = [[doc_text(rng, f"B{i}x{j}", cmp_rate) for j in range(ncols)] for i in range(nrows)]
    spec["df"] = dict(cols=[f"c{j}" for j in range(ncols)], rows=rows)
    fb = flag_choice("body", ncol=ncols, nrow=nrows)
    flags["body"] = fb
    spec["body"] = {} if fb is None else dict(text_convert=fb)
    for i in range(nrows):
        for j in range(ncols):
            positions.append(dict(kind="body", container=f"B{i}x{j}", line=0, row=i, col=j, text=rows[i][j]))
    htexts = [doc_text(rng, f"H{j}", cmp_rate) for j in range(ncols)]
    fh = flag_choice("header", ncol=ncols)
    flags["header"] = fh
    spec["headers"] = [dict(text=htexts, **({} if fh is None else dict(text_convert=fh)))]
    for j in range(ncols):
        positions.append(dict(kind="header", container=f"H{j}", line=0, row=0, col=j, text=htexts[j]))
    for kind, key, tagc in (("title", "title", "T"), ("subline", "subline", "S"), ("page_header", "page_header", "P"),
                            ("page_footer", "page_footer", "Q")):
        if rng.random() < 0.8:
            nl = rng.choice([1, 1, 2, 3])
            texts = [doc_text(rng, f"{tagc}{k}", cmp_rate) for k in range(nl)]
            f = flag_choice(kind, nlines=nl)
            flags[kind] = f
            spec[key] = dict(text=texts, **({} if f is None else dict(text_convert=f)))
            for k in range(nl):
                positions.append(dict(kind=kind, container=f"{tagc}0", line=k, row=k, col=0, text=texts[k]))
    for kind, tagc in (("footnote", "F"), ("source", "R")):
        if rng.random() < 0.8:
            text = doc_text(rng, f"{tagc}0", cmp_rate)
            f = flag_choice(kind)
            flags[kind] = f
            kw = dict(text=text, **({} if f is None else dict(text_convert=f)))
            if rng.random() < 0.4:
                kw["as_table"] = rng.random() < 0.5
            spec[kind] = kw
            positions.append(dict(kind=kind, container=f"{tagc}0", line=0, row=0, col=0, text=text))
    for p in positions:
        p["want"] = documented_flag(p["kind"], flags.get(p["kind"]), p["row"], p["col"])
    return dict(spec=spec, positions=positions, flags={k: v for k, v in flags.items()})


def gen_literal_doc(rng, k):
    """one-page table whose texts are literal-like (LITERAL_FAMILIES x LITERAL_DECOR, pair k of the plan) and carry NO
    tag: in mode `same` one text stands in every position kind (title, subline, page header/footer, column header cell,
    page_by group heading, body cell, footnote and source as table row or as paragraph), in mode `mixed` every position
    draws its own.  Positions are identified by their ordinal place in the output (`layout`)."""
    plan = literal_plan()
    fam, dec = plan[k % len(plan)]
    mode = "same" if rng.random() < 0.5 else "mixed"
    base = literal_text(rng, fam, dec)

    def text():
        if mode == "same":
            return base
        if rng.random() < 0.65:
            return literal_text(rng, fam, dec)
        f2, d2 = rng.choice(plan)
        return literal_text(rng, f2, d2)

    def bools(n, p=0.6):
        return [rng.random() < p for _ in range(n)]

    ncols = rng.randint(1, 3)
    nrows = rng.randint(1, 5)
    grouped = rng.random() < 0.4
    spec = dict(kind="table")
    positions, flags, layout = [], {}, []

    def lines_flag(nl):
        r = rng.random()
        if r < 0.25:
            return None
        if r < 0.55:
            return rng.random() < 0.7
        return bools(rng.choice([nl, nl, 1, nl + 1]))

    # title-like components (one paragraph each, lines joined by a line break)
    for kind, tagc in (("page_header", "P"), ("page_footer", "Q"), ("title", "T"), ("subline", "S")):
        if rng.random() < 0.85:
            nl = rng.choice([1, 1, 2])
            texts = [text() for _ in range(nl)]
            f = lines_flag(nl)
            flags[kind] = f
            spec[kind] = dict(text=texts, **({} if f is None else dict(text_convert=f)))
            layout.append(f"{tagc}0")
            for i in range(nl):
                positions.append(dict(kind=kind, container=f"{tagc}0", line=i, row=i, col=0, text=texts[i]))
    # column header: one row, one cell per displayed column
    htexts = [text() for _ in range(ncols)]
    r = rng.random()
    fh = None if r < 0.25 else (rng.random() < 0.7) if r < 0.5 else bools(rng.choice([ncols, ncols, 1]))
    flags["header"] = fh
    spec["headers"] = [dict(text=htexts, **({} if fh is None else dict(text_convert=fh)))]
    for j in range(ncols):
        layout.append(f"H{j}")
        positions.append(dict(kind="header", container=f"H{j}", line=0, row=0, col=j, text=htexts[j]))
    # body (optionally with a page_by column whose values become spanning group headings)
    off = 1 if grouped else 0
    width = ncols + off
    rows = [[text() for _ in range(ncols)] for _ in range(nrows)]
    r = rng.random()
    if r < 0.25:
        fb = None
    elif r < 0.45:
        fb = rng.random() < 0.7
    elif r < 0.65:
        fb = bools(width)                                  # one value per column
    elif r < 0.8 or grouped:
        fb = [bools(width)]                                # one row
    else:
        fb = [bools(width) for _ in range(rng.choice([nrows, nrows, 2]))]
    flags["body"] = fb
    body_kw = {} if fb is None else dict(text_convert=fb)
    if grouped:
        # group keys: runs of equal values, distinct between runs (all equal when the draw repeats a value)
        keys, run = [], None
        for i in range(nrows):
            if run is None or rng.random() < 0.4:
                run = text()
            keys.append(run)
        seen, prev, ok = set(), object(), True
        for v in keys:
            if v != prev:
                ok = ok and v not in seen
                seen.add(v)
                prev = v
        if not ok or any(v.strip("-") == "" for v in keys):
            keys = [base if base.strip("-") else "g" + base] * nrows
        rows = [[keys[i]] + rows[i] for i in range(nrows)]
        body_kw["page_by"] = ["g"]
        spec["df"] = dict(cols=["g"] + [f"c{j}" for j in range(ncols)], rows=rows)
    else:
        spec["df"] = dict(cols=[f"c{j}" for j in range(ncols)], rows=rows)
    spec["body"] = body_kw
    ngroup = 0
    for i in range(nrows):
        if grouped and (i == 0 or rows[i][0] != rows[i - 1][0]):
            tag = f"G{ngroup}"
            ngroup += 1
            layout.append(tag)
            positions.append(dict(kind="body", role="group-heading", container=tag, line=0, row=0, col=0, text=rows[i][0]))
        for j in range(ncols):
            tag = f"B{i}x{j}"
            layout.append(tag)
            positions.append(dict(kind="body", container=tag, line=0, row=i, col=j + off, text=rows[i][j + off]))
    # footnote / source: a one-cell table row (as_table=True) or a paragraph
    for kind, tagc in (("footnote", "F"), ("source", "R")):
        if rng.random() < 0.85:
            t = text()
            r = rng.random()
            f = None if r < 0.35 else (rng.random() < 0.7)
            flags[kind] = f
            kw = dict(text=t, **({} if f is None else dict(text_convert=f)))
            r = rng.random()
            if r < 0.7:
                kw["as_table"] = r < 0.35
            spec[kind] = kw
            layout.append(f"{tagc}0")
            positions.append(dict(kind=kind, container=f"{tagc}0", line=0, row=0, col=0, text=t,
                                  role=("as-table" if kw.get("as_table", kind == "footnote") else "as-paragraph")))
    for p in positions:
        p["want"] = documented_flag(p["kind"], flags.get(p["kind"]), p["row"], p["col"])
    return dict(spec=spec, positions=positions, flags=flags, layout=layout,
                literal=dict(family=fam, decor=dec, mode=mode, grouped=grouped))


# ---- structured documents: grouping / pagination / sections  x  row-wise and full-matrix text_convert --------------
# The flag of a table cell is the user's value at the cell's OWN (row, column) of the data frame.  The renderer cuts the
# frame up before it reaches the cell builder: columns are removed (page_by shown as spanning rows, subline_by), rows
# are sliced per page, a page with several page_by groups is encoded segment by segment between the group headings
# (`_encode(segment, …, row_offset=…)`), group_by blanks repeats and restores them at page starts, a multi-section
# document has one frame and one body per section.  This family draws every such structure with a text_convert that
# differs BETWEEN ROWS (row-wise nested list, tuple = one value per row, full / cyclic matrix, 2-D array, frame of
# booleans — and, as a minority, per column / scalar / default), and tagged convertible texts in every cell, so that a
# cell which takes the flag of another row (the row at the same offset from the top of the page / of the segment / of
# the section, the displayed instead of the original column, …) reads differently from its one-pass reading.

STRUCT_PLAN = ["page_by", "page_by", "page_by2", "page_by_first_row", "page_by_column", "subline", "subline_page_by",
               "group_by", "group_by_page_by", "plain", "multi", "page_by", "multi"]
STRUCT_SHAPES = ["rowwise", "rowwise", "tuple", "matrix", "matrix", "cyclic", "frame", "ndarray", "col", "scalar", "default"]


def _runs_of(rng, n, prefix, lo, hi, alphabet=None):
    """n key values in contiguous runs; consecutive runs differ (`prefix<serial>`, or drawn from a small alphabet so
    that equal values recur under different outer groups)"""
    out, k, prev = [], 0, None
    while len(out) < n:
        if alphabet:
            v = rng.choice([a for a in alphabet if a != prev])
        else:
            v = f"{prefix}{k}"
        out += [v] * rng.randint(lo, hi)
        prev = v
        k += 1
    return out[:n]


def struct_flags(rng, shape, n, ncols, const_cols, want_const):
    """a body text_convert of the given shape over an n x ncols frame → (value, const): `const` says that the
    columns `const_cols` (the page_by columns, whose heading shows ONE text for many rows) carry one flag for all rows"""
    def bit():
        return rng.random() < 0.5

    if shape == "default":
        return None, True
    if shape == "scalar":
        return bit(), True
    if shape == "col":
        m = rng.choice([ncols, ncols, max(1, ncols - 1)])
        v = [bit() for _ in range(m)]
        if m >= 2 and len(set(v)) == 1:
            v[rng.randrange(m)] ^= True
        return v, True
    f = [bit() for _ in range(n)]
    if n >= 2 and len(set(f)) == 1:
        f[rng.randrange(n)] ^= True
    if shape == "tuple":
        return {"__tuple__": f}, False
    if shape == "rowwise":
        mat = [[f[i]] * ncols for i in range(n)]
    else:
        m = rng.randint(2, n - 1) if shape == "cyclic" and n >= 3 else n
        mat = [[bit() for _ in range(ncols)] for _ in range(m)]
        if m >= 2 and all(r == mat[0] for r in mat):
            mat[rng.randrange(1, m)] = [not x for x in mat[0]]
    const = bool(want_const)
    if const:
        for c in const_cols:
            for r in mat:
                r[c] = mat[0][c]
    else:
        const = all(r[c] == mat[0][c] for c in const_cols for r in mat)
    if shape == "frame":
        return {"__frame__": mat}, const
    if shape == "ndarray":
        return {"__ndarray__": mat}, const
    return mat, const


def _struct_section(rng, kind, shape, base, sec):
    """one frame + body (+ header row) of a structured document → (frame, body kwargs, header kwargs | None, meta)"""
    n = rng.choice([2, 3, 4, 5, 6, 7, 8, 9, 10, 12, 14, 18, 24])
    ndata = rng.randint(1, 3)
    cols = [f"c{j}" for j in range(ndata)]
    body, keys = {}, {}
    page_by = []
    if kind in ("subline", "subline_page_by"):
        keys["s0"] = _runs_of(rng, n, "SB", 2, 8)
        body["subline_by"] = ["s0"]
    if kind.startswith("page_by") or kind in ("subline_page_by", "group_by_page_by"):
        page_by = ["g0", "g1"] if kind == "page_by2" else ["g0"]
        body["page_by"] = page_by
        if kind == "page_by_first_row":
            body.update(new_page=True, pageby_row="first_row")
        elif kind == "page_by_column":
            body.update(new_page=True, pageby_row="column")
        elif rng.random() < 0.3:
            body["pageby_header"] = rng.random() < 0.5
    if kind in ("group_by", "group_by_page_by"):
        keys["k0"] = _runs_of(rng, n, "K", 1, 4)
        body["group_by"] = ["k0"]
    for name in list(keys) + page_by:
        cols.insert(rng.randint(0, len(cols)), name)
    ncols = len(cols)
    pcs = [cols.index(c) for c in page_by]
    fb, const = struct_flags(rng, shape, n, ncols, pcs, rng.random() < 0.5)
    if fb is not None:
        body["text_convert"] = fb
    # page_by values: short runs, so that several groups share a page; they carry conversion tokens when the flag of
    # their column does not depend on the row (the heading is one text for all rows of its group)
    gp = "G" if sec is None else f"G{sec}"          # heading tags are distinct between sections
    if page_by:
        if "s0" in keys:
            # page_by groups nest in the subline_by groups
            outer = keys["s0"]
            vals, i = [], 0
            while i < n:
                j = i
                while j < n and outer[j] == outer[i]:
                    j += 1
                vals += _runs_of(rng, j - i, "", 1, 3, alphabet=[f"{gp}o{x}" for x in "abcd"])
                i = j
        else:
            vals = _runs_of(rng, n, f"{gp}v", 1, 4 if len(page_by) == 1 else 6)
        keys["g0"] = vals
        if len(page_by) == 2:
            inner, i = [], 0
            while i < n:
                j = i
                while j < n and vals[j] == vals[i]:
                    j += 1
                inner += _runs_of(rng, j - i, "", 1, 3, alphabet=[f"{gp}i{x}" for x in "abc"])
                i = j
            keys["g1"] = inner
        if const and rng.random() < 0.8:
            deco = {}
            for name in page_by:
                for v in keys[name]:
                    if v not in deco:
                        deco[v] = doc_text(rng, v, 0.05)
                keys[name] = [deco[v] for v in keys[name]]
    rows = []
    for i in range(n):
        row = []
        for c, name in enumerate(cols):
            if name in keys:
                row.append(keys[name][i])
            elif rng.random() < 0.12:
                row.append(f"B{base + i}x{c} plain")
            else:
                row.append(doc_text(rng, f"B{base + i}x{c}", 0.05))
        rows.append(row)
    spanning = bool(page_by) and not (body.get("new_page") and body.get("pageby_row") == "column")
    removed = set(body.get("subline_by", [])) | (set(page_by) if spanning else set())
    shown = [c for c in cols if c not in removed]
    header = None
    if rng.random() < 0.7:
        htag = f"H{'' if sec is None else sec}x"
        header = dict(text=[doc_text(rng, f"{htag}{j}", 0.05) for j in range(len(shown))])
        r = rng.random()
        if r < 0.5:
            header["text_convert"] = [rng.random() < 0.5 for _ in range(rng.choice([len(shown), len(shown), 1]))]
        elif r < 0.7:
            header["text_convert"] = rng.random() < 0.5
    meta = dict(kind=kind, shape=shape, n=n, heading_tokens=bool(page_by) and " " in keys[page_by[0]][0])
    return dict(cols=cols, rows=rows), body, header, meta


def gen_struct_doc(rng, k):
    """a structured document (STRUCT_PLAN x STRUCT_SHAPES, all pairs over 143 consecutive k)"""
    kind = STRUCT_PLAN[k % len(STRUCT_PLAN)]
    shape = STRUCT_SHAPES[k % len(STRUCT_SHAPES)]
    spec = dict(kind="table")
    metas = []
    if kind == "multi":
        frames, bodies, headers, base = [], [], [], 0
        for s in range(rng.randint(2, 3)):
            skind = rng.choice(["page_by", "page_by", "page_by2", "subline", "plain", "group_by"])
            fr, body, header, meta = _struct_section(rng, skind, shape if s == 0 else rng.choice(STRUCT_SHAPES), base, s)
            frames.append(fr)
            bodies.append(body)
            headers.append([header])
            metas.append(meta)
            base += len(fr["rows"])
        spec.update(kind="multi", df=frames, body=bodies, headers=headers)
    else:
        fr, body, header, meta = _struct_section(rng, kind, shape, 0, None)
        spec.update(df=fr, body=body, headers=[header] if header else [])
        metas.append(meta)
    page = dict(nrow=rng.choice([10, 12, 14, 16, 20, 28, 40]))
    for key in ("page_title", "page_footnote", "page_source"):
        if rng.random() < 0.5:
            page[key] = rng.choice(["first", "last", "all"])
    spec["page"] = page
    for key, tagc in (("title", "T"), ("subline", "S"), ("page_header", "P"), ("page_footer", "Q")):
        if rng.random() < 0.4:
            nl = rng.choice([1, 1, 2])
            comp = dict(text=[doc_text(rng, f"{tagc}{i}", 0.05) for i in range(nl)])
            r = rng.random()
            if r < 0.3:
                comp["text_convert"] = rng.random() < 0.5
            elif r < 0.6:
                comp["text_convert"] = [rng.random() < 0.5 for _ in range(nl)]
            spec[key] = comp
    for key, tagc in (("footnote", "F"), ("source", "R")):
        if rng.random() < 0.4:
            comp = dict(text=doc_text(rng, f"{tagc}0", 0.05))
            if rng.random() < 0.5:
                comp["text_convert"] = rng.random() < 0.5
            if rng.random() < 0.5:
                comp["as_table"] = rng.random() < 0.5
            spec[key] = comp
    return struct_case(spec, dict(kind=kind, shape=shape, sections=metas))


def _tag_of(text):
    return text.split(" ", 1)[0]


def struct_case(spec, meta):
    """the check's case of a structured document: every text position, derived from the spec alone (tag = first word of
    the text; a text without a blank carries no tokens and is not a position).  Positions marked `multi` may stand on
    several pages (headings, column headers, title …): every occurrence must read as expected; a body cell stands
    exactly once."""
    positions, flags = [], {}
    multi = spec.get("kind") == "multi"
    frames = spec["df"] if multi else [spec["df"]]
    bodies = spec["body"] if multi else [spec.get("body") or {}]
    hdrs = spec.get("headers") or []
    for s, (fr, body) in enumerate(zip(frames, bodies)):
        fk = f"body#{s}" if multi else "body"
        flags[fk] = body.get("text_convert")
        page_by = body.get("page_by") or []
        spanning = bool(page_by) and not (body.get("new_page") and body.get("pageby_row") == "column")
        skip = set(body.get("subline_by") or []) | set(body.get("group_by") or [])
        seen = set()
        for i, row in enumerate(fr["rows"]):
            for c, name in enumerate(fr["cols"]):
                t = row[c]
                if name in skip or not isinstance(t, str) or " " not in t:
                    continue
                if name in page_by:
                    # one text for all rows of the group: a spanning heading row (flag read at the page_by column) or a
                    # cell per row of a displayed page_by column
                    if t not in seen:
                        seen.add(t)
                        positions.append(dict(kind="body", fk=fk, role="group-heading" if spanning else "page_by-cell",
                                              container=_tag_of(t), line=0, row=0 if spanning else i, col=c, text=t, multi=True))
                    continue
                positions.append(dict(kind="body", fk=fk, container=_tag_of(t), line=0, row=i, col=c, text=t))
        h = hdrs[s] if s < len(hdrs) else None
        if multi and isinstance(h, list):
            h = h[0] if h else None
        if h:
            hk = f"header#{s}" if multi else "header"
            flags[hk] = h.get("text_convert")
            for j, t in enumerate(h["text"]):
                positions.append(dict(kind="header", fk=hk, container=_tag_of(t), line=0, row=0, col=j, text=t, multi=True))
    for kind in ("title", "subline", "page_header", "page_footer"):
        comp = spec.get(kind)
        if comp:
            flags[kind] = comp.get("text_convert")
            texts = comp["text"] if isinstance(comp["text"], list) else [comp["text"]]
            for i, t in enumerate(texts):
                positions.append(dict(kind=kind, container=_tag_of(texts[0]), line=i, row=i, col=0, text=t, multi=True))
    for kind in ("footnote", "source"):
        comp = spec.get(kind)
        if comp:
            flags[kind] = comp.get("text_convert")
            positions.append(dict(kind=kind, container=_tag_of(comp["text"]), line=0, row=0, col=0, text=comp["text"], multi=True))
    for p in positions:
        p["want"] = documented_flag(p["kind"], flags.get(p.get("fk", p["kind"])), p["row"], p["col"])
    return dict(spec=spec, positions=positions, flags=flags, struct=meta)


def _flagval_json(v):
    if isinstance(v, tuple):
        if all(isinstance(x, bool) for x in v):
            return dict(tuple=list(v))
        return None
    if isinstance(v, list):
        if v and all(isinstance(x, list) for x in v):
            return dict(nested=[list(x) for x in v])
        if all(isinstance(x, bool) for x in v):
            return dict(flat=list(v))
    return None


def _merge_runs(para):
    out = []
    for r in para.runs:
        key = (bool(r.props.get("super")), bool(r.props.get("sub")))
        text = rtfread.fix_surrogates(r.text)
        if out and out[-1][1:] == list(key):
            out[-1][0] += text
        else:
            out.append([text, key[0], key[1]])
    unk = [list(x) for x in para.props.get("_unknown", [])]
    return dict(runs=out, unknown=unk)


def _containers(doc, where=None):
    """all paragraphs and cells of a read document, merged; `where` (a list) receives the place of each: (page, block
    of the page, cell of the row) — page −1 for the page header / footer"""
    out = []
    where = [] if where is None else where
    for h in doc.headers + doc.footers:
        for p in h:
            out.append(_merge_runs(p))
            where.append([-1, 0, 0])
    for pn, pg in enumerate(doc.pages):
        for bn, b in enumerate(pg.blocks):
            if b.kind == "row":
                for cn, c in enumerate(b.cells):
                    out.append(_merge_runs(c))
                    where.append([pn, bn, cn])
            elif b.kind in ("para", "loose"):
                out.append(_merge_runs(b))
                where.append([pn, bn, -1])
    return out


def rtf_escape(s: str) -> str:
    out = []
    for ch in s:
        o = ord(ch)
        if o < 128:
            out.append(ch)
        else:
            b = ch.encode("utf-16-le", "surrogatepass")
            for k in range(0, len(b), 2):
                cu = b[k] | (b[k + 1] << 8)
                out.append("\\uc1\\u%d*" % (cu - 65536 if cu >= 32768 else cu))
    return "".join(out)


def read_expected(lines):
    """the reading of a paragraph whose lines carry the given run contents"""
    body = "\\line".join("\\fs18{\\f0 " + rtf_escape(x) + "}" for x in lines)
    doc = rtfread.read("{\\rtf1\\ansi\\deff0{\\pard " + body + "\\par}}")
    cs = _containers(doc)
    return cs[0] if cs else dict(runs=[], unknown=[])


def _doc_worker(case):
    import contextlib
    import io
    spec = case["spec"]
    try:
        with contextlib.redirect_stdout(io.StringIO()):
            d = docgen.build(spec)
    except Exception as e:  # noqa: BLE001
        return dict(status="construct-error", exc=docgen.classify_exc(e), msg=str(e)[:300])
    held = {}
    try:
        comp = dict(title=d.rtf_title, subline=d.rtf_subline, page_header=d.rtf_page_header, page_footer=d.rtf_page_footer,
                    body=d.rtf_body, footnote=d.rtf_footnote, source=d.rtf_source)
        hdr = d.rtf_column_header
        if spec.get("kind") == "multi":
            # one body and one (first) column header row per section
            for s_, b_ in enumerate(d.rtf_body if isinstance(d.rtf_body, list) else [d.rtf_body]):
                comp[f"body#{s_}"] = b_
            for s_, h_ in enumerate(hdr if isinstance(hdr, list) else []):
                while isinstance(h_, list) and h_:
                    h_ = h_[0]
                comp[f"header#{s_}"] = h_ if not isinstance(h_, list) else None
        while isinstance(hdr, list) and hdr:
            hdr = hdr[0]
        comp["header"] = hdr
        for k, o in comp.items():
            if o is not None and hasattr(o, "text_convert"):
                held[k] = _flagval_json(o.text_convert)
    except Exception as e:  # noqa: BLE001
        held = {"_error": f"{type(e).__name__}: {e}"}
    try:
        with contextlib.redirect_stdout(io.StringIO()):
            s = d.rtf_encode()
    except Exception as e:  # noqa: BLE001
        return dict(status="encode-error", exc=docgen.classify_exc(e), msg=str(e)[:300])
    try:
        doc = rtfread.read(s)
    except rtfread.RtfError as e:
        return dict(status="unreadable", msg=str(e))
    where = []
    return dict(status="ok", containers=_containers(doc, where), where=where, held=held)


def _find_container(containers, tag):
    hits = [c for c in containers if "".join(r[0] for r in c["runs"]).lstrip().startswith(tag + " ")]
    return hits


def judge_doc(res, known, table, case, ob, drv_flags, drv_texts):
    """drv_flags[i], drv_texts[i] belong to case['positions'][i]"""
    cjson = dict(level="doc", spec=case["spec"], positions=case["positions"], flags=case["flags"])
    layout = case.get("layout")
    if layout is not None:
        cjson["layout"] = layout
    if case.get("struct") is not None:
        cjson["struct"] = case["struct"]
    if ob["status"] != "ok":
        res.fail(cjson, f"document in the property's domain failed: {ob}")
        return
    if layout is not None and len(ob["containers"]) != len(layout):
        res.fail(cjson, f"the document has {len(layout)} text positions {layout}, the output shows {len(ob['containers'])} "
                        f"paragraphs/cells: {[''.join(r[0] for r in c['runs']) for c in ob['containers']]}")
        return
    # group positions by container
    groups = {}
    for i, p in enumerate(case["positions"]):
        groups.setdefault(p["container"], []).append(i)
    for tag, idxs in groups.items():
        ps = [case["positions"][i] for i in idxs]
        hits = [ob["containers"][layout.index(tag)]] if layout is not None else _find_container(ob["containers"], tag)
        # a position may stand on several pages (`multi`: repeated headings, column headers, titles …): at least once,
        # and every occurrence is judged; any other position stands exactly once
        if not hits or (len(hits) != 1 and not all(p.get("multi") for p in ps)):
            res.fail(cjson, f"text position {tag} found {len(hits)} times in the output")
            return
        fkey = ps[0].get("fk", ps[0]["kind"])
        # flags: documented meaning vs model on the constructed value
        for i, p in zip(idxs, ps):
            mf = drv_flags[i]
            if mf is None:
                res.disagree(cjson, f"model has no flag for {p['kind']} at ({p['row']},{p['col']}) held={ob['held'].get(fkey)}")
            elif mf != p["want"]:
                res.disagree(cjson, f"model flag {mf} != documented meaning {p['want']} for {p['kind']} "
                                    f"value {case['flags'].get(fkey)!r} at ({p['row']},{p['col']}), held {ob['held'].get(fkey)}")
        exp_nat, exp_d15, exp_model, exp_ref = [], [], [], []
        need = set()
        for i, p in zip(idxs, ps):
            r = drv_texts[i]
            if p["want"]:
                exp_nat.append(from_cps(r["natural"]))
                exp_d15.append(from_cps(r["d15"]))
                exp_ref.append(reference_multipass(p["text"], table))
                if not r["nocmp"]:
                    need.add("C11-D15-blank-after-comparison")
                for k in r["irregular"]:
                    need.add(KIND_FINDING[k])
            else:
                exp_nat.append(p["text"])
                exp_d15.append(p["text"])
                exp_ref.append(p["text"])
            exp_model.append(from_cps(r["model"]))
        try:
            want_nat = read_expected(exp_nat)
            want_model = read_expected(exp_model)
            want_ref = read_expected(exp_ref)
        except rtfread.RtfError as e:
            raise common.MachineryError(f"expected paragraph unreadable: {e}")
        for got in hits:
            if got != want_model:
                res.disagree(cjson, f"{tag}: observed {got} != reading of the model's text {want_model}")
            if got == want_nat:
                continue
            if need and need <= known and got == want_ref:
                for f in need:
                    res.known_hits[f] = res.known_hits.get(f, 0) + 1
                continue
            where = ""
            if ps[0]["kind"] == "body" and case.get("struct") is not None:
                where = f" at frame position (row {ps[0]['row']}, column {ps[0]['col']})" + \
                        (f" [{ps[0]['role']}]" if ps[0].get("role") else "")
            why = (f"{ps[0]['kind']} position {tag}{where} (text_convert={case['flags'].get(fkey)!r}, flags wanted "
                   f"{[p['want'] for p in ps]}): read back {got}, the one-pass reading of {[p['text'] for p in ps]} is {want_nat}")
            if need and got == want_ref:
                why += f" [class {sorted(need)} — not listed in known_findings.json]"
            if case.get("struct") is not None:
                conv_read = read_expected([reference_multipass(p["text"], table) for p in ps])
                raw_read = read_expected([p["text"] for p in ps])
                if conv_read != raw_read and not any(p["want"] for p in ps) and got == conv_read:
                    why += "; the position's own flag is off, yet it reads as converted"
                elif conv_read != raw_read and all(p["want"] for p in ps) and got == raw_read:
                    why += "; the position's own flag is on, yet it reads verbatim"
            if layout is not None:
                # the same text in another position whose flag is on as well: what does it read there?
                for tag2, idxs2 in groups.items():
                    ps2 = [case["positions"][i] for i in idxs2]
                    if tag2 != tag and [p["text"] for p in ps2] == [p["text"] for p in ps] and \
                            [p["want"] for p in ps2] == [p["want"] for p in ps]:
                        got2 = ob["containers"][layout.index(tag2)]
                        if got2 != got:
                            why += f"; the same text with the same flags in {ps2[0]['kind']} position {tag2} reads {got2}"
                            break
            res.fail(cjson, why)
            return


def _drive_docs(cases, obs):
    """driver answers for the positions of every case: {case index: ([flag...], [text record...])}"""
    reqs = []
    index = []
    for ci, (c, o) in enumerate(zip(cases, obs)):
        for pi, p in enumerate(c["positions"]):
            held = (o.get("held") or {}).get(p.get("fk", p["kind"])) if o["status"] == "ok" else None
            rq = dict(op="c11_flag", r=p["row"], c=p["col"])
            if held is not None:
                rq["val"] = held
            else:
                rq["comp"] = p["kind"]
            reqs.append(rq)
            reqs.append(dict(op="c11_convert", t=cps(p["text"]), conv=bool(p["want"])))
            index.append((ci, pi))
    outs = common.driver_batch(reqs) if reqs else []
    per_case = {}
    for k, (ci, pi) in enumerate(index):
        fl = outs[2 * k]["flag"]
        tx = outs[2 * k + 1]
        if not cases[ci]["positions"][pi]["want"]:
            tx = dict(tx, natural=cps(cases[ci]["positions"][pi]["text"]), d15=cps(cases[ci]["positions"][pi]["text"]),
                      nocmp=True, irregular=[])
        per_case.setdefault(ci, ([], []))
        per_case[ci][0].append(fl)
        per_case[ci][1].append(tx)
    return per_case


def _reduce_literal(case, drop=None, row=None):
    """a smaller untagged document: without the optional component `drop`, or with body row `row` only"""
    import copy
    c = copy.deepcopy(case)
    spec, flags = c["spec"], c["flags"]
    if drop is not None:
        if spec.get(drop) is None:
            return None
        spec.pop(drop)
        flags.pop(drop, None)
        positions = [p for p in c["positions"] if p["kind"] != drop]
    else:
        rows = spec["df"]["rows"]
        if len(rows) < 2 or not 0 <= row < len(rows):
            return None
        spec["df"]["rows"] = [rows[row]]
        grouped = "page_by" in (spec.get("body") or {})
        off = 1 if grouped else 0
        body = []
        if grouped:
            body.append(dict(kind="body", role="group-heading", container="G0", line=0, row=0, col=0, text=rows[row][0]))
        for j in range(len(rows[row]) - off):
            body.append(dict(kind="body", container=f"B0x{j}", line=0, row=0, col=j + off, text=rows[row][j + off]))
        positions, done = [], False
        for p in c["positions"]:
            if p["kind"] == "body":
                if not done:
                    positions += body
                    done = True
            else:
                positions.append(p)
    for p in positions:
        p["want"] = documented_flag(p["kind"], flags.get(p["kind"]), p["row"], p["col"])
    layout = []
    for p in positions:
        if p["container"] not in layout:
            layout.append(p["container"])
    c.update(positions=positions, layout=layout)
    return c


def _observe(cases):
    """`_doc_worker` over the cases, in worker processes — never inline in the parent of a check (a parent that has run
    polars code must not fork another pool: common.assert_fork_safe)"""
    cases = list(cases)
    if not cases:
        return []
    pad = cases + [cases[-1]] * max(0, 4 - len(cases))
    return common.pool_map(_doc_worker, pad, chunksize=1)[:len(cases)]


def _failures_of(known, table, cands):
    """the failures `judge_doc` records for each candidate document (one batch of workers, one driver batch)"""
    obs = _observe(cands)
    per = _drive_docs(cands, obs)
    out = []
    for ci, (c, o) in enumerate(zip(cands, obs)):
        tmp = common.Result("C11", "quick", 0)
        judge_doc(tmp, known, table, c, o, *per.get(ci, ([], [])))
        out.append(tmp.failures)
    return out


def shrink_literal(known, table, case):
    """greedy reduction of a failing untagged document (drop optional components, keep one body row);
    returns (case, failures) of the smallest still-failing document, or None"""
    def failing(c):
        return _failures_of(known, table, [c])[0]

    cur, cur_f = case, None
    for kind in ("page_header", "page_footer", "title", "subline", "footnote", "source"):
        cand = _reduce_literal(cur, drop=kind)
        if cand is not None:
            f = failing(cand)
            if f:
                cur, cur_f = cand, f
    for i in range(len(cur["spec"]["df"]["rows"])):
        cand = _reduce_literal(cur, row=i)
        if cand is not None:
            f = failing(cand)
            if f:
                cur, cur_f = cand, f
                break
    return (cur, cur_f) if cur_f else None


def _struct_variant(case, edit):
    """the structured case whose spec is `edit(copy of the spec)` (None when the edit does not apply)"""
    import copy
    spec = copy.deepcopy(case["spec"])
    if edit(spec) is False:
        return None
    return struct_case(spec, dict(case["struct"], reduced=True))


def _full_matrix(case, fk, fr):
    """the body's text_convert written out as the full nested list over the frame (same flag at every cell)"""
    v = case["flags"].get(fk)
    return [[documented_flag("body", v, i, c) for c in range(len(fr["cols"]))] for i in range(len(fr["rows"]))]


def shrink_struct(known, table, case):
    """reduction of a failing structured document: drop optional components, write the body's text_convert out as a
    full matrix, remove blocks of rows (with their matrix rows), remove data columns; every candidate of a round is
    rendered in one batch of worker processes.  Returns (case, failures) of the smallest still-failing one, or None"""
    cur, cur_f = case, None
    rounds = [0]

    def step(cands):
        nonlocal cur, cur_f
        cands = [c for c in cands if c is not None]
        rounds[0] += 1
        if not cands or rounds[0] > 150:          # (every accepted step makes the document smaller; the bound is a fuse)
            return False
        for c, f in zip(cands, _failures_of(known, table, cands)):
            if f:
                cur, cur_f = c, f
                return True
        return False

    def drop(key):
        def edit(spec):
            if key == "headers":
                if spec["kind"] == "multi":
                    if all(h in (None, [None], []) for h in spec.get("headers") or []):
                        return False
                    spec["headers"] = [[None] for _ in spec["df"]]
                else:
                    if not spec.get("headers"):
                        return False
                    spec["headers"] = []
            elif key == "page":
                page = spec.get("page") or {}
                if set(page) <= {"nrow"}:
                    return False
                spec["page"] = dict(nrow=page["nrow"])
            else:
                if spec.get(key) is None:
                    return False
                spec.pop(key)
        return edit

    while step([_struct_variant(cur, drop(k)) for k in ("page_header", "page_footer", "title", "subline", "footnote",
                                                         "source", "headers", "page")]):
        pass
    if cur["spec"]["kind"] != "table":
        return (cur, cur_f) if cur_f else None

    def full(spec):
        if spec["body"].get("text_convert") is None:
            return False
        spec["body"]["text_convert"] = _full_matrix(cur, "body", spec["df"])
    step([_struct_variant(cur, full)])
    full_ok = isinstance(cur["spec"]["body"].get("text_convert"), list) and \
        len(cur["spec"]["body"]["text_convert"]) == len(cur["spec"]["df"]["rows"]) and \
        all(isinstance(r, list) and len(r) == len(cur["spec"]["df"]["cols"]) for r in cur["spec"]["body"]["text_convert"])

    def cut_rows(a, b):
        def edit(spec):
            rows = spec["df"]["rows"]
            if b - a >= len(rows):
                return False
            del rows[a:b]
            if full_ok:
                del spec["body"]["text_convert"][a:b]
        return edit

    if full_ok or cur["spec"]["body"].get("text_convert") is None or isinstance(cur["spec"]["body"].get("text_convert"), bool):
        chunk = max(1, len(cur["spec"]["df"]["rows"]) // 2)
        while chunk >= 1:
            n = len(cur["spec"]["df"]["rows"])
            if not step([_struct_variant(cur, cut_rows(a, min(n, a + chunk))) for a in range(0, n, chunk)]):
                chunk //= 2
            else:
                chunk = min(chunk, max(1, len(cur["spec"]["df"]["rows"]) // 2))

    def cut_col(c):
        def edit(spec):
            if spec.get("headers"):
                return False
            for r in spec["df"]["rows"]:
                del r[c]
            del spec["df"]["cols"][c]
            if full_ok:
                for r in spec["body"]["text_convert"]:
                    del r[c]
        return edit

    if full_ok:
        while step([_struct_variant(cur, cut_col(c)) for c, name in enumerate(cur["spec"]["df"]["cols"])
                    if name.startswith("c") and sum(x.startswith("c") for x in cur["spec"]["df"]["cols"]) > 1]):
            pass
    return (cur, cur_f) if cur_f else None


_BTAG = re.compile(r"^\s*B(\d+)x(\d+) ")


def struct_profile(case, ob):
    """what the OUTPUT of a structured document shows about the input class: number of pages; (page, section) pairs
    whose data rows stand in several segments (separated by heading rows); body cells of a later segment whose own flag
    differs from the flag of the row at the same offset from the top of the segment (counted from the page's first
    row); body cells of a later page whose own flag differs from the flag of the row at the same offset from the top
    of the page (counted from the section's first row)"""
    prof = dict(pages=0, seg_pages=0, seg_shift_cells=0, page_shift_cells=0)
    if ob.get("status") != "ok":
        return prof
    bypos = {p["container"]: p for p in case["positions"] if p["kind"] == "body" and not p.get("multi")}
    pages = {}
    for cont, (pn, bn, cn) in zip(ob["containers"], ob["where"]):
        if pn < 0:
            continue
        pages.setdefault(pn, {})
        m = _BTAG.match("".join(r[0] for r in cont["runs"])) if cn >= 0 else None
        blk = pages[pn].setdefault(bn, dict(row=cn >= 0, cells=[]))
        if m:
            p = bypos.get(f"B{m.group(1)}x{m.group(2)}")
            if p is not None:
                blk["cells"].append(p)
    prof["pages"] = len(pages)
    for pn in sorted(pages):
        start = {}          # section → (frame row of the page's first data row)
        seg = {}            # section → [block of the previous data row, page-relative index, index of the segment start]
        nseg = {}
        for bn in sorted(pages[pn]):
            blk = pages[pn][bn]
            if not blk["cells"]:
                continue
            fk = blk["cells"][0].get("fk", "body")
            i = blk["cells"][0]["row"]
            start.setdefault(fk, i)
            if fk not in seg:
                seg[fk] = [bn, 0, 0]
                nseg[fk] = 1
            else:
                last, rel, s0 = seg[fk]
                rel += 1
                # any row or paragraph between two data rows starts a new segment
                if any(last < b < bn for b in pages[pn]):
                    s0 = rel
                    nseg[fk] += 1
                seg[fk] = [bn, rel, s0]
            _, rel, s0 = seg[fk]
            user = case["flags"].get(fk)
            for p in blk["cells"]:
                if s0 > 0 and documented_flag("body", user, start[fk] + rel - s0, p["col"]) != p["want"]:
                    prof["seg_shift_cells"] += 1
                if start[fk] > 0 and documented_flag("body", user, rel, p["col"]) != p["want"]:
                    prof["page_shift_cells"] += 1
        prof["seg_pages"] += sum(1 for v in nseg.values() if v > 1)
    return prof


def run_docs(res, known, table, corpus_docs=()):
    ndocs = 160 if res.tier == "quick" else 2200
    nlit = 240 if res.tier == "quick" else 2400
    nstruct = 286 if res.tier == "quick" else 2860
    cases = list(corpus_docs) + [gen_doc(sub_rng(res.seed, "c11doc", k), res.tier) for k in range(ndocs)]
    cases += [gen_literal_doc(sub_rng(res.seed, "c11litdoc", k), k) for k in range(nlit)]
    cases += [gen_struct_doc(sub_rng(res.seed, "c11struct", k), k) for k in range(nstruct)]
    obs = common.pool_map(_doc_worker, cases, chunksize=4)
    per_case = _drive_docs(cases, obs)
    shrunk = set()
    for ci, (c, o) in enumerate(zip(cases, obs)):
        fl, tx = per_case.get(ci, ([], []))
        nondefault = any(p["want"] != DOC_DEFAULT[p["kind"]] for p in c["positions"])
        nt = ("d", json.dumps(c["flags"], sort_keys=True), tuple(p["text"] for p in c["positions"])) if nondefault else None
        res.case(dict(level="doc", spec=c["spec"], flags=c["flags"]), nt)
        res.count("doc")
        for k, v in c["flags"].items():
            spelled = next((m.strip("_") for m in docgen.MARKERS if isinstance(v, dict) and m in v), None)
            v = docgen.plain(v)
            shape = ("default" if v is None else "scalar" if isinstance(v, bool) else
                     "matrix" if v and isinstance(v[0], list) and len(v) > 1 else
                     "row" if v and isinstance(v[0], list) else "list")
            res.count(f"doc_flag:{k.split('#')[0]}:{shape}{'(' + spelled + ')' if spelled else ''}")
        for p in c["positions"]:
            res.count(f"doc_pos:{p['kind']}:{'on' if p['want'] else 'off'}")
            if c.get("layout") is not None:
                res.count(f"doc_literal_pos:{p['kind']}{':' + p['role'] if p.get('role') else ''}:{'on' if p['want'] else 'off'}")
        if c.get("literal"):
            lit = c["literal"]
            res.count("doc_literal")
            res.count(f"doc_literal:{lit['family']}:{lit['decor']}")
            res.count(f"doc_literal_mode:{lit['mode']}{'+page_by' if lit['grouped'] else ''}")
        if c.get("struct"):
            st = c["struct"]
            res.count("doc_struct")
            res.count(f"doc_struct:{st['kind']}")
            res.count(f"doc_struct:{st['kind']}:{st['shape']}")
            for sec in st.get("sections", []):
                if st["kind"] == "multi":
                    res.count(f"doc_struct_section:{sec['kind']}:{sec['shape']}")
                if sec.get("heading_tokens"):
                    res.count("doc_struct_section_with_convertible_heading_text")
            for p in c["positions"]:
                if p["kind"] == "body":
                    res.count(f"doc_struct_pos:body{':' + p['role'] if p.get('role') else ''}:{'on' if p['want'] else 'off'}")
            prof = struct_profile(c, o)
            if prof["pages"] > 1:
                res.count("doc_struct_multipage")
            if prof["seg_pages"]:
                res.count("doc_struct_with_page_of_several_segments")
                res.count("doc_struct_pages_of_several_segments", prof["seg_pages"])
            if prof["seg_shift_cells"]:
                res.count("doc_struct_with_cell_whose_flag_differs_from_the_row_at_its_segment_offset")
                res.count("doc_struct_cells_whose_flag_differs_from_the_row_at_their_segment_offset", prof["seg_shift_cells"])
            if prof["page_shift_cells"]:
                res.count("doc_struct_with_cell_whose_flag_differs_from_the_row_at_its_page_offset")
                res.count("doc_struct_cells_whose_flag_differs_from_the_row_at_their_page_offset", prof["page_shift_cells"])
        res.corr_checked += 1
        nfail = len(res.failures)
        judge_doc(res, known, table, c, o, fl, tx)
        family = "literal" if c.get("layout") is not None else "struct" if c.get("struct") else None
        if len(res.failures) > nfail and family and family not in shrunk:
            # the first failing document of a family is reported in its reduced form as well (listed first)
            shrunk.add(family)
            try:
                small = shrink_literal(known, table, c) if family == "literal" else shrink_struct(known, table, c)
            except common.MachineryError:
                raise
            except Exception as e:  # noqa: BLE001
                res.notes.append(f"shrinking failed: {type(e).__name__}: {e}")
                small = None
            if small is not None:
                res.failures.insert(nfail, small[1][0])


# ------------------------------------------------------------------ known findings

def known_ids():
    return {e.get("id") for e in common.known_findings("C11") if e.get("id") in FINDINGS}


def reconfirm_known(known, table):
    """re-run each listed finding's stored input; one KNOWN-FINDING line while it still deviates"""
    lines = []
    for fid in sorted(known):
        t = FINDINGS[fid]["input"]
        ob = common.isolated(_unit_worker, (t, True))
        r = common.driver_batch([dict(op="c11_convert", t=cps(t), conv=True, **({"out": cps(ob[1])} if ob[0] == "ok" else {}))])[0]
        if ob[0] == "ok" and not r["holds_natural"]:
            lines.append(f"KNOWN-FINDING: property=C11 id={fid} input={t!r} output={ob[1]!r} expected={from_cps(r['natural'])!r} "
                         f"— {FINDINGS[fid]['what']}")
    return lines


# ------------------------------------------------------------------ entry points

def load_corpus():
    units, docs = [], []
    d = common.CORPUS / "C11"
    if d.exists():
        for f in sorted(d.glob("*.json")):
            if f.name == "latex_table.json":
                continue
            c = json.loads(f.read_text())
            c = c.get("case", c)
            if c.get("level") == "unit":
                units.append(dict(label=c.get("label", "corpus"), text=c.get("text") or from_cps(c["t"]), conv=c["conv"]))
            elif c.get("level") == "doc":
                docs.append(dict(spec=c["spec"], positions=c["positions"], flags=c["flags"],
                                 **({"layout": c["layout"]} if c.get("layout") is not None else {}),
                                 **({"struct": c["struct"]} if c.get("struct") is not None else {})))
    return units, docs


def run(res: common.Result, build) -> int:
    from rtflite.dictionary.unicode_latex import unicode_latex

    table = snapshot_table()
    cmds = [r[1] for r in unicode_latex]
    known = known_ids()
    units, docs = load_corpus()
    check_tables(res, table)
    run_unit(res, known, table, cmds, units)
    run_docs(res, known, table, docs)
    res.exhaustive = False
    res.extra["commands_covered"] = len(cmds)
    # report the smallest failing input first (unit cases before documents, shorter texts first)
    res.failures.sort(key=lambda cw: (cw[0].get("level") != "unit", len(cw[0].get("text") or ""), cw[0].get("label") != "snapshot"))
    res.disagreements.sort(key=lambda cw: (cw[0].get("level") == "doc", len(cw[0].get("text") or "")))
    klines = reconfirm_known(known, table)
    return common.finish(
        res, build, RULE, TRUSTED, ASSUME,
        explanation="C11_literal_passes_one_pass (all texts), C11_conversion_upto_D15 / C11_conversion_partial (all regular "
                    "texts, by induction), C11_supported_commands (every nameable row of the table), C11_conversion_off, "
                    "C11_per_position, C11_position_independent, C11enc_data_flag_binding / C11enc_segment_offset / "
                    "C11enc_segment_cell_flag (a cell of any page, segment or section is converted under the flag at its "
                    "own row and column; C02encflag_cell_own_flag), C11_backslash_free_regular / "
                    "C11_conversion_backslash_free (number-like texts), C11_defaults; ¬C11_full by the witnesses a>=b, \\mathbb{^}, \\alpha\\pagefield, "
                    "\\alpha{\\pagefield. Table facts are decide +kernel obligations over the regenerated tables.",
        known_lines=klines)


def replay(payload) -> int:
    case = payload.get("case") or {}
    table = snapshot_table()
    known = known_ids()
    tmp = common.Result("C11", "quick", 0)
    if payload.get("kind") == "unchecked":
        broken = payload.get("broken") or []
        corr = [b for b in broken if b.get("kind") == "correspondence"]
        case = corr[0]["case"] if corr else {}
        bad = False
        if any(b.get("kind") == "proof-obligation" for b in broken):
            build = common.build_all("C11")
            if not build["proof_ok"]:
                print("proof obligations of Props/C11.lean do not check against the current tree:")
                print("\n".join(l for l in build["log"].splitlines() if "error" in l)[:1500])
                bad = True
            else:
                print("proof obligations check:", len(build["discharged"]), "theorems")
        if not case or case.get("level") == "table":
            check_tables(tmp, table)
            for _, why in tmp.disagreements:
                print("DISAGREE:", why)
            bad = bad or bool(tmp.disagreements)
            if bad:
                print("VIOLATION property=C11 replay=<given> no-failing-input-found")
                return 1
            print("tables and proof obligations agree with the documentation")
            return 0
        if bad:
            print("VIOLATION property=C11 replay=<given> no-failing-input-found")
            return 1
    if case.get("level") == "unit":
        t = case.get("text") if case.get("text") is not None else from_cps(case["t"])
        conv = case["conv"]
        ob = common.isolated(_unit_worker, (t, conv))
        rq = dict(op="c11_convert", t=cps(t), conv=conv)
        if ob[0] == "ok":
            rq["out"] = cps(ob[1])
        r = common.driver_batch([rq])[0]
        print("text           :", repr(t), "convert =", conv)
        print("implementation :", repr(ob[1]) if ob[0] == "ok" else ob)
        print("model          :", repr(from_cps(r["model"])))
        if conv:
            print("one-pass spec  :", r["events"])
            print("natural render :", repr(from_cps(r["natural"])))
            print("regular / nocmp:", r["regular"], r["nocmp"], "irregular kinds:", r["irregular"])
        if case.get("label") == "snapshot":
            bad = ob[0] != "ok" or ob[1] != chr(table[t])
            if bad:
                print(f"FAIL: documented {t} → U+{table[t]:04X}")
        else:
            judge_unit(tmp, known, table, case.get("label", "replay"), t, conv, ob, r, {})
            bad = bool(tmp.failures)
            for _, why in tmp.failures:
                print("FAIL:", why)
            for _, why in tmp.disagreements:
                print("DISAGREE:", why)
            bad = bad or bool(tmp.disagreements)
    elif case.get("level") == "doc":
        c = dict(spec=case["spec"], positions=case["positions"], flags=case["flags"],
                 **({"layout": case["layout"]} if case.get("layout") is not None else {}),
                 **({"struct": case["struct"]} if case.get("struct") is not None else {}))
        saved_tier = tmp.tier
        o = _observe([c])[0]
        fl, tx = _drive_docs([c], [o]).get(0, ([], []))
        judge_doc(tmp, known, table, c, o, fl, tx)
        if c.get("struct") is not None:
            print("structure      :", json.dumps(c["struct"]), "| output:", struct_profile(c, o))
        for _, why in tmp.failures:
            print("FAIL:", why)
        for _, why in tmp.disagreements:
            print("DISAGREE:", why)
        bad = bool(tmp.failures or tmp.disagreements)
        _ = saved_tier
    else:
        print("replay file carries no case")
        return 2
    if bad:
        print("VIOLATION property=C11 replay=<given>")
        return 1
    if tmp.known_hits:
        print("KNOWN-FINDING: property=C11 deviation of the recorded classes", sorted(tmp.known_hits))
        return 0
    print("property holds on this input")
    return 0
