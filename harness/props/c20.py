"""C20 — string width measurement is consistent.

Theorems: lean/Props/C20.lean about `Model.StrWidth.getStringWidth` (metric algebra for all strings, all sizes,
all dpi > 0; L2 table hypotheses for every size from font-unit facts decided on the generated font tables).

Tie to the code on every run (the real `rtflite.get_string_width` is the only thing called):

  oracle   the relations of the statement evaluated on the implementation: empty -> 0, non-negative, exact unit
           conversions (Lean predicate `unitsOK`, relative tolerance 1e-12 because the code divides floats), number == name
           (exact), prefix chain never decreases (Lean `chainOK`), size scaling within 1 % (Lean `scaleOK`, on the
           documented domain), monospace = count x advance (Lean `monoOK`), unsupported font / unit => ValueError.
  L1       additive model with script runs: tables A (single characters) and K (pairs, K = w(ab) - w(a) - w(b)) are
           *measured* with the real function, the driver evaluates the L1 fold on random strings of length >= 3 and the
           value must equal the real call exactly (26.6 fixed point).  For selected (font, size) the tables are
           measured exhaustively over the alphabet and the theorems' hypotheses (0 <= A g, 0 <= A b + K a b) are
           checked on them by the Lean predicate `tableViolations`.
  L2       Liberation faces: widths computed from the generated font tables with FreeType/HarfBuzz rounding must equal
           Pillow's exactly — random strings at random (also fractional) sizes, and every alphabet pair in the
           exhaustive slices.
  model    the whole `getStringWidth` model (font resolution, error order, unit conversion on exact rationals) against
           the real call, valid and invalid arguments.
  values   every argument over Python value TYPES (None, bool, int, float incl. nan/inf, str incl. case variants and
           near misses, bytes, tuple, frozenset, complex, numpy scalars; list / dict / set / ndarray): the Lean
           specification `expected` (Props/C20val.lean: proved of the value-level model `getStringWidthV` for all
           values) says what the statement demands of the call — ValueError for an unsupported font or unit WHATEVER
           ITS TYPE, a width for supported ones, either for other types equal to a supported value — and the Lean
           predicate `meets` is evaluated on what the real function did.  Not judged (recorded with what happened,
           listed in the evidence): unhashable fonts / units (TypeError from the dictionary lookup on the unchanged
           tree) and calls whose text / size / dpi lie outside the statement's quantifier.
"""
from __future__ import annotations

import re
import unicodedata
from fractions import Fraction

from .. import common
from ..common import sub_rng

# ------------------------------------------------------------------ constants of the check

UNIT_TOL = Fraction(1, 10 ** 12)      # relative tolerance of the unit-conversion relation (float division in the code)
SCALE_MIN_LEN = 5                      # statistical scaling domain: iid strings of at least this many characters ...
SCALE_MIN_SIZE = 6.0                   # ... at sizes >= 6 pt (observed worst case 0.64 % in 1.6 M samples at 6..8 pt)
SCALE_GUARANTEED_MEAN_PX = 3.35        # guaranteed domain: measured mean advance >= 3.35 px at both sizes
                                       # (implies the hypothesis 212*upem*|t| <= n*units of C20_scaling_partial)

# the ten RTF fonts as documented (FontName literal order == RTF font table); kept here on purpose: the oracle's
# pairing number <-> name must not come from the function under test
FONT_NAMES = {1: "Times New Roman", 2: "Times New Roman Greek", 3: "Arial Greek", 4: "Arial", 5: "Helvetica",
              6: "Calibri", 7: "Georgia", 8: "Cambria", 9: "Courier New", 10: "Symbol"}
MONO_FONT = 9
UNITS = ("in", "mm", "px")

RULE = ("oracle: (text, font 1..10 by number and by documented name, size 4..48 integer/quarter/64th/3-decimal, unit, dpi "
        "36..600); texts over the 325 printable characters of ASCII + Latin-1 + Greek block (Unicode categories C* "
        "excluded, hence no U+00AD), iid / words / mixed-script with brackets / repeated characters / Greek only, "
        "length 0..40; non-trivial = at least 3 characters and positive width; distinct by (font, size, text). "
        "L1/L2: strings of length >= 3 per (font, size); exhaustive slices = all 325 single characters and all "
        "105 625 ordered pairs of one (font, size). "
        "values: (text, font, font_size, unit, dpi) each over Python value types — None, bool, int, float (integral, "
        "fractional, nan, inf), str (empty, case variants, one-edit near misses of the supported names, names of the "
        "other argument), bytes, tuple, frozenset, complex, numpy int / float / bool / str scalars, and the unhashable "
        "list / dict / set / ndarray / tuple-of-list; a seed-independent grid (every canonical value as font, as unit "
        "under a font by number and by name, every unsupported font type x every unsupported unit type) plus random "
        "calls; judged when text is a str, size a real number in 4..48 and dpi one in 36..600 (int, float, numpy "
        "scalar) and font and unit are hashable; non-trivial = judged, distinct by (demand, font, unit, size type, "
        "dpi type).")
TRUSTED = [
    "Lean 4.33 kernel; axioms ⊆ {propext, Classical.choice, Quot.sound} (audited per theorem on every run)",
    "Lean compiler for the driver executable (compiled evaluation agrees with kernel reduction)",
    "harness/translate.py gen_fonts: fontTools reads unitsPerEm, cmap, hmtx, legacy kern of the bundled TTF files "
    "(cross-checked on every run against the driver's echo of the generated tables)",
    "Unicode script property and general category as shipped with fontTools / CPython (alphabet and script runs)",
]
ASSUME = [
    "Pillow -> libraqm -> HarfBuzz -> FreeType is a parameter of the theorems; that it behaves as L1 (all fonts) and "
    "L2 (Liberation faces) is sampled by the correspondence on every run, not proved",
    "L1 (pairwise additivity) is claimed per font only for strings over the characters whose glyph no default-on "
    "GSUB lookup and no contextual GPOS lookup of that font touches (set derived from the font file by the "
    "translator: none excluded for the Liberation faces, 139 / 77 / 58 of 325 for Carlito / Gelasio / Caladea); "
    "ligatures, contextual alternates and localized forms are HarfBuzz behaviour outside the model class",
    "floats are modelled as exact rationals; the unit relations are compared with relative tolerance 1e-12",
    "size scaling within 1 % is asserted on the documented domain only (guaranteed: mean advance >= 3.35 px at both "
    "sizes, sizes on the 1/64 grid; statistical: iid strings of >= 5 characters at sizes >= 6); it is false at "
    "smaller sizes for narrow glyphs (C20_scaling_witness)",
    "monospace clause excludes U+0374, U+0375, U+037A, which have advance 0 in Liberation Mono (C20_mono_witness)",
    "refusal clause over value types: an unhashable font or unit (list, dict, set, numpy.ndarray, a tuple containing "
    "one) raises TypeError from the dictionary lookup on the unchanged tree (C20_val_unhashable_font / _unit); these "
    "classes and calls whose text / font_size / dpi lie outside the statement's quantifier are recorded, not judged; "
    "a value of another type that equals a supported one (True, 4.0, numpy.int64(4), numpy.str_('Arial')) may be "
    "accepted or refused with ValueError",
]
MANIFEST = dict(
    text="Lean theorems over the model of get_string_width: for all strings (induction), all sizes, all dpi > 0 and "
         "all advance/kerning tables — empty string 0, non-negativity and append-monotonicity from two table "
         "hypotheses, exact unit conversions, number ≡ name (table lemma), monospace = count × advance, error cases "
         "(typed model, and in Props/C20val for every Python value class of every argument: unsupported font or unit "
         "of any type ⇒ ValueError, C20_val_expected); "
         "for the generated Liberation/Carlito/Caladea/Gelasio tables the two hypotheses are derived for every size "
         "from font-unit facts decided by the kernel, plus a size-scaling error bound (≤ 1.05/64 px per character) "
         "giving the 1 % relation under an explicit mean-advance hypothesis. PARTIAL: Pillow/HarfBuzz/FreeType are "
         "tied to the model by sampling only (L1 additivity with script runs for all ten fonts, exact L2 tables for "
         "the Liberation faces); the monospace and scaling clauses are proved with explicit exclusions and refuted "
         "as literally stated by kernel-checked witnesses.",
    note="Runtime behaviour not exhibited by the model: HarfBuzz shaping (ligatures, contextual forms, default "
         "ignorables such as U+00AD), FreeType hinting, float rounding; what Pillow / FreeType / numpy do with "
         "arguments outside the statement's quantifier (Stage.unmodelled). Font tables regenerated from the TTF files "
         "with fontTools on every run. The refusal clause is checked over value types of every argument (None, bool, "
         "int, float, str, bytes, tuple, numpy scalars, …), not only unsupported strings and out-of-range ints.",
    technique="Lean 4 proof (induction over strings, fixed-point arithmetic, decide +kernel on generated font "
              "tables) + differential correspondence model/implementation + relation oracle on the implementation",
    design="7/C20",
)

# ------------------------------------------------------------------ alphabet, generators


def alphabet() -> list[str]:
    from ..translate import font_alphabet

    return [chr(c) for c in font_alphabet()]


_ALPHA = None


def alpha():
    global _ALPHA
    if _ALPHA is None:
        _ALPHA = alphabet()
    return _ALPHA


MONO_ZERO = {"ʹ", "͵", "ͺ"}
WORDS = ["Treatment", "Placebo", "n", "(%)", "Mean", "(SD)", "95%", "CI", "p-value", "<0.001", "Adverse", "Events",
         "Subjects", "with", "at", "least", "one", "TEAE", "Grade", ">=3", "µg/mL", "±", "α", "β-blocker", "Total",
         "[a]", "{b}", "«c»", "AV", "To", "Yo", "fi", "ffl", "--", "12.5", "N=100"]


def gen_size(rng) -> float:
    r = rng.random()
    if r < 0.35:
        return float(rng.randint(4, 48))
    if r < 0.6:
        return rng.randint(16, 192) / 4
    if r < 0.8:
        return rng.randint(256, 3072) / 64
    return round(rng.uniform(4, 48), 3)


def gen_dpi(rng) -> float:
    r = rng.random()
    if r < 0.5:
        return float(rng.choice([36, 72, 96, 120, 144, 150, 300, 600]))
    return round(rng.uniform(36, 600), 2)


def gen_text(rng, lo=0, hi=40, mode=None) -> tuple[str, str]:
    a = alpha()
    mode = mode or rng.choice(["iid", "iid", "iid", "iid", "iid", "words", "mixed", "rep", "greek", "latin1"])
    n = rng.randint(lo, hi) if rng.random() < 0.85 else rng.randint(lo, max(lo, min(hi, 6)))
    if mode == "iid":
        t = "".join(rng.choice(a) for _ in range(n))
    elif mode == "words":
        t = ""
        while len(t) < n:
            t += rng.choice(WORDS) + rng.choice([" ", " ", "", ", "])
        t = t[:n]
    elif mode == "mixed":
        lat = [c for c in a if c.isalpha() and ord(c) < 0x250]
        grk = [c for c in a if ord(c) >= 0x370]
        com = list(" .,;:-()[]{}«»<>'\"!?/0123456789")
        t = ""
        while len(t) < n:
            pool = rng.choice([lat, grk, com, com])
            t += "".join(rng.choice(pool) for _ in range(rng.randint(1, 4)))
        t = t[:n]
    elif mode == "rep":
        sub = rng.sample(a, rng.choice([1, 1, 2]))
        t = "".join(rng.choice(sub) for _ in range(n))
    elif mode == "greek":
        grk = [c for c in a if ord(c) >= 0x370] + [" ", ",", "."]
        t = "".join(rng.choice(grk) for _ in range(n))
    else:
        l1 = [c for c in a if ord(c) < 0x100]
        t = "".join(rng.choice(l1) for _ in range(n))
    return t, mode


def l1_text(rng, ctx: set, lo: int, hi: int) -> tuple[str, int]:
    """a text inside the L1 model class of a font: characters touched by the font's default-on substitution /
    contextual lookups (`ctx`, derived from the font file by the translator) are deleted; returns (text, deleted)"""
    while True:
        t, _ = gen_text(rng, lo, hi)
        u = "".join(c for c in t if ord(c) not in ctx)
        if len(u) >= lo:
            return u, len(t) - len(u)


def frac(x: float) -> list[int]:
    n, d = Fraction(x).as_integer_ratio() if not isinstance(x, Fraction) else (x.numerator, x.denominator)
    return [n, d]


def cps(t: str) -> list[int]:
    return [ord(c) for c in t]


# ------------------------------------------------------------------ workers (real rtflite)


def _gsw():
    from rtflite.strwidth import get_string_width

    return get_string_width


def _call(args):
    """one guarded call -> ('ok', float) | ('err', exception class name, message)"""
    w = _gsw()
    try:
        v = w(*args)
        return ("ok", v)
    except Exception as e:  # noqa: BLE001
        return ("err", type(e).__name__, str(e)[:120])


def _oracle_worker(case):
    """all observations one oracle case needs"""
    w = _gsw()
    t, k, s, u, dpi = case["text"], case["font"], case["size"], case["unit"], case["dpi"]
    name = FONT_NAMES[k]
    out = {}
    try:
        out["num"] = {x: w(t, k, s, x, dpi) for x in UNITS}
        out["name"] = {x: w(t, name, s, x, dpi) for x in UNITS}
        out["empty"] = w("", k if case["by_num"] else name, s, u, dpi)
        # the same text again at another resolution, in the same process: the pixel width does not depend on dpi and
        # the unit relations hold at the second dpi as well (whatever was measured before)
        if case.get("dpi2") is not None:
            out["num2"] = {x: w(t, k, s, x, case["dpi2"]) for x in UNITS}
        cuts = case["cuts"]
        out["chain_px"] = [w(t[:i], k, s, "px", dpi) for i in cuts]
        out["chain_u"] = [w(t[:i], name, s, u, dpi) for i in cuts]
        if case.get("size2") is not None:
            out["px2"] = w(t, k, case["size2"], "px", dpi)
        if k == MONO_FONT and t:
            out["singles"] = {c: w(c, k, s, "px", dpi) for c in sorted(set(t))}
    except Exception as e:  # noqa: BLE001
        out["exc"] = f"{type(e).__name__}: {e}"[:200]
    return out


def _table_worker(job):
    """exhaustive slice: all pairs a+b for one left character; returns [(b, w(ab)*64)] as ints"""
    w = _gsw()
    font, size, a, alph = job
    return [int(round(w(a + b, font, size, "px") * 64 * 4096)) for b in alph]  # x4096: detect non-26.6 values


def _widths_worker(job):
    """px widths (x64, exact ints where 26.6) of a list of texts at one (font, size)"""
    w = _gsw()
    font, size, texts = job
    out = []
    for t in texts:
        v = w(t, font, size, "px") * 64
        out.append(v)
    return out


def _model_worker(call):
    return _call((call["text"], call["font"], call["size"], call["unit"], call["dpi"]))


# ------------------------------------------------------------------ translator cross-check


def check_tables_echo(res):
    """the generated tables the driver was compiled with == what fontTools reads now"""
    from .. import translate

    echo = common.driver_batch([dict(op="sw_tables")])[0]
    d = translate.font_dir()
    files = translate.font_files()
    got = {f["file"]: f for f in echo["fonts"]}
    if list(got) != files:
        raise common.MachineryError(f"generated font list {list(got)} != fonts_mapping {files}")
    for rel in files:
        fd = translate.read_font(d / rel)
        g = got[rel]
        exp = dict(upem=fd["upem"], notdef=fd["notdef"], glyphs=len(fd["glyphs"]),
                   adv_sum=sum(a for _, _, a in fd["glyphs"]), kern=len(fd["kern"]),
                   kern_sum=sum(v for _, _, v in fd["kern"]))
        for key, v in exp.items():
            if g[key] != v:
                raise common.MachineryError(f"generated table of {rel}: {key} {g[key]} != {v} (stale build?)")
    if [c for c, _ in echo["alphabet"]] != translate.font_alphabet():
        raise common.MachineryError("generated alphabet differs from translate.font_alphabet()")
    res.extra["font_tables"] = {f["file"]: dict(upem=f["upem"], glyphs=f["glyphs"], kern_pairs=f["kern"],
                                                l2=f["is_l2"], shaping_touched_chars=len(f["ctx"])) for f in echo["fonts"]}
    return echo


# ------------------------------------------------------------------ oracle stream


def oracle_cases(res, n):
    cases = []
    for i in range(n):
        rng = sub_rng(res.seed, "c20o", i)
        k = rng.randint(1, 10)
        t, mode = gen_text(rng)
        if k == MONO_FONT:
            t = "".join(c for c in t if c not in MONO_ZERO)   # recorded finding; see findings stream
        s = gen_size(rng)
        L = len(t)
        if L <= 12:
            cuts = list(range(L + 1))
        else:
            cuts = sorted(set([0, L] + [rng.randint(1, L - 1) for _ in range(8)] + [L - 1]))
        c = dict(level="oracle", text=t, mode=mode, font=k, size=s, unit=rng.choice(UNITS), dpi=gen_dpi(rng),
                 by_num=rng.random() < 0.5, cuts=cuts, size2=None, scale_dom=None)
        c["dpi2"] = gen_dpi(rng) if rng.random() < 0.5 else None
        # scaling: a second size
        r = rng.random()
        if r < 0.45 and mode == "iid" and L >= SCALE_MIN_LEN:
            # statistical domain: any sizes >= 6
            if c["size"] < SCALE_MIN_SIZE:
                c["size"] = s = round(rng.uniform(SCALE_MIN_SIZE, 48), 3)
            s2 = gen_size(rng)
            c["size2"] = s2 if s2 >= SCALE_MIN_SIZE else round(rng.uniform(SCALE_MIN_SIZE, 48), 3)
            c["scale_dom"] = "stat"
        elif r < 0.75 and L >= 1:
            # guaranteed domain: sizes on the 1/64 grid, decided after measuring (mean advance >= 3.35 px)
            c["size"] = s = rng.randint(256, 3072) / 64 if rng.random() < 0.5 else float(rng.randint(4, 48))
            c["size2"] = rng.randint(256, 3072) / 64 if rng.random() < 0.5 else rng.randint(16, 192) / 4
            c["scale_dom"] = "guar"
        cases.append(c)
    return cases


def judge_oracle(res, cases, obs):
    """R1..R7 on the implementation's outputs; Lean predicates through the driver"""
    items, owners = [], []

    def ask(idx, what, item):
        items.append(item)
        owners.append((idx, what))

    for idx, (c, o) in enumerate(zip(cases, obs)):
        if "exc" in o:
            res.fail(c, f"valid arguments raised {o['exc']}")
            continue
        t, k, s, dpi = c["text"], c["font"], c["size"], c["dpi"]
        # R4 number == name, exactly
        if o["num"] != o["name"]:
            res.fail(c, f"font {k} by number gives {o['num']} but by name {FONT_NAMES[k]!r} gives {o['name']}")
            continue
        # R1 empty -> 0
        if o["empty"] != 0:
            res.fail(c, f"width of the empty string is {o['empty']} (unit {c['unit']})")
            continue
        # R3 units
        ask(idx, "units", dict(k="units", tol=frac(UNIT_TOL), dpi=frac(dpi), wpx=frac(o["num"]["px"]),
                               win=frac(o["num"]["in"]), wmm=frac(o["num"]["mm"])))
        if o.get("num2") is not None:
            if o["num2"]["px"] != o["num"]["px"]:
                res.fail(c, f"pixel width {o['num']['px']!r} at dpi {dpi} but {o['num2']['px']!r} at dpi {c['dpi2']} "
                            "(same text, font, size)")
                continue
            ask(idx, "units2", dict(k="units", tol=frac(UNIT_TOL), dpi=frac(c["dpi2"]), wpx=frac(o["num2"]["px"]),
                                    win=frac(o["num2"]["in"]), wmm=frac(o["num2"]["mm"])))
        # R2 + R5 along the prefix chain, in px and in the case's unit
        ask(idx, "chain_px", dict(k="chain", ws=[frac(x) for x in o["chain_px"]]))
        ask(idx, "chain_u", dict(k="chain", ws=[frac(x) for x in o["chain_u"]]))
        if o["chain_px"][-1] != o["num"]["px"]:
            res.fail(c, "the same call returned two different values")
            continue
        # R6 scaling
        if c["size2"] is not None and t:
            w1, w2 = o["num"]["px"], o["px2"]
            dom = c["scale_dom"]
            if dom == "guar":
                ok_dom = min(w1, w2) / len(t) >= SCALE_GUARANTEED_MEAN_PX
            else:
                ok_dom = True
            if ok_dom:
                res.count("scale:" + dom)
                ask(idx, "scale", dict(k="scale", s1=frac(s), w1=frac(w1), s2=frac(c["size2"]), w2=frac(w2)))
        # R7 monospace
        if k == MONO_FONT and t:
            singles = o["singles"]
            advs = set(singles.values())
            if len(advs) != 1:
                res.fail(c, f"monospaced font: single-character advances differ: "
                            f"{ {ch: v for ch, v in list(singles.items())[:6]} }")
                continue
            ask(idx, "mono", dict(k="mono", len=len(t), adv=frac(advs.pop()), w=frac(o["num"]["px"])))
            res.count("mono")
    verdicts = []
    reqs = [dict(op="sw_spec", items=items[i:i + 5000]) for i in range(0, len(items), 5000)]
    for r in common.driver_batch(reqs):
        verdicts += r["ok"]
    bad = {}
    for (idx, what), ok in zip(owners, verdicts):
        if not ok:
            bad.setdefault(idx, []).append(what)
    for idx, whats in bad.items():
        c, o = cases[idx], obs[idx]
        why = []
        for what in whats:
            if what == "units":
                why.append(f"unit conversion broken at dpi {c['dpi']}: px={o['num']['px']!r} in={o['num']['in']!r} "
                           f"mm={o['num']['mm']!r} (expected mm = 25.4*in, px = dpi*in, rel. tol 1e-12)")
            elif what == "units2":
                why.append(f"unit conversion broken at dpi {c['dpi2']} after the same text was measured at dpi "
                           f"{c['dpi']}: px={o['num2']['px']!r} in={o['num2']['in']!r} mm={o['num2']['mm']!r}")
            elif what.startswith("chain"):
                ws = o[what]
                j = next((i for i in range(len(ws)) if ws[i] < 0 or (i and ws[i] < ws[i - 1])), 0)
                why.append(f"width negative or decreased when appending: prefix lengths {c['cuts'][max(0, j - 1):j + 1]} "
                           f"widths {ws[max(0, j - 1):j + 1]} ({what})")
            elif what == "scale":
                why.append(f"size scaling off by more than 1 %: {o['num']['px']!r}px at {c['size']} vs {o['px2']!r}px at "
                           f"{c['size2']} (domain {c['scale_dom']})")
            elif what == "mono":
                why.append(f"monospaced font: width {o['num']['px']!r} != {len(c['text'])} x single advance")
        res.fail(c, "; ".join(why))
    for c, o in zip(cases, obs):
        nt = None
        if "exc" not in o and len(c["text"]) >= 3 and o["num"]["px"] > 0:
            nt = ("o", c["font"], c["size"], c["text"])
        res.case(c, nt)
        res.count("oracle:" + c["mode"])
        res.count(f"oracle_font:{c['font']}")
        res.count("oracle_size:" + ("int" if c["size"] == int(c["size"]) else "fractional"))
        res.count("oracle_len:" + ("0" if not c["text"] else "1-2" if len(c["text"]) < 3 else "3-12" if len(c["text"]) <= 12 else "13+"))


# ------------------------------------------------------------------ error stream + whole-model correspondence


BAD_UNITS = ["cm", "pt", "IN", "Px", "inch", "", "mm ", "m", "twip", "pixels"]
BAD_NAMES = ["arial", "Arial ", "Times", "Courier", "", "Symbol\n", "Times New Roman Bold", "Helvetica Neue", "f1", "1"]
BAD_NUMS = [0, -1, 11, 12, 100, -10, 2 ** 31, 255]


def model_calls(res, n):
    calls = []
    for i in range(n):
        rng = sub_rng(res.seed, "c20m", i)
        t, mode = gen_text(rng, 0, 24)
        kind = rng.choice(["valid", "valid", "valid", "bad_unit", "bad_num", "bad_name", "bad_both"])
        font = rng.randint(1, 10) if rng.random() < 0.5 else FONT_NAMES[rng.randint(1, 10)]
        unit = rng.choice(UNITS)
        if kind in ("bad_unit", "bad_both"):
            unit = rng.choice(BAD_UNITS)
        if kind == "bad_num" or (kind == "bad_both" and rng.random() < 0.5):
            font = rng.choice(BAD_NUMS)
        elif kind in ("bad_name", "bad_both"):
            font = rng.choice(BAD_NAMES)
        calls.append(dict(level="model", kind=kind, text=t, font=font, size=gen_size(rng), unit=unit, dpi=gen_dpi(rng)))
    return calls


def judge_model(res, calls, obs, echo):
    reqs = [dict(text=cps(c["text"]), font=c["font"], size=frac(c["size"]), unit=c["unit"], dpi=frac(c["dpi"]))
            for c in calls]
    outs = common.driver_batch([dict(op="sw_model", calls=reqs)])[0]["outs"]
    for c, o, m in zip(calls, obs, outs):
        res.case(c, ("m", c["kind"], str(c["font"]), c["unit"]) if c["kind"] != "valid" else None)
        res.count("model:" + c["kind"])
        res.corr_checked += 1
        mr = m["res"]
        # oracle (R8): unsupported font or unit => ValueError, supported => a value
        if c["kind"] == "valid":
            if o[0] != "ok":
                res.fail(c, f"valid call raised {o[1]}: {o[2]}")
                continue
        else:
            if o[0] != "err" or o[1] != "ValueError":
                got = f"returned {o[1]!r}" if o[0] == "ok" else f"raised {o[1]}: {o[2]}"
                res.fail(c, f"unsupported font/unit (font={c['font']!r}, unit={c['unit']!r}) must raise ValueError, {got}")
                continue
        # correspondence with the model
        if o[0] == "err":
            if mr.get("err") != o[1]:
                res.disagree(c, f"model says {mr} but implementation raised {o[1]}")
            continue
        if "ok" not in mr:
            res.disagree(c, f"model says {mr} but implementation returned {o[1]!r}")
            continue
        if m["l2"]:
            mv = Fraction(mr["ok"][0], mr["ok"][1])
            iv = Fraction(o[1])
            if c["unit"] == "px":
                same = mv == iv
            else:
                same = abs(mv - iv) <= UNIT_TOL * max(abs(mv), abs(iv))
            if not same:
                res.disagree(c, f"model value {float(mv)!r} != implementation {o[1]!r} (font {c['font']!r}, size "
                                f"{c['size']}, unit {c['unit']}, dpi {c['dpi']})")


# ------------------------------------------------------------------ value stream: every argument over Python value types
#
# "Unsupported fonts or units raise ValueError" does not say "unsupported *strings*": get_string_width checks no
# annotation, so the refused value can be None, a bool, a float, bytes, a tuple, a numpy scalar …  The stream generates
# every argument over value TYPES, the Lean specification (`Model.StrWidth.expected`, evaluated by the driver) says what
# the statement demands of the call, the Lean predicate `meets` is evaluated on what the real function did.
#
# typed value ("tv") = JSON description of a Python object, rebuilt inside the worker:
#   none | bool v | int v | float x | nan | inf neg | str s | bytes s(latin-1) | tuple v[] | list v[] | dict v[[k, v]] |
#   set v[] | ndarray x[] zero_d | npint k v | npfloat k x | npbool v | npstr s | other k(complex|frozenset) …

FREE_BASELINE = [
    "font unhashable (list, dict, set, numpy.ndarray, a tuple containing one): TypeError 'unhashable type' from "
    "`font_name not in _FONT_PATHS` on the unchanged tree — before any change; not judged",
    "unit unhashable (same classes): TypeError from `unit not in conversions` on the unchanged tree; not judged",
    "text not a str — None, bool, int, float, tuple, list, ndarray: TypeError from Pillow's getlength; bytes and "
    "numpy.str_ are measured; the statement quantifies over strings; not judged",
    "font_size outside 4..48 or not a real number — None / str / bytes / tuple / list: TypeError ('<=' not supported); "
    "0, negative, False, -inf: ValueError from Pillow; nan, +inf, < 0.5, huge: OSError from FreeType; True and other "
    "sizes in 0.5..4 / 48..1000 measure; not judged",
    "dpi outside 36..600 or not a real number — never looked at for 'px' and for refused fonts / units; 'in' / 'mm': "
    "None / str / bytes / tuple / list TypeError, 0 / 0.0 / False ZeroDivisionError, numpy zero inf, nan nan; not judged",
]

NP_INT_KINDS = ["int64", "int32", "uint8", "int16"]
NP_FLOAT_KINDS = ["float64", "float32"]


def tv(t, **kw):
    d = dict(t=t)
    d.update(kw)
    return d


def to_py(v):
    """the Python object a typed value describes (worker side: imports numpy)"""
    t = v["t"]
    if t == "none":
        return None
    if t in ("bool", "int"):
        return v["v"]
    if t == "float":
        return float(v["x"])
    if t == "nan":
        return float("nan")
    if t == "inf":
        return float("-inf") if v["neg"] else float("inf")
    if t == "str":
        return v["s"]
    if t == "bytes":
        return v["s"].encode("latin-1")
    if t == "tuple":
        return tuple(to_py(x) for x in v["v"])
    if t == "list":
        return [to_py(x) for x in v["v"]]
    if t == "dict":
        return {to_py(a): to_py(b) for a, b in v["v"]}
    if t == "set":
        return {to_py(x) for x in v["v"]}
    import numpy as np

    if t == "ndarray":
        return np.array(v["x"][0]) if v.get("zero_d") else np.array(v["x"])
    if t == "npint":
        return getattr(np, v["k"])(v["v"])
    if t == "npfloat":
        return getattr(np, v["k"])(v["x"])
    if t == "npbool":
        return np.bool_(v["v"])
    if t == "npstr":
        return np.str_(v["s"])
    if t == "other":
        if v["k"] == "complex":
            return complex(*v["x"])
        if v["k"] == "frozenset":
            return frozenset(to_py(x) for x in v["v"])
    raise ValueError(f"typed value {v!r}")


def tv_show(v) -> str:
    """source-like text of a typed value (parent side: no numpy import)"""
    t = v["t"]
    if t == "none":
        return "None"
    if t in ("bool", "int"):
        return repr(v["v"])
    if t == "float":
        return repr(float(v["x"]))
    if t == "nan":
        return "float('nan')"
    if t == "inf":
        return "float('-inf')" if v["neg"] else "float('inf')"
    if t == "str":
        return repr(v["s"])
    if t == "bytes":
        return repr(v["s"].encode("latin-1"))
    if t == "tuple":
        xs = [tv_show(x) for x in v["v"]]
        return "(" + ", ".join(xs) + ("," if len(xs) == 1 else "") + ")"
    if t == "list":
        return "[" + ", ".join(tv_show(x) for x in v["v"]) + "]"
    if t == "dict":
        return "{" + ", ".join(f"{tv_show(a)}: {tv_show(b)}" for a, b in v["v"]) + "}"
    if t == "set":
        return "{" + ", ".join(tv_show(x) for x in v["v"]) + "}" if v["v"] else "set()"
    if t == "ndarray":
        return f"numpy.array({v['x'][0]!r})" if v.get("zero_d") else f"numpy.array({v['x']!r})"
    if t == "npint":
        return f"numpy.{v['k']}({v['v']})"
    if t == "npfloat":
        return f"numpy.{v['k']}({v['x']!r})"
    if t == "npbool":
        return f"numpy.bool_({v['v']})"
    if t == "npstr":
        return f"numpy.str_({v['s']!r})"
    if t == "other":
        if v["k"] == "complex":
            return f"complex({v['x'][0]}, {v['x'][1]})"
        return "frozenset({" + ", ".join(tv_show(x) for x in v["v"]) + "})"
    return repr(v)


def tv_type(v) -> str:
    """label of the value's type for the input distribution"""
    t = v["t"]
    if t in ("npint", "npfloat"):
        return "numpy." + v["k"]
    return {"none": "NoneType", "nan": "float(nan)", "inf": "float(inf)", "npbool": "numpy.bool_", "npstr": "numpy.str_",
            "other": v.get("k", "other"), "ndarray": "numpy.ndarray"}.get(t, t)


def tv_hashable(v) -> bool:
    t = v["t"]
    if t in ("list", "dict", "set", "ndarray"):
        return False
    if t == "tuple" or (t == "other" and v["k"] == "frozenset"):
        return all(tv_hashable(x) for x in v["v"])
    return True


def tv_lean(v) -> dict:
    """the driver's form of a typed value (`Driver.asVal`)"""
    t = v["t"]
    if t in ("none", "nan", "bytes", "list", "dict", "set", "ndarray", "other"):
        return dict(t=t)
    if t in ("bool", "int", "npbool"):
        return dict(t=t, v=v["v"])
    if t == "npint":
        return dict(t=t, v=v["v"])
    if t in ("float", "npfloat"):
        return dict(t=t, v=frac(float(v["x"])))
    if t == "inf":
        return dict(t=t, neg=v["neg"])
    if t in ("str", "npstr"):
        return dict(t=t, v=cps(v["s"]))
    if t == "tuple":
        return dict(t=t, v=[tv_lean(x) for x in v["v"]])
    raise ValueError(f"typed value {v!r}")


def _num_of(v):
    """the finite number Python's == sees in a value, else None"""
    t = v["t"]
    if t in ("bool", "npbool"):
        return Fraction(int(v["v"]))
    if t in ("int", "npint"):
        return Fraction(v["v"])
    if t in ("float", "npfloat"):
        return Fraction(float(v["x"]))
    return None


def py_font_class(v) -> str:
    """the harness's own reading of the statement (cross-checked against Lean's `fontClass` on every case)"""
    if not tv_hashable(v):
        return "free"
    t = v["t"]
    if t == "int":
        return "supported" if 1 <= v["v"] <= 10 else "unsupported"
    if t == "str":
        return "supported" if v["s"] in FONT_NAMES.values() else "unsupported"
    if t == "npstr":
        return "lenient" if v["s"] in FONT_NAMES.values() else "unsupported"
    q = _num_of(v)
    if q is not None and q.denominator == 1 and 1 <= q <= 10:
        return "lenient"
    return "unsupported"


def py_unit_class(v) -> str:
    if not tv_hashable(v):
        return "free"
    if v["t"] == "str":
        return "supported" if v["s"] in UNITS else "unsupported"
    if v["t"] == "npstr":
        return "lenient" if v["s"] in UNITS else "unsupported"
    return "unsupported"


def py_num_in(v, lo, hi) -> bool:
    return v["t"] in ("int", "float", "npint", "npfloat") and lo <= _num_of(v) <= hi


def py_expected(c) -> str:
    if not (c["text"]["t"] == "str" and py_num_in(c["size"], 4, 48) and py_num_in(c["dpi"], 36, 600)):
        return "free"
    f, u = py_font_class(c["font"]), py_unit_class(c["unit"])
    if "free" in (f, u):
        return "free"
    if "unsupported" in (f, u):
        return "ValueError"
    if f == u == "supported":
        return "width"
    return "either"


# ---- generators of one argument: (typed value); classes are decided afterwards by py_*_class


def _near_miss(rng, word: str) -> str:
    """a string one edit away from a supported one (also case variants, padding)"""
    k = rng.randrange(9)
    if k == 0:
        return word.lower()
    if k == 1:
        return word.upper()
    if k == 2:
        return word.swapcase()
    if k == 3 and len(word) > 1:
        i = rng.randrange(len(word))
        return word[:i] + word[i + 1:]
    if k == 4 and len(word) > 1:
        i = rng.randrange(len(word) - 1)
        return word[:i] + word[i + 1] + word[i] + word[i + 2:]
    if k == 5:
        i = rng.randrange(len(word) + 1)
        return word[:i] + rng.choice("aes -_1") + word[i:]
    if k == 6:
        return rng.choice([" ", "\t", ""]) + word + rng.choice([" ", "\n", "s"])
    if k == 7:
        return word.replace(" ", rng.choice(["", "_", "  ", "-"])) if " " in word else word + " New"
    return word[: max(1, len(word) // 2)]


def _container(rng, inner: list, hashable: bool):
    """a tuple / list / dict / set / frozenset / ndarray around `inner` typed values"""
    if hashable:
        k = rng.choice(["tuple", "tuple", "tuple", "frozenset", "nested"])
        if k == "tuple":
            return tv("tuple", v=inner)
        if k == "frozenset":
            return tv("other", k="frozenset", v=[x for x in inner if tv_hashable(x)])
        return tv("tuple", v=[tv("tuple", v=inner)])
    k = rng.choice(["list", "list", "dict", "set", "tuple_of_list", "ndarray"])
    if k == "list":
        return tv("list", v=inner)
    if k == "dict":
        return tv("dict", v=[[x, tv("int", v=i)] for i, x in enumerate(inner) if tv_hashable(x)])
    if k == "set":
        return tv("set", v=[x for x in inner if tv_hashable(x)])
    if k == "tuple_of_list":
        return tv("tuple", v=[tv("list", v=inner)])
    nums = [float(_num_of(x)) for x in inner if _num_of(x) is not None] or [4.0]
    return tv("ndarray", x=nums, zero_d=rng.random() < 0.3)


def gen_font_value(rng, want: str):
    """a font argument of class `want` (supported / lenient / unsupported / free), over value types"""
    names = list(FONT_NAMES.values())
    k = rng.randint(1, 10)
    if want == "supported":
        return tv("int", v=k) if rng.random() < 0.5 else tv("str", s=FONT_NAMES[k])
    if want == "lenient":
        c = rng.randrange(6)
        if c == 0:
            return tv("bool", v=True)
        if c == 1:
            return tv("float", x=float(k))
        if c == 2:
            return tv("npint", k=rng.choice(NP_INT_KINDS), v=k)
        if c == 3:
            return tv("npfloat", k=rng.choice(NP_FLOAT_KINDS), x=float(k))
        if c == 4:
            return tv("npstr", s=FONT_NAMES[k])
        return tv("npbool", v=True)
    if want == "free":
        inner = [rng.choice([tv("int", v=k), tv("str", s=FONT_NAMES[k])]) for _ in range(rng.choice([0, 1, 1, 2]))]
        return _container(rng, inner, hashable=False)
    c = rng.randrange(16)
    if c == 0:
        return tv("none")
    if c == 1:
        return tv("bool", v=False)
    if c == 2:
        return tv("int", v=rng.choice(BAD_NUMS + [-rng.randint(1, 10), rng.randint(11, 40), 10 ** 30, -2 ** 63]))
    if c == 3:
        return tv("float", x=rng.choice([k + 0.5, k + 0.25, 0.0, -float(k), 10.5, 11.0, 0.999, 1e300, -0.0, k + 1e-9]))
    if c == 4:
        return rng.choice([tv("nan"), tv("inf", neg=False), tv("inf", neg=True)])
    if c == 5:
        return tv("str", s=rng.choice(BAD_NAMES + list(UNITS) + ["4", "4.0", "None", "Árial", "Arial\x00"]))
    if c in (6, 7):
        return tv("str", s=_near_miss(rng, rng.choice(names)))
    if c == 8:
        return tv("bytes", s=rng.choice(names + ["", "in", "\xff"]))
    if c == 9:
        inner = [rng.choice([tv("int", v=k), tv("str", s=FONT_NAMES[k]), tv("none"), tv("float", x=1.5)])
                 for _ in range(rng.choice([0, 1, 1, 2]))]
        return _container(rng, inner, hashable=True)
    if c == 10:
        return tv("npint", k=rng.choice(NP_INT_KINDS), v=rng.choice([0, 11, 12, 100, 127]))
    if c == 11:
        return tv("npfloat", k=rng.choice(NP_FLOAT_KINDS), x=rng.choice([k + 0.5, 0.0, 11.0, 0.25]))
    if c == 12:
        return tv("npstr", s=_near_miss(rng, rng.choice(names)))
    if c == 13:
        return tv("npbool", v=False)
    if c == 14:
        return tv("other", k="complex", x=[k, rng.choice([1, -2])])
    return tv("str", s=gen_text(rng, 0, 12)[0])


def gen_unit_value(rng, want: str):
    u = rng.choice(UNITS)
    if want == "supported":
        return tv("str", s=u)
    if want == "lenient":
        return tv("npstr", s=u)
    if want == "free":
        inner = [tv("str", s=u) for _ in range(rng.choice([0, 1, 1, 2]))]
        return _container(rng, inner, hashable=False)
    c = rng.randrange(14)
    if c == 0:
        return tv("none")
    if c == 1:
        return tv("bool", v=rng.random() < 0.5)
    if c == 2:
        return tv("int", v=rng.choice([0, 1, 72, 96, 300, -1, 25, 10 ** 20]))
    if c == 3:
        return tv("float", x=rng.choice([25.4, 72.0, 1.0, 0.0, 2.54, 96.5, -1.0]))
    if c == 4:
        return rng.choice([tv("nan"), tv("inf", neg=False), tv("inf", neg=True)])
    if c == 5:
        return tv("str", s=rng.choice(BAD_UNITS + list(FONT_NAMES.values()) + ["72", "None"]))
    if c in (6, 7):
        return tv("str", s=_near_miss(rng, u))
    if c == 8:
        return tv("bytes", s=rng.choice(list(UNITS) + ["", "cm"]))
    if c == 9:
        inner = [rng.choice([tv("str", s=u), tv("int", v=72), tv("none")]) for _ in range(rng.choice([0, 1, 1, 2]))]
        return _container(rng, inner, hashable=True)
    if c == 10:
        return tv("npint", k=rng.choice(NP_INT_KINDS), v=rng.choice([0, 1, 72, 96]))
    if c == 11:
        return tv("npfloat", k=rng.choice(NP_FLOAT_KINDS), x=rng.choice([25.4, 72.0, 0.0]))
    if c == 12:
        return tv("npstr", s=_near_miss(rng, u)) if rng.random() < 0.7 else tv("npbool", v=True)
    return tv("other", k="complex", x=[72, 1]) if rng.random() < 0.3 else tv("str", s=gen_text(rng, 0, 6)[0])


def gen_size_value(rng, in_domain: bool):
    if in_domain:
        c = rng.randrange(5)
        if c == 0:
            return tv("int", v=rng.randint(4, 48))
        if c in (1, 2):
            return tv("float", x=gen_size(rng))
        if c == 3:
            return tv("npint", k=rng.choice(NP_INT_KINDS), v=rng.randint(4, 48))
        # float32 only on values it represents exactly (1/64 grid)
        return tv("npfloat", k=rng.choice(NP_FLOAT_KINDS), x=rng.randint(256, 3072) / 64)
    return rng.choice([
        tv("none"), tv("bool", v=True), tv("bool", v=False), tv("int", v=0), tv("int", v=-rng.randint(1, 12)),
        tv("float", x=0.0), tv("float", x=-9.5), tv("float", x=0.01), tv("float", x=1e9), tv("int", v=2 ** 70),
        tv("int", v=rng.choice([1, 2, 3, 49, 72, 200])), tv("float", x=rng.choice([0.5, 1.5, 3.999, 48.001, 100.0])),
        tv("nan"), tv("inf", neg=False), tv("inf", neg=True), tv("str", s="12"), tv("str", s=""), tv("bytes", s="12"),
        tv("tuple", v=[tv("int", v=12)]), tv("list", v=[tv("int", v=12)]), tv("ndarray", x=[12.0], zero_d=False),
        tv("ndarray", x=[12.0], zero_d=True), tv("npint", k="int64", v=0), tv("npfloat", k="float64", x=-1.0),
        tv("npbool", v=True), tv("other", k="complex", x=[12, 1])])


def gen_dpi_value(rng, in_domain: bool):
    if in_domain:
        c = rng.randrange(5)
        if c == 0:
            return tv("int", v=rng.choice([36, 72, 96, 120, 144, 150, 300, 600]))
        if c in (1, 2):
            return tv("float", x=gen_dpi(rng))
        if c == 3:
            return tv("npint", k=rng.choice(["int64", "int32", "int16"]), v=rng.choice([36, 72, 96, 150, 300, 600]))
        return tv("npfloat", k="float64", x=gen_dpi(rng))
    return rng.choice([
        tv("none"), tv("bool", v=True), tv("bool", v=False), tv("int", v=0), tv("int", v=-72), tv("float", x=0.0),
        tv("float", x=-96.5), tv("float", x=1e-3), tv("int", v=rng.choice([1, 35, 601, 10 ** 6])), tv("int", v=10 ** 400),
        tv("nan"), tv("inf", neg=False), tv("inf", neg=True), tv("str", s="72"), tv("str", s=""), tv("bytes", s="72"),
        tv("tuple", v=[tv("int", v=72)]), tv("list", v=[tv("int", v=72)]), tv("ndarray", x=[72.0], zero_d=False),
        tv("npint", k="int64", v=0), tv("npfloat", k="float64", x=0.0), tv("npbool", v=False),
        tv("other", k="complex", x=[72, 1]), tv("dict", v=[])])


def gen_text_value(rng, in_domain: bool):
    t = gen_text(rng, 0, 16)[0]
    if in_domain:
        return tv("str", s=t)
    l1 = "".join(c for c in t if ord(c) < 256)
    return rng.choice([
        tv("none"), tv("bool", v=True), tv("int", v=0), tv("int", v=12), tv("float", x=9.5), tv("nan"),
        tv("bytes", s=l1), tv("bytes", s=""), tv("tuple", v=[tv("str", s=t)]), tv("tuple", v=[]),
        tv("list", v=[tv("str", s=t)]), tv("list", v=[]), tv("npstr", s=t), tv("npint", k="int64", v=3),
        tv("ndarray", x=[1.0], zero_d=False), tv("dict", v=[]), tv("set", v=[])])


def _canonical_values(names: list[str]) -> list:
    """one or more values of every Python value type a caller can pass, around the supported values `names`"""
    n0 = names[0]
    vals = [tv("none"), tv("bool", v=True), tv("bool", v=False), tv("int", v=0), tv("int", v=1), tv("int", v=4),
            tv("int", v=10), tv("int", v=11), tv("int", v=-3), tv("int", v=72), tv("int", v=2 ** 64),
            tv("float", x=1.5), tv("float", x=4.0), tv("float", x=0.0), tv("float", x=25.4), tv("float", x=72.0),
            tv("float", x=-1.0), tv("float", x=1e300), tv("nan"), tv("inf", neg=False), tv("inf", neg=True),
            tv("str", s=""), tv("str", s=" "), tv("str", s=n0.lower()), tv("str", s=n0.upper()), tv("str", s=n0 + " "),
            tv("str", s=" " + n0), tv("str", s=n0[:-1]), tv("str", s=n0 + "s"), tv("str", s="4"), tv("str", s="None"),
            tv("str", s="Comic Sans"), tv("str", s="cm"), tv("str", s="inch"), tv("str", s="Courier"),
            tv("bytes", s=n0), tv("bytes", s=""), tv("tuple", v=[]), tv("tuple", v=[tv("str", s=n0)]),
            tv("tuple", v=[tv("int", v=4)]), tv("tuple", v=[tv("int", v=4), tv("str", s=n0)]),
            tv("tuple", v=[tv("tuple", v=[tv("none")])]), tv("other", k="frozenset", v=[]),
            tv("other", k="frozenset", v=[tv("str", s=n0)]), tv("other", k="complex", x=[4, 1]),
            tv("npint", k="int64", v=4), tv("npint", k="int64", v=11), tv("npint", k="int32", v=0),
            tv("npint", k="uint8", v=72), tv("npfloat", k="float64", x=4.0), tv("npfloat", k="float64", x=1.5),
            tv("npfloat", k="float32", x=25.5), tv("npbool", v=True), tv("npbool", v=False), tv("npstr", s=n0),
            tv("npstr", s=n0.lower()), tv("npstr", s=""),
            # unhashable: recorded, not judged
            tv("list", v=[]), tv("list", v=[tv("str", s=n0)]), tv("list", v=[tv("int", v=4)]), tv("dict", v=[]),
            tv("dict", v=[[tv("str", s=n0), tv("int", v=1)]]), tv("set", v=[]), tv("set", v=[tv("str", s=n0)]),
            tv("tuple", v=[tv("list", v=[])]), tv("ndarray", x=[4.0], zero_d=False), tv("ndarray", x=[4.0], zero_d=True)]
    return vals + [tv("str", s=x) for x in names] + [tv("npstr", s=x) for x in names[1:]]


def value_grid():
    """seed-independent: every canonical value of every type as font (all other arguments plain), as unit (under a font
    by number and by name), and every unsupported font type against every unsupported unit type"""
    text = tv("str", s="Placebo (N=86)")
    base = dict(level="value", kind="grid", text=text, size=tv("int", v=12), dpi=tv("float", x=72.0))
    fonts = _canonical_values(list(FONT_NAMES.values())) + [tv("int", v=k) for k in range(1, 11)]
    units = _canonical_values(list(UNITS))
    out = [dict(base, font=f, unit=tv("str", s="in")) for f in fonts]
    out += [dict(base, font=tv("int", v=9), unit=u) for u in units]
    out += [dict(base, font=tv("str", s="Courier New"), unit=u, size=tv("float", x=9.5), dpi=tv("int", v=300))
            for u in units]
    seen, reps_f, reps_u = set(), [], []
    for v in fonts:
        if py_font_class(v) == "unsupported" and ("f", tv_type(v)) not in seen:
            seen.add(("f", tv_type(v)))
            reps_f.append(v)
    for v in units:
        if py_unit_class(v) == "unsupported" and ("u", tv_type(v)) not in seen:
            seen.add(("u", tv_type(v)))
            reps_u.append(v)
    out += [dict(base, font=f, unit=u) for f in reps_f for u in reps_u]
    return out


VALUE_KINDS = (["font_refused"] * 6 + ["unit_refused"] * 6 + ["both_refused"] * 2 + ["lenient"] * 3 + ["typed_valid"] * 2 +
               ["free_unhashable"] * 2 + ["free_other"] * 3)


def value_cases(res, n):
    """calls over value types; `kind` names the class the generator aims at, the verdict comes from Lean's `expected`"""
    cases = []
    for i in range(n):
        rng = sub_rng(res.seed, "c20v", i)
        kind = rng.choice(VALUE_KINDS)
        fw = uw = "supported"
        if kind == "font_refused":
            fw, uw = "unsupported", rng.choice(["supported", "supported", "supported", "lenient"])
        elif kind == "unit_refused":
            fw, uw = rng.choice(["supported", "supported", "supported", "lenient"]), "unsupported"
        elif kind == "both_refused":
            fw = uw = "unsupported"
        elif kind == "lenient":
            fw, uw = rng.choice([("lenient", "supported"), ("lenient", "supported"), ("supported", "lenient"),
                                 ("lenient", "lenient")])
        elif kind == "free_unhashable":
            fw, uw = rng.choice([("free", "supported"), ("supported", "free"), ("free", "unsupported"),
                                 ("unsupported", "free"), ("free", "free")])
        elif kind == "free_other":
            fw = rng.choice(["supported", "unsupported", "lenient"])
            uw = rng.choice(["supported", "unsupported"])
        dom = [True, True, True]
        if kind == "free_other":
            j = rng.randrange(3)
            dom[j] = False
            if rng.random() < 0.2:
                dom[rng.randrange(3)] = False
        c = dict(level="value", kind=kind, text=gen_text_value(rng, dom[0]), font=gen_font_value(rng, fw),
                 size=gen_size_value(rng, dom[1]), unit=gen_unit_value(rng, uw), dpi=gen_dpi_value(rng, dom[2]))
        cases.append(c)
    return cases


def call_text(c) -> str:
    return (f"get_string_width({tv_show(c['text'])}, font={tv_show(c['font'])}, font_size={tv_show(c['size'])}, "
            f"unit={tv_show(c['unit'])}, dpi={tv_show(c['dpi'])})")


def _value_worker(c):
    """one call over typed values -> ('ok', float, type) | ('okother', repr, type) | ('err', class, message)"""
    import math
    import numbers
    import warnings

    w = _gsw()
    args = [to_py(c[k]) for k in ("text", "font", "size", "unit", "dpi")]
    try:
        with warnings.catch_warnings():
            warnings.simplefilter("ignore")
            v = w(*args)
    except Exception as e:  # noqa: BLE001
        return ("err", type(e).__name__, str(e)[:160])
    try:
        if isinstance(v, numbers.Real) and not isinstance(v, bool) and math.isfinite(v):
            return ("ok", float(v), type(v).__name__)
    except Exception:  # noqa: BLE001
        pass
    return ("okother", repr(v)[:80], type(v).__name__)


def _obs_json(o):
    if o[0] == "ok":
        return dict(ok=frac(o[1]))
    if o[0] == "err":
        return dict(err=o[1])
    return dict(other=True)


def _obs_text(o) -> str:
    if o[0] == "ok":
        return f"returned {o[1]!r}"
    if o[0] == "okother":
        return f"returned {o[1]} ({o[2]})"
    return f"raised {o[1]}: {o[2]}"


def _free_reason(c, lean) -> str:
    """why the statement does not speak about a call (first reason in argument order)"""
    if not lean["domain"][0]:
        return "text:" + tv_type(c["text"])
    if lean["font_class"] == "free":
        return "font:unhashable " + tv_type(c["font"])
    if not lean["domain"][1]:
        q = _num_of(c["size"])
        return "size:" + tv_type(c["size"]) + ("" if q is None else "(<=0)" if q <= 0 else "(<4)" if q < 4 else "(>48)")
    if lean["unit_class"] == "free":
        return "unit:unhashable " + tv_type(c["unit"])
    q = _num_of(c["dpi"])
    return "dpi:" + tv_type(c["dpi"]) + ("" if q is None else "(0)" if q == 0 else "(<36)" if q < 36 else "(>600)")


def lean_values(cases, obs=None):
    reqs = []
    for i, c in enumerate(cases):
        r = {k: tv_lean(c[k]) for k in ("text", "font", "size", "unit", "dpi")}
        if obs is not None:
            r["obs"] = _obs_json(obs[i])
        reqs.append(r)
    outs = []
    for i in range(0, len(reqs), 4000):
        outs += common.driver_batch([dict(op="sw_vals", calls=reqs[i:i + 4000])])[0]["outs"]
    return outs


def value_verdicts(cases, obs):
    """per case: (lean answer, failure text or None, disagreement text or None)"""
    out = []
    for c, o, m in zip(cases, obs, lean_values(cases, obs)):
        mine = (py_font_class(c["font"]), py_unit_class(c["unit"]), py_expected(c))
        theirs = (m["font_class"], m["unit_class"], m["expected"])
        if mine != theirs:
            raise common.MachineryError(f"value stream: the harness reads {call_text(c)} as {mine}, the Lean "
                                        f"specification as {theirs}")
        fail = dis = None
        ex = m["expected"]
        if ex != "free":
            if not m["meets"]:
                if ex == "ValueError":
                    which = []
                    if m["font_class"] == "unsupported":
                        which.append(f"unsupported font {tv_show(c['font'])} ({tv_type(c['font'])})")
                    if m["unit_class"] == "unsupported":
                        which.append(f"unsupported unit {tv_show(c['unit'])} ({tv_type(c['unit'])})")
                    fail = f"{' and '.join(which)} must raise ValueError, but {call_text(c)} {_obs_text(o)}"
                elif ex == "width":
                    fail = f"supported font and unit must give a width, but {call_text(c)} {_obs_text(o)}"
                else:
                    fail = (f"a value equal to a supported one (font class {m['font_class']}, unit class "
                            f"{m['unit_class']}) must give a width or a ValueError, but {call_text(c)} {_obs_text(o)}")
            else:
                mr = m["model"]
                if ex == "either" and (o[0] == "err") != ("err" in mr):
                    # a value of another type that equals a supported one: the statement lets the code accept or
                    # refuse it, so model (= the unchanged code's choice) and implementation may differ here
                    pass
                elif o[0] == "err":
                    if mr.get("err") != o[1]:
                        dis = f"model says {mr} but {call_text(c)} raised {o[1]}: {o[2]}"
                elif "ok" not in mr:
                    dis = f"model says {mr} but {call_text(c)} returned {o[1]!r}"
                elif m["l2"]:
                    mv, iv = Fraction(mr["ok"][0], mr["ok"][1]), Fraction(o[1])
                    px = c["unit"].get("s") == "px"
                    if not (mv == iv if px else abs(mv - iv) <= UNIT_TOL * max(abs(mv), abs(iv))):
                        dis = f"model value {float(mv)!r} != implementation {o[1]!r} for {call_text(c)}"
        out.append((m, fail, dis))
    return out


def shrink_value_case(c):
    """simplify the arguments that are not needed for the failure: every subset of {text -> 'a', font_size -> 12,
    dpi -> 72.0, the other of font / unit -> a plain supported value}; the candidate with most defaults that still fails"""
    import itertools

    simple = dict(text=tv("str", s="a"), size=tv("int", v=12), dpi=tv("float", x=72.0))
    if py_font_class(c["font"]) != "supported" and py_unit_class(c["unit"]) in ("supported", "lenient"):
        simple["unit"] = tv("str", s="in")
    elif py_unit_class(c["unit"]) != "supported" and py_font_class(c["font"]) in ("supported", "lenient"):
        simple["font"] = tv("int", v=4)
    keys = list(simple)
    cands = []
    for r in range(len(keys), 0, -1):
        for sub in itertools.combinations(keys, r):
            d = dict(c)
            for k in sub:
                d[k] = simple[k]
            d["shrunk_from"] = call_text(c)
            cands.append(d)
    cands = (cands + [c] * 4)[:max(4, len(cands))]
    obs = common.pool_map(_value_worker, cands, chunksize=1)
    for d, (m, fail, _) in zip(cands, value_verdicts(cands, obs)):
        if fail:
            return d, fail
    return None


def judge_values(res, cases, obs):
    free_obs, free_model = {}, [0, 0, 0]
    failures = []
    for c, o, (m, fail, dis) in zip(cases, obs, value_verdicts(cases, obs)):
        ex = m["expected"]
        res.count("value:" + c["kind"])
        res.count("value_expected:" + ex)
        key = None
        if ex != "free":
            res.corr_checked += 1
            key = ("v", ex, tv_show(c["font"]), tv_show(c["unit"]), tv_type(c["size"]), tv_type(c["dpi"]))
            if m["font_class"] != "supported":
                res.count(f"value_font_{m['font_class']}:{tv_type(c['font'])}")
            if m["unit_class"] != "supported":
                res.count(f"value_unit_{m['unit_class']}:{tv_type(c['unit'])}")
            res.count("value_size_type:" + tv_type(c["size"]))
            res.count("value_dpi_type:" + tv_type(c["dpi"]))
        else:
            # not judged: what happened is recorded per class; the model's prediction is counted, never a verdict
            reason = _free_reason(c, m)
            res.count("value_free:" + reason.split(":")[0])
            seen = o[1] if o[0] == "err" else "a width" if o[0] == "ok" else f"a {o[2]}"
            free_obs.setdefault(reason, {})
            free_obs[reason][seen] = free_obs[reason].get(seen, 0) + 1
            mr = m["model"]
            if "unmodelled" in mr:
                free_model[2] += 1
            elif (mr.get("err") == o[1] if o[0] == "err" else "ok" in mr and o[0] == "ok"):
                free_model[0] += 1
            else:
                free_model[1] += 1
                if len([n for n in res.notes if n.startswith("not judged")]) < 5:
                    res.notes.append(f"not judged (outside the statement): model says {mr} but {call_text(c)} "
                                     f"{_obs_text(o)}")
        res.case(c, key)
        if fail:
            failures.append((c, fail))
        elif dis:
            res.disagree(c, dis)
    if failures:
        # the simplest failing call first (it becomes the replay), shrunk further
        failures.sort(key=lambda cf: (py_expected(cf[0]) != "ValueError", len(call_text(cf[0])), call_text(cf[0])))
        small = shrink_value_case(failures[0][0])
        if small:
            failures.insert(0, small)
        for c, why in failures:
            res.fail(c, why)
    res.extra["value_stream"] = dict(
        judged=sum(v for k, v in res.distribution.items() if k.startswith("value_expected:") and not k.endswith("free")),
        not_judged=res.distribution.get("value_expected:free", 0),
        not_judged_classes=FREE_BASELINE,
        not_judged_observed={k: free_obs[k] for k in sorted(free_obs)},
        not_judged_model=dict(agrees=free_model[0], differs=free_model[1], unmodelled=free_model[2]))


# ------------------------------------------------------------------ L1 / L2 correspondence


def file_of(echo, k):
    name = dict((n, nm) for n, nm in echo["number_to_name"]).get(k)
    return dict((a, b) for a, b in echo["paths"]).get(name)


def exhaustive_slices(res, echo, specs):
    """specs = [(font number or name, size)]; measures all single characters and all ordered pairs."""
    a = alpha()
    finfo = {f["file"]: f for f in echo["fonts"]}
    for font, size in specs:
        k = font if isinstance(font, int) else {v: n for n, v in FONT_NAMES.items()}[font]
        file = file_of(echo, k)
        info = finfo.get(file, dict(is_l2=False, ctx=[]))
        singles = common.pool_map(_widths_worker, [(font, size, a[i:i + 25]) for i in range(0, len(a), 25)], chunksize=1)
        A = {}
        for chunk_i, vals in enumerate(singles):
            for j, v in enumerate(vals):
                A[a[chunk_i * 25 + j]] = v
        rows = common.pool_map(_table_worker, [(font, size, x, a) for x in a], chunksize=4)
        case = dict(level="tables", font=font, size=size, file=file)
        non26 = [c for c, v in A.items() if v != int(v)]
        if non26:
            res.disagree(case, f"advance of {non26[:3]!r} is not a multiple of 1/64 px")
            continue
        Ai = {c: int(v) for c, v in A.items()}
        K = []
        pair_w = {}
        bad26 = 0
        for x, row in zip(a, rows):
            for y, v4096 in zip(a, row):
                if v4096 % 4096:
                    bad26 += 1
                    continue
                wv = v4096 // 4096
                pair_w[(x, y)] = wv
                kv = wv - Ai[x] - Ai[y]
                if kv:
                    K.append([ord(x), ord(y), kv])
        if bad26:
            res.disagree(case, f"{bad26} pair widths are not multiples of 1/64 px")
            continue
        # random strings through the L1 fold + the table hypotheses, both by the Lean definitions
        rng = sub_rng(res.seed, "c20x", str(font), size)
        texts, skipped = [], 0
        ctx = set(info["ctx"])
        while len(texts) < 400:
            t, d = l1_text(rng, ctx, 3, 40)
            skipped += d
            texts.append(t)
        real = [v for chunk in common.pool_map(_widths_worker, [(font, size, texts[i:i + 25]) for i in range(0, 400, 25)],
                                               chunksize=1) for v in chunk]
        reqs = [dict(op="sw_l1", A=[[ord(c), v] for c, v in Ai.items()], K=K, texts=[cps(t) for t in texts],
                     alpha=cps("".join(a)))]
        if info["is_l2"]:
            pair_texts = [x + y for x in a for y in a]
            reqs.append(dict(op="sw_l2", file=file, size=frac(size), texts=[cps(t) for t in texts] +
                             [cps(p) for p in pair_texts] + [[ord(c)] for c in a], alpha=cps("".join(a))))
        outs = common.driver_batch(reqs)
        l1 = outs[0]
        res.count("tables_exhaustive")
        res.count("tables_pairs_measured", len(a) * len(a))
        res.count("l1_chars_deleted_shaping_touched", skipped)
        res.extra.setdefault("table_slices", []).append(
            dict(font=font, size=size, file=file, nonzero_pairs=len(K), hypotheses_violated=l1["n_table_violations"]))
        if l1["n_table_violations"]:
            x, y = l1["table_violations"][0]
            if x == y and Ai[chr(x)] < 0:
                res.fail(dict(level="oracle-pair", font=font, size=size, text=chr(x)),
                         f"negative width {Ai[chr(x)] / 64} px for {chr(x)!r}")
            else:
                res.fail(dict(level="oracle-pair", font=font, size=size, text=chr(x) + chr(y)),
                         f"appending {chr(y)!r} to {chr(x)!r} decreases the width: {Ai[chr(x)] / 64} -> "
                         f"{pair_w[(chr(x), chr(y))] / 64} px ({l1['n_table_violations']} such pairs)")
        for t, rv, mv in zip(texts, real, l1["px64"]):
            res.corr_checked += 1
            res.case(dict(level="l1", font=font, size=size, text=t), ("l1", str(font), size, t))
            res.count("l1")
            if rv != mv:
                res.disagree(dict(level="l1", font=font, size=size, text=t, file=file),
                             f"L1 additive model gives {mv}/64 px, implementation {rv}/64 px")
        if info["is_l2"]:
            l2 = outs[1]
            if l2["n_table_violations"]:
                raise common.MachineryError("L2 tables violate TableOK although C20_L2_tables is proved")
            n = len(texts)
            for t, rv, mv in zip(texts, real, l2["px64"][:n]):
                res.corr_checked += 1
                res.count("l2")
                if rv != mv:
                    res.disagree(dict(level="l2", font=font, size=size, text=t, file=file),
                                 f"L2 model gives {mv}/64 px, implementation {rv}/64 px")
            mism = 0
            first = None
            for p, mv in zip(pair_texts, l2["px64"][n:n + len(pair_texts)]):
                if pair_w[(p[0], p[1])] != mv:
                    mism += 1
                    first = first or (p, mv, pair_w[(p[0], p[1])])
            for ch, mv in zip(a, l2["px64"][n + len(pair_texts):]):
                if Ai[ch] != mv:
                    mism += 1
                    first = first or (ch, mv, Ai[ch])
            res.corr_checked += len(pair_texts) + len(a)
            res.count("l2_pairs_exhaustive", len(pair_texts))
            if mism:
                res.disagree(dict(level="l2", font=font, size=size, text=first[0], file=file),
                             f"L2 tables differ from Pillow on {mism} characters/pairs, e.g. {first[0]!r}: model "
                             f"{first[1]}/64, implementation {first[2]}/64 px")


def sampled_l1_l2(res, echo, n_groups, per_group):
    """random (font, size) groups: tables measured on demand for the characters/pairs that occur"""
    finfo = {f["file"]: f for f in echo["fonts"]}
    groups = []
    for g in range(n_groups):
        rng = sub_rng(res.seed, "c20g", g)
        k = rng.randint(1, 10)
        font = k if rng.random() < 0.5 else FONT_NAMES[k]
        size = gen_size(rng)
        file = file_of(echo, k)
        info = finfo.get(file, dict(is_l2=False, ctx=[]))
        texts, skipped = [], 0
        ctx = set(info["ctx"])
        while len(texts) < per_group:
            t, d = l1_text(rng, ctx, 3, 30)
            skipped += d
            texts.append(t)
        chars = sorted(set("".join(texts)))
        pairs = sorted(set(t[i:i + 2] for t in texts for i in range(len(t) - 1)))
        groups.append(dict(font=font, size=size, file=file, info=info, texts=texts, chars=chars, pairs=pairs,
                           skipped=skipped))
    jobs = [(g["font"], g["size"], g["texts"] + g["chars"] + g["pairs"]) for g in groups]
    meas = common.pool_map(_widths_worker, jobs, chunksize=1)
    reqs, plan = [], []
    for g, vals in zip(groups, meas):
        nt, nc = len(g["texts"]), len(g["chars"])
        real, wa, wp = vals[:nt], vals[nt:nt + nc], vals[nt + nc:]
        case = dict(level="tables", font=g["font"], size=g["size"], file=g["file"])
        if any(v != int(v) for v in vals):
            res.disagree(case, "a width is not a multiple of 1/64 px")
            continue
        A = {c: int(v) for c, v in zip(g["chars"], wa)}
        K = []
        for p, v in zip(g["pairs"], wp):
            kv = int(v) - A[p[0]] - A[p[1]]
            if kv:
                K.append([ord(p[0]), ord(p[1]), kv])
            if A[p[1]] + kv < 0:
                res.fail(dict(level="oracle-pair", font=g["font"], size=g["size"], text=p),
                         f"appending {p[1]!r} to {p[0]!r} decreases the width")
        reqs.append(dict(op="sw_l1", A=[[ord(c), v] for c, v in A.items()], K=K, texts=[cps(t) for t in g["texts"]]))
        plan.append((g, real, "l1"))
        if g["info"]["is_l2"]:
            reqs.append(dict(op="sw_l2", file=g["file"], size=frac(g["size"]), texts=[cps(t) for t in g["texts"]]))
            plan.append((g, real, "l2"))
        res.count("l1_chars_deleted_shaping_touched", g["skipped"])
    outs = common.driver_batch(reqs)
    for (g, real, lvl), o in zip(plan, outs):
        for t, rv, mv in zip(g["texts"], real, o["px64"]):
            res.corr_checked += 1
            res.count(lvl)
            if lvl == "l1":
                res.case(dict(level="l1", font=g["font"], size=g["size"], text=t), ("l1", str(g["font"]), g["size"], t))
            if int(rv) != mv:
                res.disagree(dict(level=lvl, font=g["font"], size=g["size"], text=t, file=g["file"]),
                             f"{lvl.upper()} model gives {mv}/64 px, implementation {rv}/64 px")


# ------------------------------------------------------------------ recorded findings (never part of the verdict unless listed)

FINDINGS = {
    "C20-mono-zero-advance": dict(
        what="monospaced font (Courier New = Liberation Mono): U+0374, U+0375, U+037A have advance 0, so width != "
             "character count x single advance",
        call=lambda w: (w("aͺ", "Courier New", 12, "px"), 2 * w("a", "Courier New", 12, "px")),
        fails=lambda r: r[0] != r[1]),
    "C20-scaling-quantization": dict(
        what="size scaling beyond 1 % at small sizes (26.6 rounding): '|' in Arial is 0.2617 px/pt at size 4 and "
             "0.2589 px/pt at size 7 (1.07 %)",
        call=lambda w: (w("|", "Arial", 4, "px") / 4, w("|", "Arial", 7, "px") / 7),
        fails=lambda r: 100 * abs(r[0] - r[1]) > max(r)),
    "C20-soft-hyphen": dict(
        what="D21: U+00AD (category Cf, outside the property's printable alphabet) has zero width: 'a\\u00adb' in "
             "Courier New measures 2 advances for 3 characters",
        call=lambda w: (w("a­b", "Courier New", 12, "px"), 3 * w("a", "Courier New", 12, "px")),
        fails=lambda r: r[0] != r[1]),
}


def findings_stream(res) -> list[str]:
    w = _gsw()
    listed = {e.get("id") for e in common.known_findings("C20")}
    lines = []
    for fid, f in FINDINGS.items():
        try:
            r = f["call"](w)
            still = f["fails"](r)
        except Exception as e:  # noqa: BLE001
            r, still = f"{type(e).__name__}: {e}", True
        if fid in listed:
            res.known_hits[fid] = int(still)
            if still:
                lines.append(f"KNOWN-FINDING: property=C20 {fid}: {f['what']} (observed {r})")
        else:
            res.notes.append(f"{'reproduced' if still else 'no longer reproduced'}, not listed in known_findings.json: "
                             f"{fid}: {f['what']} (observed {r})")
    # in-class inputs are explored only while the finding is listed (explained deviation: zero-advance characters
    # contribute nothing, everything else must still add up)
    if "C20-mono-zero-advance" in listed:
        for i in range(200):
            rng = sub_rng(res.seed, "c20f", i)
            t, _ = gen_text(rng, 1, 20)
            t += rng.choice(sorted(MONO_ZERO))
            s = gen_size(rng)
            a = w("0", MONO_FONT, s, "px")
            expl = (len(t) - sum(c in MONO_ZERO for c in t)) * a
            got = w(t, MONO_FONT, s, "px")
            res.count("mono_in_known_class")
            if got != expl:
                res.fail(dict(level="oracle-mono-known", text=t, font=MONO_FONT, size=s),
                         f"monospaced width {got} differs from count x advance by more than the zero-advance "
                         f"characters explain ({expl})")
    return lines


# ------------------------------------------------------------------ anchored-function line coverage (thorough)


def line_coverage(res):
    import inspect
    import sys

    import rtflite.strwidth as sw

    fn = sw.get_string_width
    code = fn.__code__
    src, first = inspect.getsourcelines(fn)
    body_lines = {ln for _, _, ln in code.co_lines() if ln is not None and ln > first}
    hit = set()

    def tracer(frame, event, arg):
        if frame.f_code is code:
            if event == "line":
                hit.add(frame.f_lineno)
            return tracer
        return None

    calls = [("ab", 1, 12, "in", 72.0), ("ab", "Arial", 9.5, "mm", 300.0), ("ab", 9, 10, "px", 72.0),
             ("ab", 11, 12, "in", 72.0), ("ab", "Nope", 12, "in", 72.0), ("ab", 1, 12, "cm", 72.0)]
    sys.settrace(tracer)
    try:
        for c in calls:
            try:
                fn(*c)
            except ValueError:
                pass
    finally:
        sys.settrace(None)
    res.extra["anchored_line_coverage"] = dict(function="rtflite.strwidth.get_string_width",
                                               executable_lines=len(body_lines), hit=len(hit & body_lines),
                                               missed=sorted(body_lines - hit))


# ------------------------------------------------------------------ run / replay


def pick_slices(res, tier):
    """(font, size) pairs measured exhaustively; rotates with the seed, always includes an L2 font and one of Carlito/Gelasio/Caladea"""
    rng = sub_rng(res.seed, "c20slices")
    sizes = [4.0, 5.0, 7.5, 9.0, 10.5, 12.0, 18.25, 24.0, 33.328125, 48.0]
    if tier == "quick":
        ks = [rng.choice([1, 2, 10, 3, 4, 5]), rng.choice([6, 7, 8]), MONO_FONT if rng.random() < 0.3 else rng.randint(1, 10)]
        return [((k if rng.random() < 0.5 else FONT_NAMES[k]), rng.choice(sizes)) for k in ks]
    out = []
    for k in range(1, 11):
        for s in rng.sample(sizes, 4):
            out.append(((k if rng.random() < 0.5 else FONT_NAMES[k]), s))
    return out


def run(res: common.Result, build) -> int:
    echo = check_tables_echo(res)
    quick = res.tier == "quick"
    # oracle on the implementation
    cases = oracle_cases(res, 2500 if quick else 40000)
    obs = common.pool_map(_oracle_worker, cases, chunksize=16)
    judge_oracle(res, cases, obs)
    # error cases + whole-model correspondence
    calls = model_calls(res, 1500 if quick else 20000)
    mobs = common.pool_map(_model_worker, calls, chunksize=64)
    judge_model(res, calls, mobs, echo)
    # every argument over Python value types: what the statement demands (Lean `expected`) vs what happened
    vcases = value_grid() + value_cases(res, 6000 if quick else 60000)
    vobs = common.pool_map(_value_worker, vcases, chunksize=64)
    judge_values(res, vcases, vobs)
    # L1 / L2
    sampled_l1_l2(res, echo, 60 if quick else 1200, 40)
    exhaustive_slices(res, echo, pick_slices(res, res.tier))
    known_lines = findings_stream(res)
    if not quick:
        try:
            line_coverage(res)
        except Exception as e:  # noqa: BLE001
            res.notes.append(f"line coverage unavailable: {e}")
    return common.finish(
        res, build, RULE, TRUSTED, ASSUME, known_lines=known_lines,
        explanation="Proved for all strings/sizes/dpi and all tables: C20_empty, C20_nonneg, C20_append, C20_nonneg_append_on "
                    "(hypotheses on a finite alphabet only), C20_units(_pred), "
                    "C20_number_name, C20_monospace, C20_unknown_*; over every Python value class of every argument "
                    "(Props/C20val): C20_val_expected, C20_val_unsupported_font (whatever the other arguments), "
                    "C20_val_unsupported_unit (whatever the dpi), C20_val_refines (= the typed model on typed "
                    "arguments); for every generated font and every size: "
                    "C20_L2_tables, C20_L2_nonneg_append, C20_L2_scaling_bound. PARTIAL (explicit hypotheses, literal "
                    "clause refuted by a kernel-checked witness): C20_mono_partial / C20_mono_witness (U+0374, U+0375, "
                    "U+037A have advance 0 in Liberation Mono), C20_scaling_partial / C20_scaling_witness ('|' in Arial "
                    "at sizes 4 and 7). Sampled, not proved: that Pillow/HarfBuzz/FreeType are L1 (all fonts, outside "
                    "the shaping-touched characters of Carlito/Gelasio/Caladea) and L2 (Liberation faces); the 1 % relation for "
                    "Carlito/Caladea/Gelasio and on the statistical domain.")


def replay(payload) -> int:
    case = payload.get("case") or {}
    broken = payload.get("broken")
    if broken and not case:
        for b in broken:
            if b.get("kind") == "correspondence":
                case = b.get("case") or {}
    lvl = case.get("level")
    res = common.Result("C20", "quick", 0)
    echo = common.driver_batch([dict(op="sw_tables")])[0]
    if lvl == "oracle":
        o = _oracle_worker(case)
        print("observed:", {k: v for k, v in o.items() if k != "singles"})
        judge_oracle(res, [case], [o])
    elif lvl == "model":
        o = _model_worker(case)
        print("observed:", o)
        judge_model(res, [case], [o], echo)
    elif lvl == "value":
        o = common.isolated(_value_worker, case)
        print("call:", call_text(case))
        print("observed:", _obs_text(o))
        m, fail, dis = value_verdicts([case], [o])[0]
        print(f"statement (Lean `expected`): font {m['font_class']}, unit {m['unit_class']} -> {m['expected']}; "
              f"model: {m['model']}")
        if fail:
            res.fail(case, fail)
        elif dis:
            res.disagree(case, dis)
    elif lvl in ("oracle-pair", "oracle-mono-known"):
        w = _gsw()
        t = case["text"]
        ws = [w(t[:i], case["font"], case["size"], "px") for i in range(len(t) + 1)]
        print("prefix widths (px):", ws)
        if any(b < a for a, b in zip(ws, ws[1:])) or any(x < 0 for x in ws):
            res.fail(case, "width negative or decreasing along the prefixes")
        if lvl == "oracle-mono-known":
            a = w("0", case["font"], case["size"], "px")
            if ws[-1] != (len(t) - sum(c in MONO_ZERO for c in t)) * a:
                res.fail(case, "monospaced width not explained by zero-advance characters")
    elif lvl in ("l1", "l2", "tables"):
        w = _gsw()
        t = case.get("text") or "AV"
        font, size = case["font"], case["size"]
        real = w(t, font, size, "px") * 64
        chars = sorted(set(t))
        A = {c: int(w(c, font, size, "px") * 64) for c in chars}
        K = []
        for i in range(len(t) - 1):
            kv = int(w(t[i:i + 2], font, size, "px") * 64) - A[t[i]] - A[t[i + 1]]
            if kv:
                K.append([ord(t[i]), ord(t[i + 1]), kv])
        reqs = [dict(op="sw_l1", A=[[ord(c), v] for c, v in A.items()], K=K, texts=[cps(t)])]
        k = font if isinstance(font, int) else {v: n for n, v in FONT_NAMES.items()}.get(font)
        file = file_of(echo, k)
        info = {f["file"]: f for f in echo["fonts"]}.get(file)
        if info and info["is_l2"]:
            reqs.append(dict(op="sw_l2", file=file, size=frac(size), texts=[cps(t)]))
        outs = common.driver_batch(reqs)
        print(f"implementation: {real}/64 px; L1 model: {outs[0]['px64'][0]}/64 px" +
              (f"; L2 model: {outs[1]['px64'][0]}/64 px" if len(outs) > 1 else ""))
        if any(o["px64"][0] != real for o in outs):
            print("model and implementation disagree on this input (correspondence broken; not by itself a failing input)")
            print("VIOLATION property=C20 replay=<given> no-failing-input-found")
            return 1
    else:
        print("unknown replay payload")
        return 2
    for _, why in res.failures:
        print("FAIL:", why)
    for _, why in res.disagreements:
        print("DISAGREE:", why)
    if res.failures:
        print("VIOLATION property=C20 replay=<given>")
        return 1
    if res.disagreements:
        print("VIOLATION property=C20 replay=<given> no-failing-input-found")
        return 1
    print("property holds on this input")
    return 0
