"""C05 — every data row sits under its own group heading on its own page.

Theorems: lean/Props/C05.lean about `renderPage` / `bodyBlocks` / `boundaryHeadings`.
Oracle on the implementation (independent of the model), from the sentinel-classified real output and the
keys known from the generated frame:
  * for every data row and every page_by level whose value is not '-----': the last heading of that level
    before the row ON THE SAME PAGE carries the row's value;
  * a heading is directly followed on the same page by a heading of a deeper level or by a data row;
  * no heading carries '-----'; divider rows are still rendered as data rows;
  * with subline_by every page carries exactly one heading paragraph, naming the single subline group of its rows
    (the values of the subline_by columns, ', '-joined; '-----' values are not named, a group of dividers only gets no
    paragraph).
Input classes beyond the plain ones: the grouping options COMBINED on one RTFBody — group_by (extra key columns whose
runs straddle group changes and page breaks / data columns / the page_by columns where they stay in the table) with
subline_by (1-2 columns, divider groups) and/or page_by (1-3 levels; new_page off, new_page + first_row, new_page +
column), each column-name argument spelled as list / tuple / bare string.
Correspondence: the (role, level, text | row) sequence per page of the Lean layout equals the observed one.
"""
from __future__ import annotations

from .. import laygen, layfamily

MANIFEST = dict(
    text="Lean theorems over renderPage/bodyBlocks for every key sequence (1..n page_by levels, dividers), page cut "
         "and flag: each level's current value heads the row on the row's own page (page-top re-emission included), "
         "outer before inner, a heading is never stranded, dividers never produce a heading, one subline heading per "
         "page. Tied to the code by observation of sentinel-tagged documents with group runs of every length relative "
         "to the page capacity, and with the grouping options combined on one RTFBody (group_by x subline_by of 1-2 "
         "columns x page_by as spanning rows / new_page + first_row / new_page + column, each argument spelled as list, "
         "tuple or bare string; '-----' subline groups).",
    note="Proved for non-null page_by values (null groups get no heading by design of the code: `if val is None: "
         "continue`); the property quantifies over sorted key sequences of real values. group_by is role-neutral in the "
         "model (it blanks cell texts only): documents with group_by are compared with the same LDoc as without it, so a "
         "group_by that changes a heading or a page cut shows as a failing input / disagreement.",
    technique="Lean 4 proof (invariant over page boundaries with the remembered values) + observation-level correspondence",
    design="7/C05",
)

RULE = ("sorted hierarchical key sequences with 1-3 page_by levels and/or subline_by, runs of every length relative to "
        "the page capacity, numeric / boolean keys starting at 0 / 0.0 / False, adjacent groups whose key tuples differ while their concatenations coincide, nrow 3..30, new_page on/off, pageby_row column/first_row, pageby_header on/off, all header "
        "modes, '-----' divider groups (page_by and subline_by); every combination of group_by (none / 1-2 key columns / data "
        "columns / page_by columns kept in the table) x subline_by (none / 1 / 2 columns) x page_by (none / spanning rows / "
        "new_page + first_row / new_page + column) on one RTFBody, the three arguments spelled list / tuple / str; non-trivial = spanning rows shown, ≥ 2 pages and at least one group continuing "
        "across a page break or changing mid-page; distinct by (strategy, nrow, per-page block sequence)")


class C05(layfamily.Family):
    prop, tag = "C05", "c05"

    BASE = dict(quick=360, thorough=5000)
    COMBINED = dict(quick=240, thorough=2400)
    C_STRATEGIES = ["subline_page_by", "subline_page_by_np_first", "subline_page_by_np", "subline", "page_by",
                    "page_by_np_first", "page_by_np", "subline_page_by"]
    C_GROUP = ["key", "data", "key2", "page_by_col", None]

    def ndocs(self, tier):
        t = "quick" if tier == "quick" else "thorough"
        return self.BASE[t] + self.COMBINED[t]

    def gen_combined(self, rng, j):
        """the grouping options combined on one body: strategy (8) x group_by kind (5) cycle through all 40 pairs"""
        strategy = self.C_STRATEGIES[j % 8]
        group = self.C_GROUP[j % 5]
        has_sub = strategy.startswith("subline")
        dividers = rng.random() < 0.5
        if group == "page_by_col" and strategy == "page_by_np":
            dividers = False          # group_by refuses a value that comes back ('-----' groups are not contiguous)
        spec, info = laygen.gen_spec(rng, strategy=strategy, nrow=rng.randint(3, 30), n=rng.randint(1, 45),
                                     dividers=dividers, long_rows=(j % 5 == 0), group_by=group,
                                     sublevels=(2 if has_sub and rng.random() < 0.3 else 1),
                                     subline_dividers=(has_sub and rng.random() < 0.3),
                                     levels=rng.choice([1, 1, 2, 3]))
        sp = {}
        for opt in ("group_by", "page_by", "subline_by"):
            names = spec["body"].get(opt)
            if names:
                how = rng.choice(["list", "list", "tuple", "tuple", "str"])
                if how == "str" and len(names) != 1:
                    how = "tuple"
                sp[f"body.{opt}"] = how
        spec["spelling"] = sp
        pb_kind = ("none" if not info["page_by"] else "spanning" if not info["new_page"] else
                   "np-" + info["pageby_row"])
        labels = ["combined-doc", f"combined:group_by={info['group_kind']}", f"combined:page_by={pb_kind}",
                  f"combined:subline_by={len(info['subline_by'] or [])}col",
                  "combined:group_by=%s+subline_by=%s+page_by=%s" % ("yes" if info["group_by"] else "no",
                                                                      "yes" if has_sub else "no", pb_kind)]
        labels += [f"spell:{k2}={v}" for k2, v in sorted(sp.items())]
        if info["subline_by"] and any(r[spec["df"]["cols"].index(c)] == "-----" for r in spec["df"]["rows"]
                                      for c in info["subline_by"]):
            labels.append("combined:subline-divider-group")
        info["labels"] = sorted(set(labels))
        return spec, info

    def permute(self, rng, spec, info):
        # grouping columns need not be stored in the frame in page_by order, nor before the data columns
        cols = spec["df"]["cols"]
        order = list(range(len(cols)))
        rng.shuffle(order)
        spec["df"]["cols"] = [cols[i] for i in order]
        spec["df"]["rows"] = [[r[i] for i in order] for r in spec["df"]["rows"]]
        removed = set(info["removed"])
        info["displayed"] = [c for c in spec["df"]["cols"] if c not in removed]

    def gen(self, rng, k, tier):
        base = self.BASE["quick" if tier == "quick" else "thorough"]
        if k >= base:
            spec, info = self.gen_combined(rng, k - base)
            if rng.random() < 0.6:
                self.permute(rng, spec, info)
            return spec, info
        strategy = ["page_by", "page_by", "page_by_np_first", "page_by_np", "subline", "subline_page_by"][k % 6]
        collide = strategy.startswith("page_by") and k % 4 == 1
        spec, info = laygen.gen_spec(rng, strategy=strategy, nrow=rng.randint(3, 30), n=rng.randint(1, 45),
                                     dividers=(k % 2 == 0 and k % 7 != 3), long_rows=(k % 5 == 0), collide=collide,
                                     numeric_keys=(strategy.startswith("page_by") and k % 7 == 3 and not collide),
                                     levels=(rng.choice([2, 3]) if collide else None))
        if k % 3 != 0:
            # grouping columns need not be stored in the frame in page_by order, nor before the data columns
            cols = spec["df"]["cols"]
            order = list(range(len(cols)))
            rng.shuffle(order)
            spec["df"]["cols"] = [cols[i] for i in order]
            spec["df"]["rows"] = [[r[i] for i in order] for r in spec["df"]["rows"]]
            removed = set(info["removed"])
            info["displayed"] = [c for c in spec["df"]["cols"] if c not in removed]
            h = spec["headers"]
            if isinstance(h, list):
                for hh in h:
                    if hh and len(hh.get("text", [])) == len(info["displayed"]) and len(hh["text"]) > 1:
                        pass  # header labels are positional (one per displayed column); nothing to permute
        return spec, info

    def oracle(self, spec, info, ob):
        fails = []
        cols = spec["df"]["cols"]
        rows = spec["df"]["rows"]
        pb = info["page_by"] or []
        sb = info["subline_by"] or []
        spanning = bool(pb) and (not info["new_page"] or info["pageby_row"] != "column")
        seen = []
        for pno, blocks in enumerate(ob["pages"], 1):
            last = {}
            for j, b in enumerate(blocks):
                if b[0] == "heading":
                    if not spanning:
                        fails.append(f"page {pno}: heading {b} although page_by values are shown as a column")
                    if b[2] == "-----":
                        fails.append(f"page {pno}: a divider value is rendered as a heading")
                    nxt = blocks[j + 1] if j + 1 < len(blocks) else None
                    ok = nxt is not None and (nxt[0] == "data" or (nxt[0] == "heading" and nxt[1] > b[1]))
                    if not ok:
                        fails.append(f"page {pno}: heading {b} is followed by {nxt} (stranded or out of order)")
                    last = {l: t for l, t in last.items() if l < b[1]}   # an outer heading clears the inner ones
                    last[b[1]] = b[2]
                elif b[0] == "data":
                    i = b[1]
                    seen.append(i)
                    if spanning and i < len(rows):
                        for lvl, c in enumerate(pb):
                            v = rows[i][cols.index(c)]
                            if str(v) == "-----":
                                continue
                            if last.get(lvl) != str(v):
                                fails.append(f"page {pno}: row {i} has {c}={v!r} but the level-{lvl} heading in force "
                                             f"on this page is {last.get(lvl)!r}")
            if sb and info["n"] > 0:
                # a paragraph that is no title / subline text / footnote / source is a heading paragraph, whatever it shows
                hs = [b for b in blocks if b[0] in ("sublineHeading", "unknown-para")]
                si = [cols.index(c) for c in sb]
                groups = {tuple(str(rows[b[1]][j]) for j in si) for b in blocks if b[0] == "data" and b[1] < len(rows)}
                if len(groups) != 1:
                    fails.append(f"page {pno}: its rows belong to {len(groups)} subline groups {sorted(groups)[:4]}")
                    continue
                named = [v for v in next(iter(groups)) if v != "-----"]      # a divider value is never named
                if not named:
                    if hs:
                        fails.append(f"page {pno}: a '-----' subline group produced the heading paragraph {hs[0][1]!r}")
                elif len(hs) != 1:
                    fails.append(f"page {pno}: {len(hs)} subline heading paragraphs")
                elif hs[0][1] != ", ".join(named):
                    fails.append(f"page {pno}: subline heading {hs[0][1]!r} but its rows carry the subline group "
                                 f"{', '.join(named)!r} ({dict(zip(sb, next(iter(groups))))})")
        if sorted(seen) != list(range(info["n"])):
            fails.append(f"not every row is rendered exactly once as a data row (dividers included): {sorted(seen)[:40]}")
        return fails[:5]

    def project(self, pages, info):
        # blocks nothing explains (a full-width row or a paragraph that is no heading of the document) are compared too:
        # the model never has them
        keep = ("heading", "data", "sublineHeading", "unknown-row", "unknown-para", "data-untagged")
        return [[b for b in p if b[0] in keep] for p in pages]

    def nontrivial(self, spec, info, ob):
        pages = ob["pages"]
        if len(pages) < 2:
            return None
        nh = sum(1 for p in pages for b in p if b[0] in ("heading", "sublineHeading"))
        if nh < 2:
            return None
        return [info["strategy"], info["nrow"], str(self.project(pages, info))[:300]]


FAM = C05()


def run(res, build):
    return layfamily.run_family(
        FAM, res, build, RULE, layfamily.TRUSTED_COMMON, layfamily.ASSUME_COMMON,
        explanation="C05_under_own_heading, C05_heading_followed, C05_no_divider_heading, "
                    "C05_no_heading_without_spanning, C05_subline_heading hold for every LDoc/page satisfying the "
                    "stated hypotheses (non-null keys, one value per level, page inside the table).")


def replay(payload):
    return layfamily.replay_family(FAM, payload)
