"""C05 — every data row sits under its own group heading on its own page.

Theorems: lean/Props/C05.lean about `renderPage` / `bodyBlocks` / `boundaryHeadings`.
Oracle on the implementation (independent of the model), from the sentinel-classified real output and the
keys known from the generated frame:
  * for every data row and every page_by level whose value is not '-----': the last heading of that level
    before the row ON THE SAME PAGE carries the row's value;
  * a heading is directly followed on the same page by a heading of a deeper level or by a data row;
  * no heading carries '-----'; divider rows are still rendered as data rows;
  * with subline_by every page carries exactly one heading paragraph, naming the single subline value of its rows.
Correspondence: the (role, level, text | row) sequence per page of the Lean layout equals the observed one.
"""
from __future__ import annotations

from .. import laygen, layfamily

MANIFEST = dict(
    text="Lean theorems over renderPage/bodyBlocks for every key sequence (1..n page_by levels, dividers), page cut "
         "and flag: each level's current value heads the row on the row's own page (page-top re-emission included), "
         "outer before inner, a heading is never stranded, dividers never produce a heading, one subline heading per "
         "page. Tied to the code by observation of sentinel-tagged documents with group runs of every length relative "
         "to the page capacity.",
    note="Proved for non-null page_by values (null groups get no heading by design of the code: `if val is None: "
         "continue`); the property quantifies over sorted key sequences of real values.",
    technique="Lean 4 proof (invariant over page boundaries with the remembered values) + observation-level correspondence",
    design="7/C05",
)

RULE = ("sorted hierarchical key sequences with 1-3 page_by levels and/or subline_by, runs of every length relative to "
        "the page capacity, numeric / boolean keys starting at 0 / 0.0 / False, adjacent groups whose key tuples differ while their concatenations coincide, nrow 3..30, new_page on/off, pageby_row column/first_row, pageby_header on/off, all header "
        "modes, '-----' divider groups; non-trivial = spanning rows shown, ≥ 2 pages and at least one group continuing "
        "across a page break or changing mid-page; distinct by (strategy, nrow, per-page block sequence)")


class C05(layfamily.Family):
    prop, tag = "C05", "c05"

    def ndocs(self, tier):
        return 360 if tier == "quick" else 5000

    def gen(self, rng, k, tier):
        strategy = ["page_by", "page_by", "page_by_np_first", "page_by_np", "subline", "subline_page_by"][k % 6]
        collide = strategy.startswith("page_by") and k % 4 == 1
        spec, info = laygen.gen_spec(rng, strategy=strategy, nrow=rng.randint(3, 30), n=rng.randint(1, 45),
                                     dividers=(k % 2 == 0 and k % 7 != 3), long_rows=(k % 5 == 0), collide=collide,
                                     numeric_keys=(strategy.startswith("page_by") and k % 7 == 3 and not collide),
                                     levels=(rng.choice([2, 3]) if collide else None))
        if k % 3 != 0:
            # grouping columns need not be stored in the frame in page_by order, nor before the data columns
            cols = spec["df"]["cols"]
            order = list(range(len(cols)))
            rng.shuffle(order)
            spec["df"]["cols"] = [cols[i] for i in order]
            spec["df"]["rows"] = [[r[i] for i in order] for r in spec["df"]["rows"]]
            removed = set(info["removed"])
            info["displayed"] = [c for c in spec["df"]["cols"] if c not in removed]
            h = spec["headers"]
            if isinstance(h, list):
                for hh in h:
                    if hh and len(hh.get("text", [])) == len(info["displayed"]) and len(hh["text"]) > 1:
                        pass  # header labels are positional (one per displayed column); nothing to permute
        return spec, info

    def oracle(self, spec, info, ob):
        fails = []
        cols = spec["df"]["cols"]
        rows = spec["df"]["rows"]
        pb = info["page_by"] or []
        sb = info["subline_by"] or []
        spanning = bool(pb) and (not info["new_page"] or info["pageby_row"] != "column")
        seen = []
        for pno, blocks in enumerate(ob["pages"], 1):
            last = {}
            for j, b in enumerate(blocks):
                if b[0] == "heading":
                    if not spanning:
                        fails.append(f"page {pno}: heading {b} although page_by values are shown as a column")
                    if b[2] == "-----":
                        fails.append(f"page {pno}: a divider value is rendered as a heading")
                    nxt = blocks[j + 1] if j + 1 < len(blocks) else None
                    ok = nxt is not None and (nxt[0] == "data" or (nxt[0] == "heading" and nxt[1] > b[1]))
                    if not ok:
                        fails.append(f"page {pno}: heading {b} is followed by {nxt} (stranded or out of order)")
                    last = {l: t for l, t in last.items() if l < b[1]}   # an outer heading clears the inner ones
                    last[b[1]] = b[2]
                elif b[0] == "data":
                    i = b[1]
                    seen.append(i)
                    if spanning and i < len(rows):
                        for lvl, c in enumerate(pb):
                            v = rows[i][cols.index(c)]
                            if str(v) == "-----":
                                continue
                            if last.get(lvl) != str(v):
                                fails.append(f"page {pno}: row {i} has {c}={v!r} but the level-{lvl} heading in force "
                                             f"on this page is {last.get(lvl)!r}")
            if sb and info["n"] > 0:
                hs = [b for b in blocks if b[0] == "sublineHeading"]
                vals = {str(rows[b[1]][cols.index(sb[0])]) for b in blocks if b[0] == "data" and b[1] < len(rows)}
                if len(hs) != 1:
                    fails.append(f"page {pno}: {len(hs)} subline heading paragraphs")
                elif len(vals) != 1 or hs[0][1] != next(iter(vals)):
                    fails.append(f"page {pno}: subline heading {hs[0][1]!r} but rows carry subline values {sorted(vals)}")
        if sorted(seen) != list(range(info["n"])):
            fails.append(f"not every row is rendered exactly once as a data row (dividers included): {sorted(seen)[:40]}")
        return fails[:5]

    def project(self, pages, info):
        keep = ("heading", "data", "sublineHeading")
        return [[b for b in p if b[0] in keep] for p in pages]

    def nontrivial(self, spec, info, ob):
        pages = ob["pages"]
        if len(pages) < 2:
            return None
        nh = sum(1 for p in pages for b in p if b[0] in ("heading", "sublineHeading"))
        if nh < 2:
            return None
        return [info["strategy"], info["nrow"], str(self.project(pages, info))[:300]]


FAM = C05()


def run(res, build):
    return layfamily.run_family(
        FAM, res, build, RULE, layfamily.TRUSTED_COMMON, layfamily.ASSUME_COMMON,
        explanation="C05_under_own_heading, C05_heading_followed, C05_no_divider_heading, "
                    "C05_no_heading_without_spanning, C05_subline_heading hold for every LDoc/page satisfying the "
                    "stated hypotheses (non-null keys, one value per level, page inside the table).")


def replay(payload):
    return layfamily.replay_family(FAM, payload)
