"""C14 — texts whose measured width sits a chosen distance from a wrap edge.

`rtf_encode()` reads one more thing that is not part of the document: the width Pillow reports for every
cell text at the cell's font and size (pagination: lines of a row = int(width / column width) + 1).  It is a
pure function of (font file, exact size, text) today.  To make ANY history-dependence of that measurement
visible in the output bytes, the documents built here carry cell texts whose width is k·(1+δ) column widths
for k ∈ {1, 2} and δ on a ladder ±0.15 % … ±5 %: a drift of the measurement by d (another size, another font,
another unit) changes the line count of every row with |δ| < d on the matching side, and the page breaks with
it.

The measurement used to *construct* the texts is Pillow itself (same font files, exact size), never
rtflite's `get_string_width`: the generator does not depend on the code under test, and a pool is the same
whatever that code does.
"""
from __future__ import annotations

import math
from functools import lru_cache

WORDS = ("subject discontinued study treatment because of a treatment emergent adverse event considered related to "
         "the investigational product by investigator and sponsor after review dose reduced interrupted withdrawn "
         "not applicable mild moderate severe recovered resolving fatal unknown visit week baseline screening "
         "placebo active arm cohort site patient randomised withdrew consent lost follow up protocol deviation "
         "major minor laboratory haematology chemistry urinalysis vital signs weight height pulse systolic "
         "diastolic pressure electrocardiogram interval prolonged normal abnormal clinically significant").split()
TAIL = "il.,:jtfrsaceznouhbdpqgkvxywm"       # glyphs of many different advances, narrow first


@lru_cache(maxsize=None)
def font_file(font_no: int) -> str:
    """absolute path of the metric-compatible file rtflite ships for RTF font number `font_no`"""
    import importlib.resources as pkg_resources

    import rtflite.fonts
    from rtflite.fonts_mapping import FontMapping

    name = FontMapping.get_font_number_to_name_mapping()[font_no]
    return str(pkg_resources.files(rtflite.fonts) / FontMapping.get_font_paths()[name])


@lru_cache(maxsize=None)
def _font(path: str, size: float):
    # keyed by the EXACT size (a float): this cache is faithful, see lean/Model/Memo.lean
    from PIL import ImageFont
    from PIL import __version__ as v

    old = tuple(map(int, v.split(".")[:2])) < (10, 0)
    return ImageFont.truetype(path, size=int(math.ceil(size)) if old else size)


def width_px(text: str, font_no: int, size: float) -> float:
    return _font(font_file(font_no), float(size)).getlength(text)


def width_in(text: str, font_no: int, size: float) -> float:
    return width_px(text, font_no, size) / 72.0


def pure_string_width(text, font, size, unit="in", dpi=72.0):
    """the stateless function `rtflite.get_string_width` is today (same arithmetic, Pillow called directly)"""
    from rtflite.fonts_mapping import FontMapping

    if not isinstance(font, int):
        font = FontMapping.get_font_name_to_number_mapping()[font]
    px = width_px(text, font, size)
    return {"px": px, "in": px / dpi, "mm": (px / dpi) * 25.4}[unit]


@lru_cache(maxsize=None)
def _tails(font_no: int, size: float):
    """every ending of one or two glyphs with its additive advance estimate (inches), sorted by advance"""
    adv = {g: width_in("n" + g + "n", font_no, size) - width_in("nn", font_no, size) for g in TAIL}
    out = [(adv[a], a) for a in TAIL] + [(adv[a] + adv[b], a + b) for a in TAIL for b in TAIL]
    out.sort()
    return adv, out


def fit_text(rng, font_no: int, size: float, target_in: float, tol: float = 0.0007):
    """a text of random words whose Pillow width at (font, size) is `target_in` inches within `tol` (relative;
    advances are quantised, so the achieved width is returned and the caller checks on which side of its edge it
    lies): returns (text, achieved width).  Words first, then single glyphs, then the one- or two-glyph ending
    whose advance fills the remaining room best (estimated additively, verified by measuring the whole text)."""
    import bisect

    em = size / 72.0
    adv, tails = _tails(font_no, float(size))
    keys = [t[0] for t in tails]
    best = None
    for _ in range(60):
        words = []
        wcur = 0.0
        while True:
            w = rng.choice(WORDS)
            cand = " ".join(words + [w])
            wc = width_in(cand, font_no, size)
            if wc > target_in - 2.5 * em:
                break
            words.append(w)
            wcur = wc
        base = (" ".join(words) + " ") if words else ""
        wcur = width_in(base, font_no, size) if base else 0.0
        while target_in - wcur > 1.6 * em:
            g = rng.choice("aceounsr")
            base += g
            wcur += adv[g]
        wcur = width_in(base, font_no, size)
        room = target_in - wcur
        k = bisect.bisect_left(keys, room)
        for _, tail in tails[max(0, k - 3): k + 3]:
            t = base + tail
            wt = width_in(t, font_no, size)
            err = abs(wt - target_in) / target_in
            if best is None or err < best[2]:
                best = (t, wt, err)
        if best[2] < tol:
            break
    return best[0], best[1]


def lines(width: float, col: float) -> int:
    """`max(1, int(text_width / effective_width) + 1)` of PageBreakCalculator"""
    return max(1, int(width / col) + 1)
