"""C13 — group_by blanks only true repeats and restores context on each page.

Theorems: lean/Props/C13.lean about `Model.GroupBy` (enhance_group_by, restore_page_context,
validate_data_sorting, page starts from page heights).
Tie to the code on every run:
  unit level        real `GroupingService.enhance_group_by` + `restore_page_context`  vs  the model (driver op
                    `gb_unit`) on ALL key sequences over {a, b, null} up to a length bound, 1-3 levels, with
                    every / sampled page-start sets, plus random long sequences (runs, nulls, "", ints-as-text,
                    the separator characters of the old validator) in contiguous and non-contiguous order.
  observation level whole documents through `rtf_encode()` with group_by (1-3 levels) combined with page_by /
                    subline_by on other columns; the data rows of every page are identified by sentinels in
                    the non-group columns, the group cells are read back per page (harness/rtfread.py).
  histories         (`c13_hist.py`) sequences of evaluations in ONE fresh process over related frames (row
                    permutations, same key multiset, sub-/supersets, other group_by / layout, same object again),
                    through `rtf_encode()` and direct service calls; every step judged by the rule for its own
                    frame; theorems lean/Props/C13hist.lean about `Model.GroupBy.Hist`.
Oracle (independent of the model being right): the Lean-defined decidable specification
(`cellViolations`, `fillViolations`, `allLevelsContiguousB`, compiled into the driver) evaluated on the
implementation's real output; non-contiguous input must raise ValueError, contiguous input must render.
"""
from __future__ import annotations

import itertools
import os
import re

os.environ.setdefault("POLARS_MAX_THREADS", "1")  # many small frames in 16 workers: no inner thread pool

from .. import common, docgen, laygen, rtfread
from ..common import sub_rng

RULE = ("unit: key sequences over {a,b,null} exhaustively (1 level: length<=6/8 with every page-start set; 2 levels: "
        "length<=4/5, 3 levels: length<=3/4 with sampled page-start sets) + random sequences up to length 60 "
        "(runs, nulls, empty strings, separator characters, shuffled column order, out-of-range and duplicate "
        "page starts), contiguous and non-contiguous; column NAMES (stream `names`, unit and docs): the group_by columns "
        "(1-3 levels) and 1-3 columns NOT in group_by named with the layout family's name family (laygen.NAME_KINDS: "
        "'*', '^...$' selectors, regex / prefix / extension / case variant of another column's - in particular a "
        "group_by column's - name, empty, blank, non-ASCII, attribute names, numeric, punctuation, long, conversion "
        "tokens, raw RTF), the other columns holding runs of equal values (nulls, '' included) in any column order, "
        "every cell of a column not in group_by compared with the frame (a selector-like name on a group_by column "
        "only when it matches itself, one level, no page start inside the frame: anything else raises inside polars on "
        "the unchanged tree); docs: group_by 1-3 levels x plain/page_by/subline_by on "
        "other columns x nrow sweeping the page starts over every row position; histories (c13_hist.py): sequences "
        "of 2-9 evaluations in ONE fresh process over RELATED frames (row permutations contiguous and not, same key "
        "multiset with other values, sub-/supersets of rows, cells exchanged within a level, value<->null<->'', other "
        "group_by list / column layout on the same rows, the same document / frame object again), valid-then-invalid "
        "and invalid-then-valid, 1-3 levels, through rtf_encode(), enhance_group_by+restore_page_context on the "
        "module singleton / one kept instance / a new instance, and validate_data_sorting, every step judged by the "
        "rule for its own frame; non-trivial = a valid input "
        "with >=2 rows in which at least one cell is blanked, distinct by (levels, keys, page starts); a history with "
        ">=2 steps of which one renders, distinct by (routes, verdicts, rows)")
TRUSTED = [
    "Lean 4.33 kernel; axioms within {propext, Classical.choice, Quot.sound} (audited per theorem on every run)",
    "Lean compiler for the driver executable (compiled evaluation agrees with kernel reduction)",
    "harness/rtfread.py (Python RTF reader: pages, table rows, cell texts) for the observation level",
    "polars: Series/DataFrame construction from Python lists, to_list(); str() of group values",
]
MANIFEST = dict(
    text="Lean theorems over the model of GroupingService (all frames, any number of rows and of group_by levels, "
         "any set of page starts / page heights, nulls included): every group cell is blank exactly for a true "
         "repeat of the hierarchical key that is not a page's first row and shows the original otherwise; other "
         "columns and the column order are untouched; per-page fill-down reconstructs every non-null cell "
         "(the whole column when it has no null); ValueError exactly for non-contiguous keys. The model is tied "
         "to the code on every run by unit correspondence (exhaustive short key sequences + random), by "
         "whole documents read back page by page, and by histories of evaluations over related frames in one fresh "
         "process (the encoder evaluates every document on ONE service object; Props/C13hist: each answer of any "
         "history is the pure function of its own frame, and remembered acceptances are harmless iff their key "
         "never identifies an accepted with a rejected table); the implementation's output is judged by the "
         "Lean-defined oracle, every step of a history by the rule for its own frame.",
    note="Pagination itself (which rows land on which page) is C04's; here the observed page heights are an input. "
         "Column names: what a column is called must not matter - group_by and other columns carry names of the "
         "layout family's name family and the other columns hold repeated values, so a suppression reaching a column "
         "not named in group_by shows; group_by columns named like a polars selector ('*', '^...$') are covered only "
         "since the repair D46 at every level, with page starts inside the frame and over several pages (documents: plain layout). "
         "A null original renders as blank like a suppressed cell, so fill-down cannot (for any renderer) "
         "recover a null below a non-null value; the theorem says exactly that.",
    technique="Lean 4 proof (index-wise reasoning over column expressions, induction over rows) + differential "
              "correspondence model/implementation + Lean-defined oracle on real output",
    design="7/C13",
)
ASSUME = [
    "polars three-valued / null-aware comparison semantics are modelled (ne_missing, shift, when/then/otherwise), "
    "not verified; the unit correspondence samples them exhaustively on short sequences",
    "group values are compared as Python/polars values of one dtype per column; the model uses their text "
    "(generated values are strings, or ints whose text is injective)",
    "page heights are taken from the observed document (pagination is C04/C02)",
]

KNOWN_COLLISION = "C13-validator-key-collision"

# ------------------------------------------------------------------ unit level


def _frame_json(df):
    return [[c, df[c].to_list()] for c in df.columns]


def _unit_worker(case):
    """case = dict(cols=[[name, cells]...], gb=[...], starts=[[...]...])
    → {"error": cls} | {"frames": [frame per start list]} | {"unavailable": msg}"""
    try:
        import polars as pl
        from rtflite.services.grouping_service import GroupingService
    except ImportError as e:
        return {"unavailable": f"{type(e).__name__}: {e}"}
    try:
        svc = GroupingService()
        df = pl.DataFrame({n: pl.Series(n, v, dtype=pl.Utf8) for n, v in case["cols"]})
    except AttributeError as e:
        return {"unavailable": f"{type(e).__name__}: {e}"}
    return _unit_call(svc, df, case)


def _unit_call(svc, df, case, frame_json=None):
    """`enhance_group_by` + `restore_page_context` (one per start list) of the service object `svc` on `df`"""
    frame_json = frame_json or _frame_json
    try:
        fn_e, fn_r = svc.enhance_group_by, svc.restore_page_context
    except AttributeError as e:
        return {"unavailable": f"{type(e).__name__}: {e}"}
    try:
        sup = fn_e(df, list(case["gb"]))
    except Exception as e:  # noqa: BLE001
        return {"error": type(e).__name__, "msg": str(e)[:200]}
    frames = []
    try:
        for st in case["starts"]:
            r = fn_r(sup, df, list(case["gb"]), list(st))
            frames.append(frame_json(r))
    except Exception as e:  # noqa: BLE001
        return {"error": type(e).__name__, "msg": "restore_page_context: " + str(e)[:200]}
    return {"frames": frames}


def _mk_case(rows, L, starts, stream, order=None):
    n = len(rows)
    cols = [[f"g{l}", [r[l] for r in rows]] for l in range(L)] + [["v", [f"r{i}" for i in range(n)]]]
    if order:
        cols = [cols[k] for k in order]
    return dict(level="unit", stream=stream, cols=cols, gb=[f"g{l}" for l in range(L)], starts=starts)


def _contig(keys):
    cur, seen = object(), set()
    for k in keys:
        if k != cur:
            if k in seen:
                return False
            seen.add(k)
            cur = k
    return True


def _all_levels_contig(rows, L):
    return all(_contig([tuple(r[:l + 1]) for r in rows]) for l in range(L))


def _subsets(n):
    idx = list(range(1, n))
    for k in range(len(idx) + 1):
        for c in itertools.combinations(idx, k):
            yield list(c)


def unit_exhaustive(seed, tier):
    """all key sequences over {a,b,null}; start sets: every subset (1 level) or sampled"""
    alpha = ("a", "b", None)
    bounds = {1: 6, 2: 4, 3: 3} if tier == "quick" else {1: 8, 2: 5, 3: 4}
    k = 0
    for L in (1, 2, 3):
        letters = list(itertools.product(alpha, repeat=L))
        for n in range(0, bounds[L] + 1):
            for rows in itertools.product(letters, repeat=n):
                k += 1
                if not _all_levels_contig(rows, L):
                    starts = [[]]
                elif L == 1:
                    starts = list(_subsets(n)) if n else [[]]
                else:
                    rng = sub_rng(seed, "c13ss", k)
                    starts = [[], list(range(1, n))]
                    for _ in range(2):
                        starts.append([i for i in range(1, n) if rng.random() < 0.4])
                yield _mk_case(rows, L, starts, "exh")


def fixed_cases():
    """minimal inputs of the defects found while building this check; always run first so that a regression
    is reported with the smallest input"""
    out = [
        _mk_case([(None,), ("A",), ("A",), ("B",), ("B",)], 1, [[], [2]], "fixed"),                    # D17
        _mk_case([("a", "x"), ("a", "x"), ("b", "x"), ("b", "x")], 2, [[], [1, 3]], "fixed"),           # D17b
        _mk_case([("a", None), ("a", None), (None, "x"), (None, "x"), ("b", None)], 2, [[], [3]], "fixed"),
        _mk_case([("g", None), ("g", "__NULL__"), ("g", None)], 2, [[]], "collision"),                  # accepted
        _mk_case([("a|b", "c"), ("x", "y"), ("a", "b|c")], 2, [[], [1]], "collision"),                   # rejected
        _mk_case([("g", "a|b", "c"), ("g", "x", "y"), ("g", "a", "b|c")], 3, [[]], "collision"),
    ]
    return out


_SPECIAL = ["a|b", "b|c", "c", "|", "__NULL__", "a", "b", "", None, "x|", "|x"]


def gen_random_case(rng, collision):
    L = rng.choice((1, 1, 2, 2, 3))
    n = rng.choice((0, 1, 2)) if rng.random() < 0.05 else rng.randint(3, 60)
    pools = []
    for l in range(L):
        if collision:
            pools.append(_SPECIAL)
        else:
            pools.append(["a", "b", "c", "d", None] + ([""] if rng.random() < 0.3 else []) +
                         (["1", "2", "10"] if rng.random() < 0.2 else []))
    # hierarchical runs: level l changes inside runs of level l-1 (values may recur under another parent)
    rows = [[None] * L for _ in range(n)]

    def fill(lo, hi, l):
        if l >= L or lo >= hi:
            return
        pool = list(pools[l])
        rng.shuffle(pool)
        i, k = lo, 0
        while i < hi:
            run = rng.randint(1, max(1, (hi - lo) // 2 if l == 0 else 4))
            v = pool[k % len(pool)]
            if k >= len(pool):
                v = None if v is None else f"{v}{k // len(pool)}"
                if v is None:
                    v = f"z{k}"
            j = min(hi, i + run)
            for r in range(i, j):
                rows[r][l] = v
            fill(i, j, l + 1)
            i, k = j, k + 1

    fill(0, n, 0)
    kind = "contig"
    r = rng.random()
    if n >= 3 and r < 0.25:
        i, j = rng.sample(range(n), 2)
        rows[i], rows[j] = rows[j], rows[i]
        kind = "swapped"
    elif n >= 3 and r < 0.33:
        i = rng.randrange(n)
        l = rng.randrange(L)
        rows[i][l] = rng.choice(pools[l])
        kind = "mutated"
    starts = []
    for _ in range(3):
        p = rng.choice((0.05, 0.2, 0.5, 1.0))
        st = [i for i in range(1, n) if rng.random() < p]
        if rng.random() < 0.15:
            st.append(n + rng.randint(0, 3))       # index beyond the frame: must be ignored
        if st and rng.random() < 0.15:
            st.append(rng.choice(st))              # duplicate
        if rng.random() < 0.1:
            st.insert(0, 0)
        if rng.random() < 0.2:
            rng.shuffle(st)
        starts.append(st)
    order = list(range(L + 1))
    if rng.random() < 0.5:
        rng.shuffle(order)
    c = _mk_case([tuple(r) for r in rows], L, starts, "collision" if collision else "random", order)
    c["kind"] = kind
    return c


# ------------------------------------------------------------------ column NAMES (the layout family's name family)
# The streams above call the group columns g0.. and give the one other column a different text on every row: what the
# service does must not depend on what a column is CALLED, and "columns not named in group_by are untouched" can only be
# seen to fail on a column that holds REPEATED values on consecutive rows.  Here the group_by columns (1-3 levels) and
# 1-3 other columns are named with members of `laygen.NAME_KINDS` / `laygen.draw_name` (polars selector syntax '*',
# '^...$', regexes / prefixes / extensions / case variants of other names of the same frame, empty, blank, non-ASCII,
# attribute names, numeric, punctuation, long, conversion tokens), the other columns hold runs of equal values (nulls
# and "" included), the columns are in any order.
#
# Restriction to what rtflite renders at all (an observation about rtflite, reported with round 13): a
# group_by column whose NAME is '*' or '^...$' is read by polars as a selector in `restore_page_context` /
# `_suppress_hierarchical_columns` (ComputeError / DuplicateError "duplicate output name") and, when the regular
# expression does not match the name itself, in `_suppress_single_column` (IndexError).  Such names are therefore drawn
# for a group_by column only when they match themselves, with ONE level and no page start inside the frame; as names
# of the OTHER columns they are drawn everywhere.
SELF_SELECTORS = ["*", "^.*$", "^.+$", "^(.*)$", "^.*\\$$", "^\\^.*$"]


def selector_like(name):
    return name == "*" or (name.startswith("^") and name.endswith("$"))


def _run_column(rng, n):
    """a column of an 'other' role: runs of equal values on consecutive rows (so that a suppression would show)"""
    pool = rng.choice((["x", "y", "z"], ["x", "y", None], ["x", "", None, "y"], ["a", "b"], ["1", "2", "10"]))
    out, i = [], 0
    prev = object()
    while i < n:
        v = rng.choice(pool)
        run = rng.randint(1, 5)
        if v == prev:
            run += 1
        out += [v] * min(run, n - i)
        i = len(out)
        prev = v
    return out


def _draw_names(rng, roles, gb_roles, selector_gb, raw_ok=True, banned=()):
    """{role: name}: a name of the family for (most of) the roles; group_by roles get no selector-like name unless
    `selector_gb` (then the single group_by role gets a self-matching selector)"""
    names = {}
    kinds = []
    pool = [x for x in SELF_SELECTORS if raw_ok or "\\" not in x]
    rng.shuffle(pool)
    for r in roles:
        if r in gb_roles and selector_gb and pool:
            # a name with a backslash is RTF-active where a header shows the names (like laygen's raw-rtf kind);
            # every level gets a selector of its own (since the repair D46 any number of levels and pages)
            names[r] = pool.pop()
            kinds.append("selector-self@group")
    for r in roles:
        if r in names:
            continue
        if rng.random() < 0.25 and r not in banned:
            names[r] = r
            continue
        current = [names.get(x, x) for x in roles if x != r]
        # the relational kinds (regex / prefix / extension / case variant OF another name): of a group_by column's
        # name in particular, for a column that is not one
        ref = [names.get(g, g) for g in roles if g in gb_roles and g != r] if rng.random() < 0.4 else []
        for _ in range(30):
            kind, nm = laygen.draw_name(rng, ref or current, (), raw_ok=raw_ok, long_max=80)
            if nm in current or nm in banned or nm in roles or re.match(r"^\s*r\d+c\d+\s*$", nm):
                continue
            if r in gb_roles and selector_like(nm):
                continue
            names[r] = nm
            kinds.append(f"{kind}@{'group' if r in gb_roles else 'other'}")
            break
        else:
            names[r] = r
    return names, kinds


def gen_named_case(rng):
    base = gen_random_case(rng, collision=False)
    L = len(base["gb"])
    selector_gb = rng.random() < 0.5
    by = dict((c[0], c[1]) for c in base["cols"])
    n = len(by["g0"])
    roles = [f"g{l}" for l in range(L)] + [f"o{j}" for j in range(rng.randint(1, 3))]
    if rng.random() < 0.5:
        roles.append("v")
    for r in roles:
        if r[0] == "o":
            by[r] = _run_column(rng, n)
    names, kinds = _draw_names(rng, roles, set(base["gb"]), selector_gb)
    rng.shuffle(roles)
    starts = base["starts"]
    if selector_gb and rng.random() < 0.2:      # an out-of-range page start must be ignored
        starts = [[], [n + rng.randint(0, 3)]]
    return dict(level="unit", stream="names", cols=[[names[r], by[r]] for r in roles],
                gb=[names[g] for g in base["gb"]], starts=starts, kind=base["kind"], name_kinds=kinds)


def named_fixed_cases():
    g = ["A", "A", "A", "B", "B", "B"]
    o = ["x", "x", "y", "y", "y", "z"]
    v = ["1", "2", "3", "4", "5", "6"]
    out = []
    for nm in SELF_SELECTORS:
        out.append(dict(level="unit", stream="names", cols=[[nm, g], ["ARMCD", o], ["VAL", v]], gb=[nm], starts=[[]],
                        kind="contig", name_kinds=["selector-self@group"]))
        out.append(dict(level="unit", stream="names", cols=[["^x$", o], ["VAL", v], [nm, g]], gb=[nm], starts=[[], [7]],
                        kind="contig", name_kinds=["selector-self@group", "selector-regex@other"]))
        # page starts inside the frame and a second selector-named level (the class of defect D46, repaired)
        out.append(dict(level="unit", stream="names", cols=[[nm, g], ["ARMCD", o], ["VAL", v]], gb=[nm],
                        starts=[[], [2], [1, 4], [3, 5]], kind="contig", name_kinds=["selector-self@group"]))
        other = "^ARM.*$" if nm != "^ARM.*$" else "*"
        out.append(dict(level="unit", stream="names", cols=[[nm, g], [other, o], ["ARMCD", v]], gb=[nm, other],
                        starts=[[], [2], [1, 4]], kind="contig",
                        name_kinds=["selector-self@group", "selector-regex@group"]))
    for gb in (["g0"], ["g0", "g1"], ["g0", "g1", "g2"]):
        cols = [[c, g] for c in gb] + [["*", o], ["^g.*$", o], ["^.*$", v], ["", o], ["G0", o], ["g", o]]
        out.append(dict(level="unit", stream="names", cols=cols, gb=gb, starts=[[], [1, 4], [2]], kind="contig",
                        name_kinds=["selector-all@other", "regex-of-other@other"]))
    return out


def _proj(frame, gb):
    """observation projection of a frame: display text of group cells, exact other columns, names"""
    out = []
    for n, cells in frame:
        if n in gb:
            out.append((n, tuple("" if c is None else c for c in cells)))
        else:
            out.append((n, tuple(cells)))
    return out


def judge_unit(res, case, ob, dr, known_collision):
    gb = case["gb"]
    n = len(case["cols"][0][1]) if case["cols"] else 0
    neval = max(1, len(case["starts"]))
    nt = None
    if not dr["model_error"] and n >= 2:
        blanks = any(c is None for f in dr["frames"][:1] for nme, cells in f if nme in gb for c in cells)
        if blanks:
            nt = (len(gb), tuple(tuple(c[1]) for c in case["cols"]), tuple(tuple(s) for s in case["starts"]))
    rec = dict(case, observed=ob)
    for _ in range(neval - 1):
        res.evaluations += 1
    res.case(rec, nt)
    res.count(f"unit:{case['stream']}:L{len(gb)}", neval)
    res.count("unit:rejected" if dr["model_error"] else "unit:rendered", neval)
    if case["stream"] == "names":
        for kd in case.get("name_kinds") or []:
            res.count("unit_name:" + kd, neval)
        if not dr["model_error"] and any(
                a is not None and a == b for nme, cells in case["cols"] if nme not in gb for a, b in zip(cells, cells[1:])):
            res.count("unit_names:other-column-with-repeats-rendered", neval)
    res.corr_checked += neval
    legacy_same = False
    if "error" in ob:
        legacy_same = bool(dr.get("legacy_error"))
    elif not dr.get("legacy_error"):
        legacy_same = [_proj(f, gb) for f in ob["frames"]] == [_proj(f, gb) for f in dr["legacy_frames"]]
    hint = " [output equals the pre-repair behaviour Model.GroupBy.Legacy]" if legacy_same else ""
    if dr["viol"]:
        kinds = {v[0] for v in dr["viol"] if isinstance(v[0], str)}
        # explained deviation of the known finding: the accept/reject decision is the one the text-key
        # validator (Model.GroupBy.Legacy.validateDataSorting) takes on an input containing its separators
        if known_collision and ("error" in ob) == bool(dr.get("legacy_error")) and case["stream"] == "collision" \
                and kinds and kinds <= {"contiguous-keys-rejected", "non-contiguous-keys-accepted"}:
            res.known_hits[KNOWN_COLLISION] = res.known_hits.get(KNOWN_COLLISION, 0) + 1
            return
        res.fail(rec, f"group_by output violates C13: {dr['viol'][:4]} (implementation: "
                      f"{_short(ob)}; demanded: {_short_model(dr)}){hint}")
        return
    if dr["model_error"] != ("error" in ob):
        res.disagree(rec, f"model {'rejects' if dr['model_error'] else 'accepts'}, implementation "
                          f"{'rejects' if 'error' in ob else 'accepts'}{hint}")
    elif not dr["model_error"]:
        a = [_proj(f, gb) for f in ob["frames"]]
        b = [_proj(f, gb) for f in dr["frames"]]
        if a != b:
            res.disagree(rec, f"model {_short_model(dr)} != implementation {_short(ob)}{hint}")


def _short(ob):
    if "error" in ob:
        return f"{ob['error']}"
    return str(ob["frames"][:2])[:300]


def _short_model(dr):
    return "ValueError" if dr["model_error"] else str(dr["frames"][:2])[:300]


def _run_unit_chunk(res, cases, known_collision):
    obs = common.pool_map(_unit_worker, cases, chunksize=64)
    if obs and "unavailable" in obs[0]:
        return obs[0]["unavailable"]
    reqs = [dict(op="gb_unit", cols=c["cols"], gb=c["gb"], starts=c["starts"],
                 observed=({"error": o["error"]} if "error" in o else {"frames": o["frames"]}))
            for c, o in zip(cases, obs)]
    outs = common.driver_batch(reqs)
    for c, o, d in zip(cases, obs, outs):
        judge_unit(res, c, o, d, known_collision)
    return None


def run_unit(res, tier, known_collision, corpus=()):
    chunk = []
    unavailable = None

    def flush():
        nonlocal chunk, unavailable
        if chunk and unavailable is None:
            unavailable = _run_unit_chunk(res, chunk, known_collision)
        chunk = []

    for c in list(corpus) + fixed_cases() + named_fixed_cases():
        chunk.append(c)
    for c in unit_exhaustive(res.seed, tier):
        chunk.append(c)
        if len(chunk) >= 60000:
            flush()
    n_rand = 3000 if tier == "quick" else 60000
    for k in range(n_rand):
        chunk.append(gen_random_case(sub_rng(res.seed, "c13rand", k), collision=(k % 6 == 5)))
        if len(chunk) >= 60000:
            flush()
    n_named = 1500 if tier == "quick" else 20000
    for k in range(n_named):
        chunk.append(gen_named_case(sub_rng(res.seed, "c13names", k)))
        if len(chunk) >= 60000:
            flush()
    flush()
    if unavailable is not None:
        res.notes.append("unit correspondence unavailable: " + unavailable)
        res.count("unit_unavailable")
    else:
        res.exhaustive = True


# ------------------------------------------------------------------ observation level

_TAG = re.compile(r"^\s*r(\d+)c(\d+)\s*$")


def gen_doc(rng, tier, k):
    L = rng.choice((1, 1, 2, 2, 3))
    strategy = rng.choice(("plain", "plain", "page_by", "page_by_np", "page_by_np_first", "subline"))
    n = rng.choice((1, 2, 3)) if rng.random() < 0.06 else rng.randint(4, 30)
    ndata = rng.randint(1, 3)
    as_int = rng.random() < 0.15
    pool0 = [1, 2, 3, 4, None] if as_int else ["a", "b", "c", "d", None]
    gvals = [[None] * n for _ in range(L)]

    def fill(lo, hi, l):
        if l >= L or lo >= hi:
            return
        pool = list(pool0) if l == 0 else ["x", "y", "z", None]
        rng.shuffle(pool)
        i, kk = lo, 0
        while i < hi:
            run = rng.randint(1, max(1, (hi - lo) // 2 if l == 0 else 4))
            v = pool[kk % len(pool)]
            if kk >= len(pool):
                v = (100 + kk) if (as_int and l == 0) else f"w{kk}"
            j = min(hi, i + run)
            for r in range(i, j):
                gvals[l][r] = v
            fill(i, j, l + 1)
            i, kk = j, kk + 1

    fill(0, n, 0)
    kind = "contig"
    if n >= 3 and rng.random() < 0.15:
        i, j = rng.sample(range(n), 2)
        for l in range(L):
            gvals[l][i], gvals[l][j] = gvals[l][j], gvals[l][i]
        kind = "swapped"
    outer = None
    outer_name = None
    if strategy != "plain":
        outer_name = "s0" if strategy == "subline" else "p0"
        outer = docgen.run_keys(rng, n, ["KA", "KB", "KC", "KD"], 1, max(2, n // 2))
    gnames = [f"g{l}" for l in range(L)]
    dnames = [f"c{j}" for j in range(ndata)]
    inner = gnames + dnames
    if rng.random() < 0.5:
        rng.shuffle(inner)           # group columns anywhere among the data columns
    cols = ([outer_name] if outer_name else []) + inner
    rows = []
    for i in range(n):
        row = []
        for c in cols:
            if c == outer_name:
                row.append(outer[i])
            elif c in gnames:
                row.append(gvals[gnames.index(c)][i])
            else:
                row.append(f"r{i}c{dnames.index(c)}")
        rows.append(row)
    body = dict(group_by=gnames)
    removed = set()
    if strategy == "subline":
        body["subline_by"] = ["s0"]
        removed.add("s0")
    elif strategy.startswith("page_by"):
        body["page_by"] = ["p0"]
        new_page = strategy != "page_by"
        pageby_row = "first_row" if strategy == "page_by_np_first" else "column"
        body["new_page"] = new_page
        body["pageby_row"] = pageby_row
        if not new_page or pageby_row != "column":
            removed.add("p0")
    displayed = [c for c in cols if c not in removed]
    hdr = rng.choice(("default", "explicit", "none"))
    headers = "default" if hdr == "default" else ([] if hdr == "none" else [dict(text=[f"H{j}" for j in range(len(displayed))])])
    nrow = (2 + (k % max(1, n + 4))) if rng.random() < 0.7 else rng.randint(2, 40)
    spec = dict(kind="table", df=dict(cols=cols, rows=rows), page=dict(nrow=nrow), headers=headers, body=body,
                footnote=dict(text="FOOTNOTE") if rng.random() < 0.3 else None)
    exp = dict(L=L, strategy=strategy, kind=kind, displayed=displayed, gnames=gnames, n=n,
               gcols=[[None if v is None else str(v) for v in gvals[l]] for l in range(L)])
    return dict(level="doc", spec=spec, exp=exp)


def gen_named_doc(rng, tier, k):
    """a `gen_doc` document whose group_by and data columns carry names of the name family, with 1-2 more columns not
    named in group_by that hold runs of equal values; every displayed cell of those is compared with the frame's
    display text (`exp['others']`).  A selector-like group_by name: one level, one page (see SELF_SELECTORS)."""
    case = gen_doc(rng, tier, k)
    spec, exp = case["spec"], case["exp"]
    L, n = exp["L"], exp["n"]
    selector_gb = rng.random() < 0.6
    cols, rows = spec["df"]["cols"], spec["df"]["rows"]
    keep = [c for c in cols if c in ("p0", "s0")]
    extra = [f"o{j}" for j in range(rng.randint(1, 2))]
    inner = [c for c in cols if c not in keep] + extra
    rng.shuffle(inner)
    runs = {o: _run_column(rng, n) for o in extra}
    new_cols = keep + inner
    new_rows = [[runs[c][i] if c in runs else rows[i][cols.index(c)] for c in new_cols] for i in range(n)]
    hdr_default = spec["headers"] == "default"
    names, kinds = _draw_names(rng, inner, set(exp["gnames"]), selector_gb, raw_ok=not hdr_default,
                               banned=("v", "p0", "s0"))
    ren = lambda c: names.get(c, c)      # noqa: E731
    removed = {c for c in keep if c not in exp["displayed"]}
    if selector_gb:
        if rng.random() < 0.3:
            spec["page"]["nrow"] = n + 20 + rng.randint(0, 20)      # a single page; otherwise as drawn (since D46)
        if exp["strategy"] != "plain":        # new_page / subline headings start pages: only the plain layout has one
            for key in ("page_by", "subline_by", "new_page", "pageby_row"):
                spec["body"].pop(key, None)
            j = len(keep)
            new_cols, new_rows, removed = new_cols[j:], [r[j:] for r in new_rows], set()
            exp["strategy"] = "plain"
    displayed = [c for c in new_cols if c not in removed]
    spec["df"] = dict(cols=[ren(c) for c in new_cols], rows=new_rows)
    spec["body"]["group_by"] = [ren(g) for g in exp["gnames"]]
    if isinstance(spec["headers"], list) and spec["headers"]:
        spec["headers"] = [dict(text=[f"H{j}" for j in range(len(displayed))])]
    exp.update(displayed=[ren(c) for c in displayed], gnames=[ren(g) for g in exp["gnames"]],
               roles={ren(c): c for c in displayed},
               others={ren(o): ["" if v is None else v for v in runs[o]] for o in extra},
               named=True, name_kinds=kinds)
    return case


def sweep_docs():
    """fixed frames, nrow swept so that page starts fall on every row position"""
    out = []
    g0 = ["a", "a", "a", "b", "b", None, None, "c", "c", "c", "c", "d"]
    g1 = ["x", "x", "y", "y", "y", "y", None, None, "x", "x", "z", "z"]
    n = len(g0)
    for L in (1, 2):
        for nrow in range(1, n + 4):
            for hdr in ("default", []):
                cols = ["g0", "c0"] + (["g1"] if L == 2 else [])
                rows = [[g0[i], f"r{i}c0"] + ([g1[i]] if L == 2 else []) for i in range(n)]
                spec = dict(kind="table", df=dict(cols=cols, rows=rows), page=dict(nrow=nrow), headers=hdr,
                            body=dict(group_by=["g0", "g1"][:L]))
                out.append(dict(level="doc", spec=spec,
                                exp=dict(L=L, strategy="sweep", kind="contig", displayed=cols, gnames=["g0", "g1"][:L],
                                         n=n, gcols=[g0, g1][:L])))
    return out


def _doc_worker(case):
    return _observe_doc(docgen.encode(case["spec"]), case["exp"])


def _observe_doc(st, exp):
    """st = the `docgen.encode` triple; → the data rows of every page with their group cells"""
    if st[0] != "ok":
        return dict(status=st[0], exc=st[1], msg=st[2])
    disp = exp["displayed"]
    try:
        doc = rtfread.read(st[1])
    except rtfread.RtfError as e:
        return dict(status="unreadable", msg=str(e))
    pages = []
    problems = []
    for page in doc.pages:
        rows = []
        for b in page.blocks:
            if b.kind != "row":
                continue
            tags = [(_TAG.match(c.text), j) for j, c in enumerate(b.cells)]
            tags = [(m, j) for m, j in tags if m]
            if not tags:
                continue
            i = int(tags[0][0].group(1))
            if len(b.cells) != len(disp):
                problems.append(f"row {i}: {len(b.cells)} cells for {len(disp)} displayed columns")
                continue
            for m, j in tags:
                if int(m.group(1)) != i or (exp.get("roles") or {}).get(disp[j], disp[j]) != f"c{m.group(2)}":
                    problems.append(f"row {i}: sentinel {m.group(0)!r} in column {disp[j]}")
            rows.append(dict(i=i, g=[b.cells[disp.index(g)].text for g in exp["gnames"]]))
            if exp.get("others"):      # displayed columns not named in group_by whose texts the case knows
                rows[-1]["o"] = {c: b.cells[disp.index(c)].text for c in exp["others"]}
        if rows:
            pages.append(rows)
    return dict(status="ok", pages=pages, problems=problems)


def doc_request(case, ob):
    exp = case["exp"]
    n = exp["n"]
    cols = [[g, exp["gcols"][l]] for l, g in enumerate(exp["gnames"])] + [["v", [f"r{i}" for i in range(n)]]]
    req = dict(op="gb_pages", cols=cols, gb=exp["gnames"], heights=[])
    if ob["status"] == "ok":
        order = [r["i"] for p in ob["pages"] for r in p]
        req["heights"] = [len(p) for p in ob["pages"]]
        if order == list(range(n)):
            req["observed"] = [[r["g"][l] for p in ob["pages"] for r in p] for l in range(exp["L"])]
    return req


def judge_doc(res, case, ob, dr):
    exp = case["exp"]
    n = exp["n"]
    if ob["status"] != "ok":
        if ob["status"] == "encode-error" and ob.get("exc") == "ValueError" and "group" in ob.get("msg", "").lower():
            if dr["spec_contiguous"]:
                res.fail(case, f"contiguous group keys rejected: {ob['msg'][:160]}")
            elif not dr["model_error"]:
                res.disagree(case, "model accepts, implementation rejects")
            return "rejected"
        res.fail(case, f"document with group_by failed unexpectedly: {ob}")
        return "error"
    if not dr["spec_contiguous"]:
        res.fail(case, "non-contiguous group keys were rendered instead of being rejected with ValueError")
        return "accepted-noncontiguous"
    if ob["problems"]:
        res.fail(case, f"table shape: {ob['problems'][:3]}")
        return "shape"
    order = [r["i"] for p in ob["pages"] for r in p]
    if order != list(range(n)):
        res.fail(case, f"data rows lost, duplicated or reordered: {order}")
        return "rows"
    for c, want in (exp.get("others") or {}).items():
        bad = [(r["i"], r["o"][c], want[r["i"]]) for p in ob["pages"] for r in p if r["o"][c] != want[r["i"]]]
        if bad:
            res.fail(case, f"column {c!r} is not named in group_by but was changed: (row, rendered, original) {bad[:3]}")
            return "others"
    if dr["viol_cells"]:
        lv, i, clause = dr["viol_cells"][0]
        res.fail(case, f"level {lv} row {i}: {clause}; pages start at rows {dr['starts']}; rendered "
                       f"{[[r['g'] for r in p] for p in ob['pages']]}; demanded {dr['model_shown']}")
        return "cells"
    if dr["viol_fill"]:
        res.fail(case, f"fill-down within a page does not reconstruct (level, page, row) {dr['viol_fill'][:3]}")
        return "fill"
    observed = [[r["g"][l] for p in ob["pages"] for r in p] for l in range(exp["L"])]
    if dr["model_error"] or dr["model_shown"] != observed:
        res.disagree(case, f"model {dr.get('model_shown')} != rendered {observed}")
    else:
        per_page = [[[r["g"][l] for r in p] for l in range(exp["L"])] for p in ob["pages"]]
        if dr.get("model_pages") is not None and dr["model_pages"] != per_page:
            res.disagree(case, f"model pages {dr['model_pages']} != rendered pages {per_page}")
    return "ok"


def run_docs(res, tier, corpus=()):
    ndocs = 220 if tier == "quick" else 3000
    cases = list(corpus) + sweep_docs()
    for k in range(ndocs):
        cases.append(gen_doc(sub_rng(res.seed, "c13doc", k), tier, k))
    for k in range(120 if tier == "quick" else 1500):
        cases.append(gen_named_doc(sub_rng(res.seed, "c13namedoc", k), tier, k))
    obs = common.pool_map(_doc_worker, cases, chunksize=4)
    drv = common.driver_batch([doc_request(c, o) for c, o in zip(cases, obs)])
    start_positions = set()
    for c, o, d in zip(cases, obs, drv):
        exp = c["exp"]
        nt = None
        if o["status"] == "ok" and len(o["pages"]) >= 2 and d.get("model_shown") and any(
                "" in lv for lv in d["model_shown"]):
            nt = ("d", exp["L"], tuple(tuple(x) for x in exp["gcols"]), tuple(len(p) for p in o["pages"]))
        res.case(c, nt)
        res.corr_checked += 1
        verdict = judge_doc(res, c, o, d)
        res.count(f"doc:{exp['strategy']}:L{exp['L']}")
        res.count(f"doc_verdict:{verdict}")
        res.count(f"doc_kind:{exp['kind']}")
        if exp.get("named"):
            res.count(f"doc_named:{verdict}")
            for kd in exp.get("name_kinds") or []:
                res.count("doc_name:" + kd)
        if o["status"] == "ok":
            res.count(f"doc_pages:{min(9, len(o['pages']))}")
            if exp["strategy"] == "sweep":
                start_positions.update(d["starts"])
    res.extra["sweep_page_start_positions"] = sorted(start_positions)


# ------------------------------------------------------------------ entry points

def _load_corpus():
    unit, docs, hists = [], [], []
    d = common.CORPUS / "C13"
    if d.is_dir():
        import json
        for p in sorted(d.glob("*.json")):
            c = json.loads(p.read_text())
            c = c.get("case", c)
            (unit if c.get("level") == "unit" else hists if c.get("level") == "hist" else docs).append(c)
    return unit, docs, hists


def run(res: common.Result, build) -> int:
    known = {e.get("id") for e in common.known_findings("C13")}
    known_collision = KNOWN_COLLISION in known
    cu, cd, ch = _load_corpus()
    run_unit(res, res.tier, known_collision, cu)
    run_docs(res, res.tier, cd)
    from . import c13_hist

    n_std = len(res.failures)
    c13_hist.run(res, ch)                       # histories in one process, each step judged by its own frame
    c13_hist.settle_standalone(res, n_std)
    known_lines = []
    if res.known_hits.get(KNOWN_COLLISION):
        known_lines.append(
            "KNOWN-FINDING: property=C13 validate_data_sorting compares deeper levels by '|'-joined text with "
            "nulls as '__NULL__': (g,None),(g,'__NULL__'),(g,None) is accepted, ('a|b','c'),('x','y'),('a','b|c') "
            f"is rejected ({res.known_hits[KNOWN_COLLISION]} generated inputs)")
    from .. import crosscorr

    crosscorr.run_cross(crosscorr.LIGHT["C13"], res)      # second tie: the whole-encoder correspondence class
    return common.finish(
        res, build, RULE, TRUSTED, ASSUME, known_lines=known_lines,
        explanation="C13_cells (with C13_blank_iff, C13_shown_otherwise, C13_page_first_rows_are_starts): the cell "
                    "clause for every frame, level count, row and page-start set, nulls included. "
                    "C13_others_untouched, C13_column_names_kept: the rest of the frame. C13_filldown_page / "
                    "C13_filldown_exact: per-page fill-down (exact without nulls; every non-null cell with nulls - "
                    "a null below a value cannot be told from a blank by any reader). "
                    "C13_rejects_exactly_noncontiguous, C13_postProcess_rejects, C13_contigB_iff: ValueError iff some "
                    "prefix level of the key is not contiguous. C13_pages_are_slices: the pages carry the slices. "
                    "C13hist_pure / C13hist_step_*: the service object of the code folded over ANY history of calls "
                    "answers every call as the pure function of its own frame; C13hist_memo_transparent_iff: "
                    "acceptances remembered under a key change no history iff the key never identifies an accepted "
                    "with a rejected table (C13hist_exactKey_sound; C13hist_sumKey_unsound / _history: not so for "
                    "layout + variables + height + sum of row hashes, for any row hash). "
                    "C13_legacy_*: machine-checked witnesses that the code before the repairs "
                    "(fixes/groupby-null-aware-suppression.patch, fixes/groupby-tuple-keys.patch) violates the "
                    "property (D17, D17b, validator key collisions).")


def replay(payload) -> int:
    _cross = payload.get("case") or {}
    if not _cross.get("cross"):
        for _b in payload.get("broken") or []:
            if (_b.get("case") or {}).get("cross"):
                _cross = _b["case"]
    if _cross.get("cross"):
        from .. import crosscorr

        return crosscorr.replay_cross(crosscorr.LIGHT["C13"], _cross)
    case = payload.get("case") or (payload.get("broken") or [{}])[-1].get("case") or {}
    if case.get("level") == "hist":
        from . import c13_hist

        return c13_hist.replay_case({k: v for k, v in case.items() if k != "failing_step"})
    tmp = common.Result("C13", "quick", 0)
    if case.get("level") == "unit":
        c = {k: v for k, v in case.items() if k != "observed"}
        o = _unit_worker(c)
        d = common.driver_batch([dict(op="gb_unit", cols=c["cols"], gb=c["gb"], starts=c["starts"],
                                      observed=({"error": o["error"]} if "error" in o else {"frames": o["frames"]}))])[0]
        print("input columns  :", c["cols"], "group_by", c["gb"], "page starts", c["starts"])
        print("implementation :", _short(o))
        print("model          :", _short_model(d))
        print("oracle         :", d["viol"])
        judge_unit(tmp, c, o, d, False)
    else:
        o = _doc_worker(case)
        d = common.driver_batch([doc_request(case, o)])[0]
        print("observed pages :", o if o["status"] != "ok" else [[(r["i"], r["g"]) for r in p] for p in o["pages"]])
        print("model          :", d.get("model_pages"), "error" if d["model_error"] else "")
        print("oracle         :", d.get("viol_cells"), d.get("viol_fill"))
        judge_doc(tmp, case, o, d)
    for _, why in tmp.failures:
        print("FAIL:", why)
    for _, why in tmp.disagreements:
        print("DISAGREE:", why)
    if tmp.failures or tmp.disagreements:
        print("VIOLATION property=C13 replay=<given>")
        return 1
    print("property holds on this input")
    return 0
