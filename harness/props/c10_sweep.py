"""C10 — the document-level character sweep and the constructor tie.

Why this exists.  The exhaustive code-point sweep of `c10.py` is at unit level (the escaper); its document stream draws
random characters from seven wide strata, so a character that is special to some *Python string method* (U+2028 for
`str.splitlines`, U+00A0 for `str.strip`, `²` for `str.isdigit`, `ß` for `str.upper`, U+FB01 for NFKC, …) practically
never lands in a given position of a document.  A text is handled by more code than the escaper before it is written:
pydantic validators, the constructors (`RTFTableTextComponent._process_text_conversion` joins the lines of a footnote /
source with `\\line `), polars, the renderer.  Two streams close that gap:

  constructor tie     every text-bearing constructor (`RTFTitle`, `RTFSubline`, `RTFPageHeader`, `RTFPageFooter`,
  (unit level)        `RTFColumnHeader`, `RTFFootnote`, `RTFSource`) called with the text given as `str` and as a list
                      of lines; the `.text` it stores is compared with the Lean model `Model.TextInput` (`lines`,
                      `footText`: the items unchanged; for footnote / source joined by the six characters `\\line `).
                      Items sweep every scalar value of the unit sweep (whole BMP in quick, everything in thorough) as a
                      one-character item, and every risky character at the start / middle / end of an item and as the
                      whole `str`.  This is where "the text that reaches the escaper is the user's text" is tied:
                      constructor (here) → post-construction state → `rtf_encode()` bytes (whole-encoder correspondence
                      of C01, `harness/encodecorr.py`, which serialises the state AFTER construction) → text holes
                      (`Props/C10enc.lean`) → reader (`Props/C10.lean`, `Props/C10in.lean`).
  document sweep      EVERY character of the risky classes (below) and a seeded sample of everything else is put into
  (observation level) EVERY position kind — title, subline, page header, page footer (each as `str` and as list of
                      lines), footnote and source (as table and as paragraph, each as `str` and as list of lines),
                      column header (explicit, spanning top level, from the column names), body cell, page_by heading
                      (spanning row inside the page / first row of a new page), subline_by heading — as the whole text
                      and at the start, in the middle and at the end of a text, with `text_convert` on / off / default.
                      The file written by `write_rtf` is read back with `harness/rtfread.py` and compared, position by
                      position, with what was given: character-for-character equality; the boundary between two items
                      of a list may be a line break, nothing else may.  Positions are found by STRUCTURE, not by a
                      sentinel inside the text (a sentinel would keep the character away from the start / end of the
                      text): every document has an all-ASCII twin with a unique sentinel in place of every text item;
                      the twin tells which slot (paragraph / cell, in reading order) shows which items.
"""
from __future__ import annotations

import contextlib
import io
import json
import os
import re
import shutil
import tempfile
import unicodedata

from .. import common, docgen, rtfread
from ..common import sub_rng

SURR = range(0xD800, 0xE000)
SYNTAX = (0x5C, 0x7B, 0x7D)
CONV_TRIGGER_CHARS = (0x5E, 0x5F, 0x0A)


def in_domain(n: int) -> bool:
    if n in SURR or n > 0x10FFFF or n < 0x20 or 0x7F <= n < 0xA0:
        return False
    return n not in SYNTAX


# ------------------------------------------------------------------ the risky classes

# characters every run must contain, whatever the seed (the rest of a big class is a seeded sample)
FIXED = {
    "decimal": [0x30, 0x39, 0x0660, 0x0663, 0x0669, 0x06F0, 0x0966, 0x0E50, 0xFF10, 0xFF19, 0x1D7CE, 0x1D7FF, 0x1FBF0],
    "digit": [0xB2, 0xB3, 0xB9, 0x2070, 0x2074, 0x2080, 0x2460, 0x2474, 0x2488, 0x24EA, 0x24F5, 0x2776, 0x1F100],
    "numeric": [0xBC, 0xBD, 0xBE, 0x2150, 0x215F, 0x2160, 0x2167, 0x2189, 0x3007, 0x4E94, 0x5341, 0x3251, 0x10107,
                0x12400],
    "case_odd": [0xB5, 0x017F, 0x03C2, 0x0131, 0x212A, 0x212B, 0x2126, 0x1E9E, 0x0345, 0x03D0, 0x1C80],
    "nfc": [0x0340, 0x0341, 0x0343, 0x0344, 0x0374, 0x037E, 0x0387, 0x1F71, 0x2000, 0x2001, 0x2126, 0x212A, 0x212B,
            0x2329, 0x232A, 0xF900, 0xFA0E, 0xFB1D, 0x1D15E, 0x2F800],
    "nfd": [0xC0, 0xE9, 0xF1, 0xFC, 0x0144, 0x01D5, 0x0385, 0x0439, 0x1E09, 0x304C, 0xAC00, 0xD7A3, 0x1109A],
    "nfkc": [0xA0, 0xA8, 0xAA, 0xAF, 0xB2, 0xB5, 0xB8, 0xBC, 0x0132, 0x017F, 0x02B0, 0x2002, 0x2011, 0x2024, 0x2026,
             0x2033, 0x203C, 0x2100, 0x2102, 0x2122, 0x2160, 0x2460, 0x2A74, 0x2E9F, 0x3000, 0x309B, 0x3131, 0x3200,
             0x3300, 0x33A0, 0xFB00, 0xFB01, 0xFB06, 0xFB13, 0xFB50, 0xFDFA, 0xFE10, 0xFE30, 0xFE50, 0xFE70, 0xFF01,
             0xFF21, 0xFF76, 0xFFE0, 0x1D400, 0x1D7D8, 0x1F100, 0x1F200],
    "combining": [0x0300, 0x0301, 0x0308, 0x0327, 0x0338, 0x034F, 0x0483, 0x0489, 0x05B0, 0x064B, 0x093F, 0x0E31,
                  0x1AB0, 0x20D0, 0x20DD, 0x3099, 0xFE20, 0x1D165],
    "private_unassigned": [0xE000, 0xE001, 0xF8FF, 0xF0000, 0xFFFFD, 0x100000, 0x10FFFD, 0x0378, 0x0530, 0x2FE0,
                           0xFFF0, 0x1FFFD, 0x2FFFD, 0x3FFFD, 0xE0000, 0xEFFFD],
    "wide_rtl": [0x05D0, 0x0627, 0x0644, 0xFDFD, 0x1100, 0x3042, 0x4E00, 0x9FFF, 0xAC00, 0xFF21, 0x1F600, 0x20000],
}
# classes so small and so often special that every one of their characters meets conversion on AND off in every kind
BOTH_FLAGS = ("linebreak", "space", "bom_bidi_shy", "constructor_disagreement")
BOM_BIDI_SHY = [0xAD, 0x061C, 0x180E, 0x200B, 0x200C, 0x200D, 0x200E, 0x200F, 0x202A, 0x202B, 0x202C, 0x202D, 0x202E,
                0x2060, 0x2061, 0x2062, 0x2063, 0x2064, 0x2066, 0x2067, 0x2068, 0x2069, 0xFEFF, 0xFFF9, 0xFFFA, 0xFFFB]
CP1252_HIGH = [0x20AC, 0x201A, 0x0192, 0x201E, 0x2026, 0x2020, 0x2021, 0x02C6, 0x2030, 0x0160, 0x2039, 0x0152, 0x017D,
               0x2018, 0x2019, 0x201C, 0x201D, 0x2022, 0x2013, 0x2014, 0x02DC, 0x2122, 0x0161, 0x203A, 0x0153, 0x017E,
               0x0178]
BOUNDARIES = [0x7E, 0xA0, 0xA1, 0xB0, 0xB1, 0xB2, 0xFE, 0xFF, 0x100, 0x101, 0x7FE, 0x7FF, 0x800, 0x801, 0x7FFE,
              0x7FFF, 0x8000, 0x8001, 0xFFFC, 0xFFFD, 0x10000, 0x10001, 0x103FF, 0x10400, 0x1FFFD, 0x20000, 0xFFFFD,
              0x100000, 0x10FFFD]

_SCAN = None


def _scan():
    """one pass over the Unicode database of the running Python (the one its `str` methods use): class → code points"""
    global _SCAN
    if _SCAN is not None:
        return _SCAN
    cl = {k: [] for k in ("linebreak", "space", "decimal", "digit", "numeric", "case_expand", "case_odd", "titlecase",
                          "nfc", "nfd", "nfkc", "combining", "format", "variation", "nonchar_surrogate_adjacent")}
    norm = unicodedata.normalize
    for n in range(0x20, 0x110000):
        if not in_domain(n):
            continue
        ch = chr(n)
        cat = unicodedata.category(ch)
        if cat in ("Cn", "Co"):
            continue            # unassigned / private use: no property to be special about (representatives in FIXED)
        if len(("a" + ch + "b").splitlines()) > 1:
            cl["linebreak"].append(n)
        if ch.isspace():
            cl["space"].append(n)
        if ch.isdecimal():
            cl["decimal"].append(n)
        elif ch.isdigit():
            cl["digit"].append(n)
        elif ch.isnumeric():
            cl["numeric"].append(n)
        up, lo, ti, cf = ch.upper(), ch.lower(), ch.title(), ch.casefold()
        if max(len(up), len(lo), len(ti), len(cf)) > 1:
            cl["case_expand"].append(n)
        elif up.lower() != lo or lo.upper() != up or cf != lo:
            cl["case_odd"].append(n)
        if cat == "Lt":
            cl["titlecase"].append(n)
        nfc = norm("NFC", ch)
        if nfc != ch:
            cl["nfc"].append(n)
        elif norm("NFD", ch) != ch:
            cl["nfd"].append(n)
        if norm("NFKC", ch) != nfc:
            cl["nfkc"].append(n)
        if cat in ("Mn", "Mc", "Me"):
            cl["combining"].append(n)
        if cat == "Cf":
            cl["format"].append(n)
    cl["variation"] = [0x180B, 0x180C, 0x180D, 0x180F] + list(range(0xFE00, 0xFE10)) + list(range(0xE0100, 0xE01F0))
    cl["nonchar_surrogate_adjacent"] = ([0xD7FE, 0xD7FF, 0xE000, 0xE001] + list(range(0xFDD0, 0xFDF0))
                                        + [p * 0x10000 + x for p in range(17) for x in (0xFFFE, 0xFFFF)])
    cl["ascii"] = [n for n in range(0x20, 0x7F) if in_domain(n)]
    cl["latin1"] = list(range(0xA0, 0x100))
    cl["cp1252_high"] = list(CP1252_HIGH)
    cl["bom_bidi_shy"] = list(BOM_BIDI_SHY)
    cl["boundaries"] = [b for b in BOUNDARIES if in_domain(b)]
    cl["private_unassigned"] = list(FIXED["private_unassigned"])
    cl["wide_rtl"] = list(FIXED["wide_rtl"])
    _SCAN = cl
    return cl


def risky(rng, tier):
    """[(class name, [code points])] — complete for the small classes; a big class keeps its FIXED members and a seeded
    sample (quick: 32 per class, thorough: 600) — and `other`, a seeded stratified sample of everything else"""
    cap = 32 if tier == "quick" else 600
    out = []
    for name, pts in _scan().items():
        pts = [p for p in pts if in_domain(p)]
        if name == "format":
            # tag characters U+E0001, U+E0020..U+E007F: one block of 97 alike → first, last and a few
            tags = [p for p in pts if 0xE0000 <= p < 0xE0080]
            keep = [p for p in pts if p not in tags]
            pts = keep + (tags if tier != "quick" else [tags[0], tags[-1]] + rng.sample(tags[1:-1], 4))
        elif name == "variation" and tier == "quick":
            sup = [p for p in pts if p >= 0xE0100]
            pts = [p for p in pts if p < 0xE0100] + [sup[0], sup[-1]] + rng.sample(sup[1:-1], 6)
        elif name == "latin1" and tier == "quick":
            # every Latin-1 character that is special to some string method is in its class already (NBSP, soft hyphen,
            # superscripts, fractions, micro sign, sharp s, …); of the rest a sample
            pts = rng.sample(pts, 32)
        elif name == "nonchar_surrogate_adjacent" and tier == "quick":
            pts = [p for p in pts if p < 0x30000 or p >= 0xE0000]
        elif len(pts) > max(cap, 96) and name != "case_expand":
            fixed = [p for p in FIXED.get(name, []) if p in set(pts)]
            rest = [p for p in pts if p not in set(fixed)]
            pts = fixed + rng.sample(rest, min(len(rest), max(0, cap - len(fixed))))
        out.append((name, sorted(set(pts))))
    seen = {p for _, pts in out for p in pts}
    n_other = 64 if tier == "quick" else 2000
    strata = [(0xA0, 0x800), (0x800, 0x3000), (0x3000, 0x8000), (0x8000, 0xD800), (0xE000, 0x10000),
              (0x10000, 0x20000), (0x20000, 0x110000)]
    other = set()
    while len(other) < n_other:
        lo, hi = strata[len(other) % len(strata)]
        p = rng.randrange(lo, hi)
        if in_domain(p) and p not in seen:
            other.add(p)
    out.append(("other", sorted(other)))
    return out


def conv_unsafe(cps) -> bool:
    """would conversion (text_convert on) read something else than the characters themselves?"""
    if any(c in CONV_TRIGGER_CHARS or c == 0x5C for c in cps):
        return True
    return any(b == 0x3D and a in (0x3C, 0x3E) for a, b in zip(cps, cps[1:]))


def show(s: str) -> str:
    return " ".join(f"U+{ord(c):04X}" for c in s[:24]) + (" …" if len(s) > 24 else "")


# ------------------------------------------------------------------ texts: every risky character × every placement

def make_entries(classes, rng, kidx, double=True):
    """the texts of ONE position kind: every risky character as the whole text, and at the start, in the middle and at
    the end of a text (three characters share one text: start + filler + middle + filler + end; the three rotations of
    the character list are bijections, so every character takes every placement exactly once).
    → [(text, conv)]  conv ∈ True / False / None (component default); a text that conversion would read differently
    (^ _) only with conversion off; characters of the BOTH_FLAGS classes with conversion on and off."""
    chars, both = [], set()
    for name, pts in classes:
        for p in pts:
            if p not in both and name in BOTH_FLAGS:
                both.add(p)
        chars.extend(pts)
    chars = sorted(set(chars))
    rng.shuffle(chars)
    n = len(chars)
    flags = (True, False, None)
    out = []

    def emit(text, k, special):
        cps = [ord(c) for c in text]
        if conv_unsafe(cps):
            out.append((text, False))
        elif special and double:
            out.append((text, True))
            out.append((text, False))
        else:
            out.append((text, flags[(k + kidx) % 3]))

    letters = "abcdefghijklmnopqrstuvwxyzABCDEFGHIJKLMNOPQRSTUVWXYZ"
    for i, c in enumerate(chars):
        emit(chr(c), i, c in both)
    o1, o2 = n // 3 + kidx, (2 * n) // 3 + 2 * kidx + 1
    for i, a in enumerate(chars):
        b, c = chars[(i + o1) % n], chars[(i + o2) % n]
        f1 = "".join(rng.choice(letters) for _ in range(rng.randint(1, 2)))
        f2 = "".join(rng.choice(letters) for _ in range(rng.randint(1, 2)))
        emit(chr(a) + f1 + chr(b) + f2 + chr(c), i + 1, bool({a, b, c} & both))
    return out


class Queue:
    """entries of one (kind, flag), handed out cyclically; `left` = entries not handed out yet"""

    def __init__(self, items):
        self.items, self.pos = items, 0

    @property
    def left(self):
        return max(0, len(self.items) - self.pos)

    def take(self):
        x = self.items[self.pos % len(self.items)]
        self.pos += 1
        return x


COMPONENTS = ("title", "subline", "page_header", "page_footer")
FOOTS = ("footnote", "source")
FLAGS = (True, False, None)


def _tiny_png() -> str:
    """a valid 1x1 RGB PNG, as hex"""
    import struct
    import zlib

    def chunk(typ, data):
        return struct.pack(">I", len(data)) + typ + data + struct.pack(">I", zlib.crc32(typ + data) & 0xFFFFFFFF)

    return (b"\x89PNG\r\n\x1a\n" + chunk(b"IHDR", struct.pack(">IIBBBBB", 1, 1, 8, 2, 0, 0, 0))
            + chunk(b"IDAT", zlib.compress(b"\x00\xff\x00\x00")) + chunk(b"IEND", b"")).hex()


_TINY_PNG = _tiny_png()


def kinds(dockind="table"):
    """position kinds of a document kind; those of figure / multi-section documents carry the prefix `figure/`, `multi/`"""
    ks = []
    for c in COMPONENTS:
        ks += [f"{c}:str", f"{c}:list"]
    for c in FOOTS:
        for shape in ("table", "para"):
            if dockind == "figure" and shape == "table":
                continue                     # RTFDocument rejects as_table=True next to an RTFFigure
            ks += [f"{c}:{shape}:str", f"{c}:{shape}:list"]
    if dockind == "table":
        ks += ["colheader:explicit", "colheader:top", "colheader:names", "cell", "page_by:spanning", "page_by:first_row",
               "subline_by"]
    elif dockind == "multi":
        ks += ["colheader:explicit", "colheader:names", "cell"]
    return [("" if dockind == "table" else dockind + "/") + k for k in ks]


def build_queues(classes, seed, dockind="table"):
    qs = {}
    for kidx, kind in enumerate(kinds(dockind)):
        ent = make_entries(classes, sub_rng(seed, "c10sweep-entries", kind), kidx, double=dockind == "table")
        if kind.endswith("colheader:names"):
            # the header built from the column names has the component's default flag; names must be usable as names
            ent = [(t, None) for t, f in ent if f is not False and not conv_unsafe([ord(c) for c in t])]
            seen, uniq = set(), []
            for e in ent:
                if e[0] not in seen:
                    seen.add(e[0])
                    uniq.append(e)
            ent = uniq
        if kind.endswith("subline_by"):
            ent = list(dict.fromkeys((t, None) for t, _ in ent))       # the subline_by heading is never converted
        for f in FLAGS:
            items = [t for t, g in ent if g is f]
            if items:
                qs[(kind, f)] = Queue(items)
    return qs


def _most_left(qs, cands):
    """(kind, flag) with most entries left among the candidates that exist"""
    best = None
    for k in cands:
        q = qs.get(k)
        if q is None:
            continue
        if best is None or q.left > qs[best].left:
            best = k
    return best


def small_classes(classes, rng, tier):
    """the characters swept through the sibling encoder paths (figure-only and multi-section documents): the classes
    of BOTH_FLAGS completely, of every other class its first member and a seeded few"""
    per = 1 if tier == "quick" else 24
    out = []
    for name, pts in classes:
        if name in BOTH_FLAGS or len(pts) <= per + 2:
            out.append((name, pts))
        else:
            out.append((name, sorted({pts[0], *rng.sample(pts[1:], min(per, len(pts) - 1))})))
    return out


def gen_docs(classes, seed, tier):
    """documents until every (kind, flag) queue has been handed out completely: single-section table documents with the
    whole character list, figure-only and multi-section documents (their own encoder paths) with `small_classes`"""
    qs = build_queues(classes, seed)
    docs = []
    k = 0
    while any(q.left for q in qs.values()) and k < 400000:
        docs.append(gen_doc(qs, sub_rng(seed, "c10sweep-doc", k)))
        k += 1
    small = small_classes(classes, sub_rng(seed, "c10sweep-small"), tier)
    for dockind in ("figure", "multi"):
        q2 = build_queues(small, seed, dockind)
        k = 0
        while any(q.left for q in q2.values()) and k < 100000:
            docs.append(gen_doc_other(q2, sub_rng(seed, "c10sweep-doc", dockind, k), dockind))
            k += 1
        qs.update(q2)
    return docs, qs


_FLAGNAME = {True: ":on", False: ":off", None: ":default"}
# Observed on the tree before 5a37b53 (reported, repaired): polars reads a COLUMN NAME `*` as the wildcard (and
# `^…$` as a regular expression) in `DataFrame.select([...names])`; `prepare_dataframe_for_body_encoding` selects the
# remaining columns by name when page_by / subline_by remove key columns, so a frame with a column named `*` and a
# page_by / subline_by column cannot be encoded (IndexError / polars DuplicateError).  The name `*` is therefore swept
# as a header-from-column-name only in documents without key columns (where it is written and read back like any other
# character); `^…$` names never arise here (^ is a conversion trigger, names have the default flag).
# Repaired in rtflite 5a37b53 (D45: the remaining columns are selected by position): nothing is special-cased any more.
POLARS_SELECTOR_NAMES = ()


def gen_doc(qs, rng):
    """one document.  `twin`: its spec with a unique ASCII sentinel `Zq<n>z` in place of every text item; `items`:
    {sentinel: text}; `where`: {sentinel: position kind}; `expect`: [(slot type, template, position kind)] — what the
    reader must show: a paragraph / cell whose text is the template with the sentinels replaced by their texts (the
    items of a list are separated by a line break, the values of a subline_by heading by ", ")."""
    items, where, expect = {}, {}, []

    def put(kind, flag):
        sid = f"Zq{len(items)}z"
        items[sid] = qs[(kind, flag)].take()
        where[sid] = kind + _FLAGNAME[flag]
        return sid

    def flagged(d, flag):
        if flag is not None:
            d["text_convert"] = flag
        return d

    spec = dict(kind="table", page=dict(nrow=rng.choice((60, 80))))
    # ---- title, subline, page header, page footer
    for c in COMPONENTS:
        kind, flag = _most_left(qs, [(f"{c}:{form}", f) for form in ("str", "list") for f in FLAGS])
        if not qs[(kind, flag)].left and rng.random() < 0.6:
            continue                         # every text of this component has been placed: mostly leave it out
        if kind.endswith(":str"):
            sids = [put(kind, flag)]
            d = dict(text=sids[0])
        else:
            sids = [put(kind, flag) for _ in range(rng.choice((1, 2, 3, 4)))]
            d = dict(text=list(sids))
        if rng.random() < 0.3:
            d["text_font"] = rng.randint(1, 10)
        spec[c] = flagged(d, flag)
        typ = {"page_header": "header para", "page_footer": "footer para"}.get(c, "para")
        expect.append((typ, "\n".join(sids), kind + _FLAGNAME[flag]))
    # ---- footnote, source
    for c in FOOTS:
        kind, flag = _most_left(qs, [(f"{c}:{shape}:{form}", f) for shape in ("table", "para")
                                      for form in ("str", "list") for f in FLAGS])
        if kind.endswith(":str"):
            sids = [put(kind, flag)]
            d = dict(text=sids[0])
        else:
            sids = [put(kind, flag) for _ in range(rng.choice((1, 2, 3, 4, 5)))]
            d = dict(text=list(sids))
        d["as_table"] = ":table:" in kind
        if rng.random() < 0.3:
            d["text_font"] = rng.randint(1, 10)
        spec[c] = flagged(d, flag)
        expect.append(("cell" if d["as_table"] else "para", "\n".join(sids), kind + _FLAGNAME[flag]))
    if rng.random() < 0.3:
        spec["page"]["page_footnote"] = rng.choice(("first", "last", "all"))
        spec["page"]["page_source"] = rng.choice(("first", "last", "all"))
    # ---- column headers (before the grouping is decided: see POLARS_SELECTOR_NAMES)
    ndata = rng.choice((1, 1, 2, 3))
    nrows = rng.choice((1, 1, 2, 3))
    hk, hflag = _most_left(qs, [("colheader:explicit", f) for f in FLAGS] + [("colheader:top", f) for f in FLAGS]
                           + [("colheader:names", None)])
    no_groups = False
    if hk == "colheader:names":
        names = [put(hk, None) for _ in range(ndata)]
        headers = "default"
        expect += [("cell", s, "colheader:names:default") for s in names]
        no_groups = any(items[s] in POLARS_SELECTOR_NAMES for s in names)
    else:
        names = [f"c{j}" for j in range(ndata)]
        texts = [put("colheader:explicit", hflag) if ("colheader:explicit", hflag) in qs else f"h{j}"
                 for j in range(ndata)]
        expect += [("cell", s, "colheader:explicit" + _FLAGNAME[hflag]) for s in texts]
        h = flagged(dict(text=texts), hflag)
        headers = [h]
        if (hk == "colheader:top" or rng.random() < 0.2) and ("colheader:top", hflag) in qs:
            top = put("colheader:top", hflag)
            expect.append(("cell", top, "colheader:top" + _FLAGNAME[hflag]))
            headers = [flagged(dict(text=[top], col_rel_width=[1]), hflag), h]
    # ---- body: cells, group headings
    bk, bflag = _most_left(qs, [(kd, f) for kd in ("cell", "page_by:spanning", "page_by:first_row") for f in FLAGS])
    body = flagged({}, bflag)
    want_pb = bk if bk.startswith("page_by") else None
    if want_pb is None and rng.random() < 0.35:
        want_pb = rng.choice(("page_by:spanning", "page_by:first_row"))
        if (want_pb, bflag) not in qs:
            want_pb = None
    want_sb = qs[("subline_by", None)].left > 0 or rng.random() < 0.25
    if no_groups:
        want_pb, want_sb = None, False
    keycols = []
    ngs = rng.choice((1, 2)) if want_sb else 1
    ngp = rng.choice((1, 2)) if want_pb else 1
    pairs = sorted((rng.randrange(ngs), rng.randrange(ngp)) for _ in range(nrows))
    sub_of_row = [a for a, _ in pairs]
    pg_of_row = [b for _, b in pairs]
    sub_vals, pg_vals = {}, {}
    if want_sb:
        nsub = rng.choice((1, 1, 2))
        subcols = [f"KEYs{j}" for j in range(nsub)]
        keycols += subcols
        body["subline_by"] = subcols
        for g in sorted(set(sub_of_row)):
            sub_vals[g] = [put("subline_by", None) for _ in subcols]
            expect.append(("para", ", ".join(sub_vals[g]), "subline_by:default"))
    if want_pb:
        keycols.append("KEYg")
        body["page_by"] = ["KEYg"]
        if want_pb == "page_by:first_row":
            body["new_page"] = True
            body["pageby_row"] = "first_row"
        # page_by groups nested in subline_by groups: one heading text per (subline group, page group)
        for key in sorted(set(zip(sub_of_row, pg_of_row))):
            pg_vals[key] = put(want_pb, bflag)
            expect.append(("cell", pg_vals[key], want_pb + _FLAGNAME[bflag]))
    if rng.random() < 0.4:
        body["text_font"] = rng.randint(1, 10)
    rows = []
    for i in range(nrows):
        row = []
        if want_sb:
            row += sub_vals[sub_of_row[i]]
        if want_pb:
            row.append(pg_vals[(sub_of_row[i], pg_of_row[i])])
        for _ in range(ndata):
            if ("cell", bflag) in qs:
                row.append(put("cell", bflag))
                expect.append(("cell", row[-1], "cell" + _FLAGNAME[bflag]))
            else:
                row.append("x")
                expect.append(("cell", "x", "fixed"))
        rows.append(row)
    spec["df"] = dict(cols=keycols + names, rows=rows)
    spec["headers"] = headers
    spec["body"] = body
    return dict(level="sweep", twin=spec, items=items, where=where, expect=expect)


def gen_doc_other(qs, rng, dockind):
    """a figure-only document (`_encode_figure_only`: title, subline, page header / footer, footnote and source — both
    as paragraphs, the constructor of the document rejects tables there — around a picture) or a two-section document (`_encode_multi_section`: the components
    are shared by the sections, every section has its own frame and column header)"""
    items, where, expect = {}, {}, []
    pre = dockind + "/"

    def put(kind, flag):
        sid = f"Zq{len(items)}z"
        items[sid] = qs[(kind, flag)].take()
        where[sid] = kind + _FLAGNAME[flag]
        return sid

    def flagged(d, flag):
        if flag is not None:
            d["text_convert"] = flag
        return d

    spec = dict(kind=dockind, page=dict(nrow=rng.choice((60, 80))))
    for c in COMPONENTS:
        kind, flag = _most_left(qs, [(f"{pre}{c}:{form}", f) for form in ("str", "list") for f in FLAGS])
        if not qs[(kind, flag)].left and rng.random() < 0.6:
            continue
        sids = [put(kind, flag)] if kind.endswith(":str") else [put(kind, flag) for _ in range(rng.choice((1, 2, 3)))]
        spec[c] = flagged(dict(text=sids[0] if kind.endswith(":str") else list(sids)), flag)
        typ = {"page_header": "header para", "page_footer": "footer para"}.get(c, "para")
        expect.append((typ, "\n".join(sids), kind + _FLAGNAME[flag]))
    for c in FOOTS:
        kind, flag = _most_left(qs, [(f"{pre}{c}:{shape}:{form}", f) for shape in ("table", "para")
                                      for form in ("str", "list") for f in FLAGS])
        sids = [put(kind, flag)] if kind.endswith(":str") else [put(kind, flag) for _ in range(rng.choice((1, 2, 3, 4)))]
        as_table = ":table:" in kind
        spec[c] = flagged(dict(text=sids[0] if kind.endswith(":str") else list(sids), as_table=as_table), flag)
        expect.append(("cell" if as_table else "para", "\n".join(sids), kind + _FLAGNAME[flag]))
    if rng.random() < 0.5:
        spec["page"]["page_footnote"] = rng.choice(("first", "last", "all"))
        spec["page"]["page_source"] = rng.choice(("first", "last", "all"))
        spec["page"]["page_title"] = rng.choice(("first", "last", "all"))
    if dockind == "figure":
        n = rng.choice((1, 1, 2))
        spec["figure"] = dict(files=[dict(name=f"f{i}.png", hex=_TINY_PNG) for i in range(n)],
                              fig_width=rng.choice((1, 2.5)), fig_height=rng.choice((1, 2)))
        return dict(level="sweep", twin=spec, items=items, where=where, expect=expect)
    frames, bodies, headers = [], [], []
    for sec in range(2):
        ndata, nrows = rng.choice((1, 2, 3)), rng.choice((1, 2, 3))
        bk, bflag = _most_left(qs, [(pre + "cell", f) for f in FLAGS])
        hk, hflag = _most_left(qs, [(pre + "colheader:explicit", f) for f in FLAGS] + [(pre + "colheader:names", None)])
        if hk.endswith("names"):
            names = [put(hk, None) for _ in range(ndata)]
            expect += [("cell", s, hk + ":default") for s in names]
            headers.append([dict(text=list(names))])      # a section's header is given explicitly: the names' texts
        else:
            names = [f"c{j}" for j in range(ndata)]
            texts = [put(hk, hflag) for _ in range(ndata)]
            expect += [("cell", s, hk + _FLAGNAME[hflag]) for s in texts]
            headers.append([flagged(dict(text=texts), hflag)])
        rows = []
        for i in range(nrows):
            rows.append([put(bk, bflag) for _ in range(ndata)])
            expect += [("cell", s, bk + _FLAGNAME[bflag]) for s in rows[-1]]
        frames.append(dict(cols=[f"c{j}" for j in range(ndata)], rows=rows))
        bodies.append(flagged({}, bflag))
    spec["df"], spec["body"], spec["headers"] = frames, bodies, headers
    return dict(level="sweep", twin=spec, items=items, where=where, expect=expect)


def substitute(v, items):
    """the real spec: every sentinel string of the twin replaced by its text"""
    if isinstance(v, str):
        return items.get(v, v)
    if isinstance(v, list):
        return [substitute(x, items) for x in v]
    if isinstance(v, dict):
        return {k: substitute(x, items) for k, x in v.items()}
    return v


# ------------------------------------------------------------------ observation: slots in reading order

_SID = re.compile(r"Zq\d+z")
_UUC = re.compile(rb"\\uc([0-9]+)|\\u(-?[0-9]+)")


def scan_u(data: bytes):
    probs, uc = [], 1
    for m in _UUC.finditer(data):
        if m.group(1) is not None:
            uc = int(m.group(1))
            continue
        n = int(m.group(2))
        if not -32768 <= n <= 32767:
            probs.append(f"\\u{n} outside the signed 16-bit range")
        nxt = data[m.end():m.end() + uc]
        if data[m.end():m.end() + 2] == b"\\'":
            continue
        if len(nxt) < uc or any(x in b"\\{}\r\n" for x in nxt):
            probs.append(f"\\u{n} under \\uc{uc} not followed by {uc} fallback character(s) (next bytes {nxt!r})")
    return probs


def slots(data: bytes):
    """[(slot type, text)] — every paragraph and every table cell the reader shows, in reading order"""
    doc = rtfread.read(data)
    out = []

    def walk(tag, blocks):
        for b in blocks:
            if b.kind == "row":
                for c in b.cells:
                    out.append((tag + "cell", rtfread.para_text(c)))
            elif b.kind in ("para", "loose", "cell"):
                out.append((tag + "para", rtfread.para_text(b)))

    for h in doc.headers:
        walk("header ", h)
    for f in doc.footers:
        walk("footer ", f)
    for p in doc.pages:
        walk("", p.blocks)
    return out


_WD = None


def _workdir():
    """one scratch directory per worker process"""
    global _WD
    if _WD is None or _WD[0] != os.getpid():
        import atexit
        d = tempfile.mkdtemp(prefix="rtfv_c10s_")
        atexit.register(shutil.rmtree, d, ignore_errors=True)
        _WD = (os.getpid(), d)
    return _WD[1]


def _write_read(spec):
    wd = _workdir()
    try:
        with contextlib.redirect_stdout(io.StringIO()):
            doc = docgen.build(spec, wd)
    except Exception as e:  # noqa: BLE001
        return dict(status="construct-error", msg=f"{docgen.classify_exc(e)}: {str(e)[:300]}")
    path = os.path.join(wd, "out.rtf")
    try:
        with contextlib.redirect_stdout(io.StringIO()):
            doc.write_rtf(path)
    except Exception as e:  # noqa: BLE001
        return dict(status="write-error", msg=f"{docgen.classify_exc(e)}: {str(e)[:300]}")
    with open(path, "rb") as fh:
        data = fh.read()
    os.unlink(path)
    out = dict(status="ok", uprobs=scan_u(data)[:5], high_bytes=0 if data.isascii() else sum(1 for b in data if b >= 0x80))
    try:
        out["slots"] = slots(data)
    except rtfread.RtfError as e:
        out["status"] = "unreadable"
        out["msg"] = str(e)
    return out


def doc_worker(case):
    """what the reader shows of the file written for the document"""
    return _write_read(substitute(case["twin"], case["items"]))


def twin_worker(case):
    """… and of its all-ASCII twin (every text item replaced by its sentinel); only needed to explain a failure"""
    return _write_read(case["twin"])


def fill(template, items):
    return _SID.sub(lambda m: items.get(m.group(0), m.group(0)), template)


def judge(res, case, ob, predicted, tw=None):
    """fail: the file does not show, position by position, what was given.
    Every position's text must be the text of a paragraph / cell of the right type (as often as positions ask for it;
    repeated headings and headers may add more), and every non-empty paragraph / cell the reader shows must be the text
    of some position: nothing is lost, changed or invented.  `predicted` = {sentinel: what the model's reader shows
    for the item}.  `tw` (observation of the all-ASCII twin), when given, is used to name the slot."""
    items, where = case["items"], case["where"]
    if ob["status"] != "ok":
        if tw is not None and tw["status"] == ob["status"]:
            res.count("sweep_config_not_writable_even_in_ascii")
            return
        res.fail(case, f"the document could not be written / read back: {ob['status']} {ob.get('msg')}; texts: "
                       f"{ {where[s]: show(t) for s, t in list(items.items())[:6]} }"
                       + ("" if tw is None else " (its all-ASCII twin can)"))
        return
    if ob["uprobs"]:
        res.fail(case, f"Unicode escape problems in the file: {ob['uprobs']}")
        return
    if ob["high_bytes"]:
        res.fail(case, f"the file holds {ob['high_bytes']} byte(s) >= 0x80 under \\ansi")
        return
    got = {}
    for typ, text in ob["slots"]:
        got[(typ, text)] = got.get((typ, text), 0) + 1
    need, label, tmpl_of = {}, {}, {}
    for typ, tmpl, kind in case["expect"]:
        key = (typ, fill(tmpl, items))
        need[key] = need.get(key, 0) + 1
        label.setdefault(key, kind)
        tmpl_of.setdefault(key, tmpl)
    lost = [k for k, n in need.items() if got.get(k, 0) < n]
    extra = [k for k in got if k[1] != "" and k not in need]
    if not lost and not extra:
        # correspondence: the model's reader on the same items
        for typ, tmpl, kind in case["expect"]:
            p = fill(tmpl, {s: ("<model: not intact>" if predicted.get(s) is None else predicted[s]) for s in items})
            if p != fill(tmpl, items):
                res.disagree(case, f"position [{kind}]: reader shows {fill(tmpl, items)!r}, the model predicts {p!r}")
                return
        return
    parts = []
    for k in lost[:3]:
        sids = _SID.findall(tmpl_of[k])
        given = [items.get(s, s) for s in sids]
        shown = None
        if tw is not None and tw.get("status") == "ok" and len(tw["slots"]) == len(ob["slots"]):
            idx = [i for i, (t, x) in enumerate(tw["slots"]) if t == k[0] and x == tmpl_of[k]]
            if idx:
                shown = ob["slots"][idx[0]][1]
        parts.append(f"position [{label[k]}] ({k[0]}): given {given!r} ({'; '.join(show(g) for g in given)}) — the reader "
                     f"must show {k[1]!r}, but no {k[0]} of the file written by write_rtf shows it"
                     + (f"; that {k[0]} shows {shown!r} ({show(shown)})" if shown is not None else ""))
    if extra:
        parts.append("shown by the reader but given nowhere: " + ", ".join(f"{k[0]} {k[1]!r} ({show(k[1])})" for k in extra[:3]))
    if tw is not None and tw.get("status") == "ok" and len(tw["slots"]) != len(ob["slots"]):
        parts.append(f"the file has {len(ob['slots'])} paragraphs/cells, its all-ASCII twin {len(tw['slots'])}")
    res.fail(case, "; ".join(parts))


def minimal_cases(case, ob):
    """candidates for a smaller failing input: for each lost position, the same document with ONLY that position's
    text(s); every other item keeps its ASCII sentinel"""
    items = case["items"]
    if ob.get("status") != "ok":
        # not written / not readable: each text alone in the same document
        return [dict(level="sweep", twin=case["twin"], items={s: t}, where={s: case["where"][s]}, expect=case["expect"])
                for s, t in list(items.items())[:24]]
    got = {(t, x) for t, x in ob["slots"]}
    out = []
    for typ, tmpl, kind in case["expect"]:
        if (typ, fill(tmpl, items)) in got:
            continue
        sids = [s for s in _SID.findall(tmpl) if s in items]
        for keep in [[s] for s in sids] + ([sids] if len(sids) > 1 else []):
            out.append(dict(level="sweep", twin=case["twin"], items={s: items[s] for s in keep},
                            where={s: case["where"][s] for s in keep}, expect=case["expect"]))
        if len(out) >= 8:
            break
    return out


_FLAG_OF = {"on": True, "off": False, "default": None}


def tiny_case(kind_flag, text):
    """the smallest document that has `text` in the position kind `kind_flag` (e.g. "footnote:table:str:on",
    "figure/source:para:list:off"): a one-cell table (a one-pixel picture; two one-cell sections) and that one text"""
    kind, fl = kind_flag.rsplit(":", 1)
    flag = _FLAG_OF[fl]
    dockind, _, kind = kind.rpartition("/")
    dockind = dockind or "table"
    sid = "Zq0z"

    def flagged(d):
        if flag is not None:
            d["text_convert"] = flag
        return d

    if dockind == "figure":
        spec = dict(kind="figure", figure=dict(files=[dict(name="f0.png", hex=_TINY_PNG)], fig_width=1, fig_height=1))
        expect = []
    elif dockind == "multi":
        spec = dict(kind="multi", df=[dict(cols=["c0"], rows=[["x"]]), dict(cols=["c0"], rows=[["y"]])], body=[{}, {}],
                    headers=[[dict(text=["h0"])], [dict(text=["h1"])]])
        expect = [("cell", t, "fixed") for t in ("h0", "x", "h1", "y")]
    else:
        spec = dict(kind="table", df=dict(cols=["c0"], rows=[["x"]]), headers="default")
        expect = [("cell", "c0", "fixed"), ("cell", "x", "fixed")]
    parts = kind.split(":")
    if parts[0] in COMPONENTS:
        spec[parts[0]] = flagged(dict(text=sid if parts[1] == "str" else [sid]))
        typ = {"page_header": "header para", "page_footer": "footer para"}.get(parts[0], "para")
        expect.append((typ, sid, kind_flag))
    elif parts[0] in FOOTS:
        spec[parts[0]] = flagged(dict(text=sid if parts[2] == "str" else [sid], as_table=parts[1] == "table"))
        expect.append(("cell" if parts[1] == "table" else "para", sid, kind_flag))
    elif dockind == "multi" and kind == "cell":
        spec["df"][0]["rows"] = [[sid]]
        spec["body"][0] = flagged({})
        expect = [e for e in expect if e[1] != "x"] + [("cell", sid, kind_flag)]
    elif dockind == "multi" and kind in ("colheader:explicit", "colheader:names"):
        spec["headers"][0] = [flagged(dict(text=[sid]))]
        expect = [e for e in expect if e[1] != "h0"] + [("cell", sid, kind_flag)]
    elif dockind != "table":
        return None
    elif kind == "cell":
        spec["df"] = dict(cols=["c0"], rows=[[sid]])
        spec["body"] = flagged({})
        expect = [("cell", "c0", "fixed"), ("cell", sid, kind_flag)]
    elif kind == "colheader:names":
        spec["df"] = dict(cols=[sid], rows=[["x"]])
        expect = [("cell", sid, kind_flag), ("cell", "x", "fixed")]
    elif kind in ("colheader:explicit", "colheader:top"):
        h = flagged(dict(text=["h0"] if kind.endswith("top") else [sid]))
        spec["headers"] = [flagged(dict(text=[sid], col_rel_width=[1])), h] if kind.endswith("top") else [h]
        expect = [("cell", "x", "fixed"), ("cell", sid, kind_flag)] + ([("cell", "h0", "fixed")] if kind.endswith("top") else [])
    elif parts[0] == "page_by":
        spec["df"] = dict(cols=["KEYg", "c0"], rows=[[sid, "x"]])
        spec["body"] = flagged(dict(page_by=["KEYg"]))
        if parts[1] == "first_row":
            spec["body"].update(new_page=True, pageby_row="first_row")
        expect.append(("cell", sid, kind_flag))
    elif kind == "subline_by":
        spec["df"] = dict(cols=["KEYs0", "c0"], rows=[[sid, "x"]])
        spec["body"] = dict(subline_by=["KEYs0"])
        expect.append(("para", sid, kind_flag))
    else:
        return None
    return dict(level="sweep", twin=spec, items={sid: text}, where={sid: kind_flag}, expect=expect)


def tiny_cases(case, ob):
    """for every lost position of a failing document: each of its texts alone in the smallest document"""
    if ob.get("status") != "ok":
        return []
    items = case["items"]
    got = {(t, x) for t, x in ob["slots"]}
    out = []
    for typ, tmpl, kind in case["expect"]:
        if (typ, fill(tmpl, items)) in got:
            continue
        for s in _SID.findall(tmpl):
            if s in items:
                c = tiny_case(case["where"][s], items[s])
                if c is not None:
                    out.append(c)
        if len(out) >= 8:
            break
    return out


# ------------------------------------------------------------------ run: document sweep

def run_doc_sweep(res, tier, corpus=(), extra=()):
    """`extra`: in-domain characters on which the constructor tie found a disagreement — swept like a risky class of
    their own (conversion on and off), so that the oracle decides whether the property fails on them"""
    rng = sub_rng(res.seed, "c10sweep-classes")
    classes = risky(rng, tier)
    if extra:
        classes = [("constructor_disagreement", sorted(extra))] + classes
    for name, pts in classes:
        res.count("sweep_class:" + name, len(pts))
    docs, qs = gen_docs(classes, res.seed, tier)
    cases = [dict(c, level="sweep") for c in corpus] + docs
    obs = common.pool_map(doc_worker, cases, chunksize=8)
    # the model's reader on every distinct item
    texts = sorted({t for c in cases for t in c["items"].values()})
    chunks = [texts[i:i + 4000] for i in range(0, len(texts), 4000)]
    drv = common.driver_batch([dict(op="read_predict", ts=[[ord(ch) for ch in t] for t in ch]) for ch in chunks])
    pred_of = {}
    for ch, d in zip(chunks, drv):
        for t, cps in zip(ch, d["texts"]):
            pred_of[t] = None if cps is None else "".join(map(chr, cps))
    tmp = common.Result(res.prop, res.tier, res.seed)
    failing = []
    for c, ob in zip(cases, obs):
        n0 = len(tmp.failures)
        judge(tmp, c, ob, {s: pred_of.get(t) for s, t in c["items"].items()})
        if len(tmp.failures) > n0:
            failing.append((c, ob))
        res.evaluations += 1
        res.nontrivial_keys.add(("sweepdoc", hash(json.dumps(c["items"], sort_keys=True))))
        res.corr_checked += 1
        for s, kind in c["where"].items():
            res.count("sweep_position:" + kind.rsplit(":", 1)[0])
            res.count("sweep_flag:" + kind.rsplit(":", 1)[1])
    res.disagreements += tmp.disagreements
    if docs:
        res.samples.append(dict(level="sweep", twin=docs[-1]["twin"], items=docs[-1]["items"]))
    res.count("sweep_documents", len(cases))
    res.count("sweep_text_items", sum(len(c["items"]) for c in cases))
    res.count("sweep_queues_not_exhausted", sum(1 for q in qs.values() if q.left))
    if not failing:
        return
    # explain (all-ASCII twin) and reduce: one text in one position, everything else ASCII; smallest first
    res.extra["sweep_failing_documents"] = len(failing)
    failing = failing[:12]
    cands = []
    for c, ob in failing[:6]:
        cands += tiny_cases(c, ob)
    for c, ob in failing[:3]:
        cands += minimal_cases(c, ob)
    cands = cands[:32]
    allc = [c for c, _ in failing] + cands
    while len(allc) < 4:
        allc.append(allc[0])                # never run a worker inline in the parent (polars before a later fork)
    tws = common.pool_map(twin_worker, allc, chunksize=1)
    mobs = common.pool_map(doc_worker, cands + [allc[0]] * max(0, 4 - len(cands)), chunksize=1)[:len(cands)]
    small = common.Result(res.prop, res.tier, res.seed)
    for c, ob, tw in zip(cands, mobs, tws[len(failing):]):
        judge(small, c, ob, {s: pred_of.get(t) for s, t in c["items"].items()}, tw)
    big = common.Result(res.prop, res.tier, res.seed)
    for (c, ob), tw in zip(failing, tws):
        judge(big, c, ob, {s: pred_of.get(t) for s, t in c["items"].items()}, tw)
    ordered = sorted(small.failures, key=lambda f: (len(json.dumps(f[0]["twin"])), sum(len(t) for t in f[0]["items"].values()),
                                                     json.dumps(f[0]["items"], sort_keys=True)))
    # the stored case also shows the document as the user would write it (`document`: the spec with the texts in place)
    res.failures += [(dict(c, document=substitute(c["twin"], c["items"])), why)
                     for c, why in ordered[:1] + big.failures + ordered[1:]]


# ------------------------------------------------------------------ unit level: the constructors (Model.TextInput)

FOOT_CLASSES = ("RTFFootnote", "RTFSource")
LINE_CLASSES = ("RTFTitle", "RTFSubline", "RTFPageHeader", "RTFPageFooter", "RTFColumnHeader")


def _s(cps):
    return "".join(map(chr, cps))


def _arg_value(arg):
    return _s(arg["one"]) if "one" in arg else [_s(x) for x in arg["many"]]


def _ser_text(cls, t):
    """`.text` after construction, as the driver op wants it"""
    if cls in FOOT_CLASSES:
        if isinstance(t, str):
            return [ord(c) for c in t]
        if isinstance(t, (list, tuple)) and len(t) == 0:
            return []                       # `[]` stays `[]`; every later use reads it like ""
        return None
    if isinstance(t, (list, tuple)) and all(isinstance(x, str) for x in t):
        return [[ord(c) for c in x] for x in t]
    return None


def ctor_worker(job):
    """job = dict(cls, kw, args) → [serialised `.text` | None | {"exc": …}] and, for list arguments whose result is not
    the plain join / the list itself, up to 6 single items that alone are not kept (candidates for a small case; the
    verdict on them is the model's, in a second round)"""
    try:
        import rtflite
        cls = getattr(rtflite, job["cls"])
    except (ImportError, AttributeError) as e:
        return ("unavailable", f"{type(e).__name__}: {e}")
    foot = job["cls"] in FOOT_CLASSES
    out, suspects = [], []
    for arg in job["args"]:
        v = _arg_value(arg)
        try:
            with contextlib.redirect_stdout(io.StringIO()):
                t = cls(text=v, **job["kw"]).text
            got = _ser_text(job["cls"], t)
        except Exception as e:  # noqa: BLE001
            out.append(dict(exc=f"{docgen.classify_exc(e)}: {str(e)[:200]}"))
            continue
        out.append(got)
        if "many" in arg and len(arg["many"]) > 1:
            naive = [ord(c) for c in "\\line ".join(v)] if foot else arg["many"]
            if got != naive:
                for item in arg["many"]:
                    try:
                        with contextlib.redirect_stdout(io.StringIO()):
                            t1 = _ser_text(job["cls"], cls(text=[_s(item)], **job["kw"]).text)
                    except Exception:  # noqa: BLE001
                        t1 = None
                    if t1 != (item if foot else [item]):
                        suspects.append(item)
                        if len(suspects) >= 6:
                            break
    return out, suspects


def ctor_jobs(classes, sweep_pts, rng, tier, sweep_small=None):
    """every constructor × (as_table, text_convert) variant × arguments: the swept scalar values as one-character items
    of long lists; every risky character as a one-character `str`; risky characters at the start / middle / end of a
    `str` and of the items of short lists"""
    chars = sorted({p for _, pts in classes for p in pts})
    variants = []
    for c in FOOT_CLASSES:
        for as_table in (True, False):
            variants.append((c, dict(as_table=as_table)))
    for c in LINE_CLASSES:
        variants.append((c, {}))
    jobs = []
    letters = "abcxyzABC"
    for vi, (cls, kw) in enumerate(variants):
        args = []
        pts = sweep_pts if cls in FOOT_CLASSES or sweep_small is None else sweep_small
        for i in range(0, len(pts), 2048):
            args.append(dict(many=[[p] for p in pts[i:i + 2048]]))
        for p in chars:
            args.append(dict(one=[p]))
        sh = list(chars)
        rng.shuffle(sh)
        n = len(sh)
        texts = []
        for i, a in enumerate(sh):
            b, c = sh[(i + n // 3 + vi) % n], sh[(i + 2 * n // 3 + 2 * vi + 1) % n]
            texts.append([a] + [ord(rng.choice(letters))] + [b] + [ord(rng.choice(letters))] + [c])
        for t in texts:
            args.append(dict(one=t))
        i = 0
        while i < len(texts):
            k = rng.randint(1, 5)
            args.append(dict(many=texts[i:i + k]))
            i += k
        args.append(dict(many=[]))
        args.append(dict(many=[[]]))
        args.append(dict(one=[]))
        flags = (None, True, False)
        for j in range(0, len(args), 256):
            kw2 = dict(kw)
            f = flags[(j // 256 + vi) % 3]
            if f is not None:
                kw2["text_convert"] = f
            jobs.append(dict(cls=cls, kw=kw2, args=args[j:j + 256]))
    return jobs


def run_unit_input(res, tier, sweep_pts, sweep_small=None):
    """→ in-domain characters on which a constructor and the model disagree (the document sweep looks at them first)"""
    rng = sub_rng(res.seed, "c10input")
    classes = risky(sub_rng(res.seed, "c10sweep-classes"), tier)
    jobs = ctor_jobs(classes, sweep_pts, rng, tier, sweep_small)
    bad_chars = []
    for rnd in (0, 1):
        obs = common.pool_map(ctor_worker, jobs, chunksize=1)
        un = [o for o in obs if isinstance(o, tuple) and o and o[0] == "unavailable"]
        if un:
            res.notes.append("unit correspondence (constructors) unavailable: " + un[0][1])
            res.count("unit_input_unavailable", len(jobs))
            return []
        reqs = []
        for job, (got, _) in zip(jobs, obs):
            reqs.append(dict(op="text_input", foot=job["cls"] in FOOT_CLASSES, args=job["args"],
                             got=[None if isinstance(g, dict) else g for g in got]))
        outs = common.driver_batch(reqs)
        found = []  # (size, job, arg, got, model)
        follow = []
        for job, (got, suspects), r in zip(jobs, obs, outs):
            det = {d["i"]: d["model"] for d in r["details"]}
            for i in r["disagree"]:
                arg = job["args"][i]
                size = sum(len(x) for x in arg["many"]) + len(arg["many"]) if "many" in arg else len(arg["one"])
                found.append((size, job, arg, got[i], det.get(i)))
            if suspects:
                follow.append(dict(cls=job["cls"], kw=job["kw"],
                                   args=[dict(many=[s]) for s in suspects] + [dict(one=s) for s in suspects]))
        if rnd == 0:
            n_args = sum(len(j["args"]) for j in jobs)
            res.count("unit_input_constructor_calls", n_args)
            res.count("unit_input_list_items", sum(len(a["many"]) for j in jobs for a in j["args"] if "many" in a))
            for j in jobs:
                res.count("unit_input:" + j["cls"], len(j["args"]))
            res.evaluations += n_args
            res.corr_checked += n_args
            res.nontrivial_keys.update(("in", j["cls"], json.dumps(j["kw"], sort_keys=True), k)
                                       for k, j in enumerate(jobs))
        found.sort(key=lambda x: (x[0], json.dumps(x[2], sort_keys=True)))
        for size, job, arg, got, model in found[:20]:
            if size > 64 and follow and rnd == 0:
                continue                     # the follow-up round reports the small form
            v = _arg_value(arg)
            shown = (got.get("exc") if isinstance(got, dict) else
                     None if got is None else (_s(got) if job["cls"] in FOOT_CLASSES else [_s(x) for x in got]))
            want = None if model is None else (_s(model) if job["cls"] in FOOT_CLASSES else [_s(x) for x in model])
            res.disagree(dict(level="input", cls=job["cls"], kw=job["kw"], arg=arg),
                         f"{job['cls']}(text={v!r}, {job['kw']}).text is {shown!r}; the model of the constructor "
                         f"(Model.TextInput: the user's lines, for footnote/source joined by '\\line ') says {want!r}")
        for size, job, arg, got, model in found:
            if size <= 8:
                for x in (arg["many"] if "many" in arg else [arg["one"]]):
                    bad_chars += [p for p in x if in_domain(p)]
        if found:
            res.extra["unit_input_disagreeing_arguments"] = res.extra.get("unit_input_disagreeing_arguments", 0) + len(found)
        if not follow:
            break
        jobs = follow
        while 0 < len(jobs) < 4:
            jobs.append(jobs[0])
    return sorted(set(bad_chars))[:64]


# ------------------------------------------------------------------ replay

def replay_case(case) -> bool:
    """re-run one stored case of this module; True = the property is violated on it"""
    if case.get("level") == "input":
        job = dict(cls=case["cls"], kw=case.get("kw") or {}, args=[case["arg"]])
        o = ctor_worker(job)
        if isinstance(o, tuple) and o and o[0] == "unavailable":
            print("constructor unavailable:", o[1])
            return False
        got = o[0]
        r = common.driver_batch([dict(op="text_input", foot=job["cls"] in FOOT_CLASSES, args=job["args"],
                                      got=[None if isinstance(g, dict) else g for g in got])])[0]
        print("constructor          :", job["cls"], job["kw"])
        print("text argument        :", repr(_arg_value(case["arg"])))
        print(".text afterwards     :", got[0] if isinstance(got[0], dict) or got[0] is None else
              (repr(_s(got[0])) if job["cls"] in FOOT_CLASSES else [_s(x) for x in got[0]]))
        if r["disagree"]:
            m = r["details"][0]["model"]
            print("model (TextInput)    :", repr(_s(m)) if job["cls"] in FOOT_CLASSES else [_s(x) for x in m])
            print("model and implementation differ on the constructor step (a correspondence failure; whether a reader "
                  "loses characters is decided by the document sweep)")
        else:
            print("model and implementation agree")
        return False
    ob, tw = doc_worker(case), twin_worker(case)
    texts = sorted(set(case["items"].values()))
    d = common.driver_batch([dict(op="read_predict", ts=[[ord(ch) for ch in t] for t in texts])])[0]
    pred_of = {t: (None if c is None else "".join(map(chr, c))) for t, c in zip(texts, d["texts"])}
    print("texts given:")
    for s, t in case["items"].items():
        print(f"  {case['where'][s]:34s} {t!r}  ({show(t)})")
    print("the reader shows (paragraphs / cells of the written file, in reading order):")
    for typ, text in ob.get("slots", []):
        if text:
            print(f"  {typ:12s} {text!r}")
    if ob.get("status") != "ok":
        print("  ", ob.get("status"), ob.get("msg"))
    tmp = common.Result("C10", "quick", 0)
    judge(tmp, case, ob, {s: pred_of.get(t) for s, t in case["items"].items()}, tw)
    for _, why in tmp.failures:
        print("FAIL:", why)
    for _, why in tmp.disagreements:
        print("model/implementation:", why)
    return bool(tmp.failures)
