"""C10 — every Unicode character reaches the reader intact.

Theorems: lean/Props/C10.lean about `Model.Escape` (writer: `escape`, `utf8`, `sublineHeader`;
reader = specification: `decode`, oracle `intact`).

Tie to the code on every run:
  unit level        real `TextContent(text=…, convert=…)._convert_special_chars()` (+ `.encode("utf-8")`, what
                    `write_text` does)  vs  model bytes — single code points (quick: the whole BMP + every boundary +
                    a stratified sample of every astral plane; thorough: ALL 1 112 064 scalar values; conversion on and off) and random mixed
                    strings; real `PageRenderer._generate_subline_header` vs model `sublineHeader`.
                    Oracle: the Lean-defined reader `decode` + `intact`, run by the driver on the
                    *implementation's* bytes (text reads back, every \\u in the signed 16-bit range and followed
                    by exactly \\uc fallback items, nothing malformed).
  observation level documents written with the real `write_rtf` into a temp dir, a test string in every
                    text-bearing position (body cell, column header explicit/from column names, title lines,
                    subline, footnote/source as table and as paragraph, page_by heading, subline_by heading,
                    page header/footer), conversion on / off / component default; the file *bytes* are read back
                    with harness/rtfread.py and every sentinel-tagged text compared with the original; plus a
                    byte-level scan of every `\\uN` / `\\ucN` in the file.
  constructor tie   (harness/props/c10_sweep.py) the text-bearing constructors (`RTFTitle`, …, `RTFFootnote`,
                    `RTFSource`; text as `str` and as list of lines) against `Model.TextInput` — the step between the
                    user's text and the text that reaches the escaper (`_process_text_conversion` joins footnote / source
                    lines with `\\line `); theorems `Props/C10in.lean`.
  document sweep    (harness/props/c10_sweep.py) EVERY character of the risky classes — characters special to a Python
                    string method (str.splitlines boundaries, the isspace / strip set, isdecimal / isdigit / isnumeric,
                    case-mapping expanders and odd case pairs, titlecase letters, NFC / NFD / NFKC-unstable characters,
                    combining marks), noncharacters and surrogate neighbours, BOM, bidi controls, soft hyphen and all
                    other format characters, variation selectors, cp1252's 0x80–0x9F characters, all ASCII, UTF-8 /
                    UTF-16 boundaries, private use / unassigned — plus a seeded sample of everything else, in EVERY
                    position kind (title, subline, page header, page footer as `str` and as list; footnote and source as
                    table and as paragraph, as `str` and as list; column header explicit / top level / from column names;
                    cell; page_by heading as spanning row and as first row; subline_by heading), as the WHOLE text and at
                    the START, MIDDLE and END of a text, conversion on / off / default.  The written file is read back
                    and must show, for every position, exactly the text given (items of a list separated by a line
                    break, nothing else); nothing lost, changed or invented.
"""
from __future__ import annotations

import contextlib
import io
import json
import os
import re
import shutil
import tempfile

from .. import common, docgen, rtfread
from ..common import sub_rng
from . import c10_sweep

RULE = ("unit: single scalar values (all boundaries 7F/80, 9F/A0, B1, FF/100, 7FF/800, 7FFF/8000, D7FF/E000, "
        "FFFF/10000, 10FFFF; quick = whole BMP + 2 000 per astral plane, thorough = every scalar value) and random strings mixing ASCII, Latin-1, 2-byte, "
        "BMP below/above U+8000 and astral characters, with text conversion on (no conversion-triggering "
        "sequences) and off; docs: the string in every text-bearing position; constructors: every swept scalar value as a "
        "one-character item of a list, every risky character as a one-character str and at the start / middle / end of "
        "a str and of list items, for RTFTitle/Subline/PageHeader/PageFooter/ColumnHeader/Footnote/Source; document "
        "sweep: every character of the risky classes (characters special to str.splitlines / isspace / isdecimal / "
        "isdigit / isnumeric / upper / lower / casefold / title, NFC-, NFD-, NFKC-unstable, combining, noncharacters, "
        "surrogate neighbours, BOM, bidi and other format controls, soft hyphen, variation selectors, cp1252 0x80-0x9F "
        "characters, all ASCII, encoding boundaries, private use / unassigned; big classes: fixed representatives + "
        "seeded sample) and a seeded sample of all other code points, in every position kind (title, subline, page "
        "header, page footer: str and list; footnote, source: table and paragraph, str and list; column header "
        "explicit / top / from names; cell; page_by heading spanning / first row; subline_by heading) as the whole text "
        "and at the start, middle and end of a text, conversion on / off / default; non-trivial = contains at least one "
        "non-ASCII character; distinct by (level, conversion flag, text)")
TRUSTED = [
    "Lean 4.33 kernel; axioms ⊆ {propext, Classical.choice, Quot.sound} (audited per theorem on every run)",
    "Lean compiler for the driver executable (compiled evaluation agrees with kernel reduction)",
    "Model.Escape.decode is *our* reading of RTF 1.9 for text runs (7-bit text, \\'hh and raw high bytes in cp1252, "
    "\\uN signed 16-bit with \\ucN fallback skipping, surrogate pairs) — the specification the theorems are relative to",
    "harness/rtfread.py (Python RTF reader, same rules) for whole documents",
    "the Unicode database of the running CPython (unicodedata / str methods) for the definition of the risky classes",
]
MANIFEST = dict(
    text="Lean theorems over the model of the per-character escaper that ends TextContent._convert_special_chars, "
         "the UTF-8 writer and the subline_by heading, against a reader-side decoder defined in Lean: for every "
         "Unicode scalar value outside C0/C1 controls and raw \\ { } (indeed for everything except \\ { } CR LF) and "
         "every string of them, decode(utf8(escape t)) = t; every \\u argument lies in [-32768, 32767], is governed "
         "by \\uc1 and followed by exactly one fallback character; the bytes on disk are 7-bit for every input. "
         "Tied to the code on every run: escaper vs model over all 1 112 064 scalar values (thorough; whole BMP + "
         "stratified astral planes in quick) and random strings, conversion on and off, the Lean reader judging the implementation's bytes; and "
         "files written by write_rtf with the string in every text-bearing position read back by an RTF reader. "
         "_escape_non_ascii is also translated from its Python source on every run and proved equal to the model's "
         "escape for every string (Props/C10py.lean). The step BEFORE the escaper — what the constructors do with the "
         "text argument (a str is one line; footnote / source lines are joined by '\\line ') — is modelled "
         "(Model/TextInput.lean), proved to keep every character (Props/C10in.lean: the bytes of a footnote / source are "
         "the bytes of its lines separated by \\line and nothing else; the reader shows the lines' characters in order) "
         "and tied to the real constructors on every run; a document-level sweep puts every character that is special "
         "to a Python string method (line boundaries, whitespace, digit classes, case mapping, normalisation), every "
         "noncharacter / format control / variation selector and a seeded sample of the rest into every position kind, "
         "as whole text and at the start / middle / end, and reads the written file back position by position.",
    note="The reader (Model.Escape.decode / harness/rtfread.py: cp1252 for bytes >= 0x80, \\uN + \\uc skipping, "
         "surrogate pairs) is the specification. With conversion on, generated strings avoid conversion-triggering "
         "sequences (^ _ >= <= and backslash commands; those are C11's). That every document position calls the "
         "escaper is proved for the encoder model (Props/C10enc.lean) and observed on real files; the subline_by "
         "heading, which has its own code path, is modelled and proved. The chain for 'the text that reaches the escaper "
         "is the user's text': constructors vs Model.TextInput (unit tie, c10_sweep.py) -> post-construction state -> "
         "rtf_encode bytes (whole-encoder correspondence of C01, which serialises the state AFTER construction) -> text "
         "holes (C10enc) -> reader (C10, C10in); the document sweep observes the whole chain end to end. Big risky "
         "classes (decimal digits, numerics, NFD/NFKC-unstable, combining marks) are swept by fixed representatives plus "
         "a seeded sample in the quick tier. A frame column NAMED '*' is swept as header-from-name only in documents "
         "without page_by/subline_by: polars reads that name as a wildcard in select(), which rtflite uses there "
         "(reported as an rtflite defect outside this property).",
    technique="Lean 4 proof (case split on code-point ranges + fold over the reader's state machine, induction on the "
              "string) + exhaustive/differential correspondence model/implementation + read-back of real files",
    design="7/C10",
)
ASSUME = [
    "RTF reader semantics as modelled (cp1252 under \\ansi, \\uN/\\ucN, surrogate pairs combined by the reader)",
    "CPython str.encode('utf-8') / Path.write_text (modelled by utf8; compared on every unit case)",
    "polars str() of string cells is the identity; pydantic construction",
]

CORPUS_DIR = common.CORPUS / "C10"
CORPUS_SWEEP: list = []

# ------------------------------------------------------------------ alphabets

SURR = range(0xD800, 0xE000)
BOUNDARIES = [0x20, 0x21, 0x5B, 0x5D, 0x5E, 0x5F, 0x60, 0x7A, 0x7C, 0x7E, 0x7F, 0x80, 0x81, 0x9F, 0xA0, 0xA1,
              0xAD, 0xB0, 0xB1, 0xB2, 0xFE, 0xFF, 0x100, 0x101, 0x7FE, 0x7FF, 0x800, 0x801, 0x7FFE, 0x7FFF,
              0x8000, 0x8001, 0xD7FE, 0xD7FF, 0xE000, 0xE001, 0xFFFD, 0xFFFE, 0xFFFF, 0x10000, 0x10001,
              0x103FF, 0x10400, 0x1F600, 0x1FFFF, 0x20000, 0xFFFFF, 0x100000, 0x10FFFE, 0x10FFFF]
# strata: (name, lo, hi) — half-open, surrogates never inside
STRATA = [("ascii", 0x20, 0x7F), ("latin1", 0xA0, 0x100), ("twobyte", 0x100, 0x800), ("bmp_low", 0x800, 0x8000),
          ("bmp_high", 0x8000, 0xD800), ("bmp_top", 0xE000, 0x10000), ("astral", 0x10000, 0x110000)]
SYNTAX = (0x5C, 0x7B, 0x7D)
CONV_TRIGGER_CHARS = (0x5E, 0x5F, 0x0A)   # ^ _ newline (keys of RTF_CHAR_MAPPING); backslash is excluded anyway


def in_domain(n: int) -> bool:
    """the property's domain: scalar value, no C0/C1 control (incl. DEL), not raw \\ { }"""
    if n in SURR or n > 0x10FFFF or n < 0x20 or 0x7F <= n < 0xA0:
        return False
    return n not in SYNTAX


def stratum(n: int) -> str:
    for name, lo, hi in STRATA:
        if lo <= n < hi:
            return name
    return "control"


def conv_safe(cps) -> bool:
    """no conversion-triggering sequence: ^ _ newline, >= <=, backslash"""
    if any(c in CONV_TRIGGER_CHARS or c == 0x5C for c in cps):
        return False
    for a, b in zip(cps, cps[1:]):
        if b == 0x3D and a in (0x3C, 0x3E):
            return False
    return True


def gen_text(rng, safe: bool, maxlen=12, minlen=0) -> list[int]:
    """in-domain string (code points) mixing the strata; `safe` = usable with conversion on"""
    n = rng.randint(minlen, maxlen)
    w = [rng.choice((0, 1, 1, 2, 4)) for _ in STRATA]
    if not any(w):
        w[rng.randrange(len(w))] = 1
    out = []
    while len(out) < n:
        if rng.random() < 0.15:
            c = rng.choice(BOUNDARIES)
        else:
            _, lo, hi = rng.choices(STRATA, weights=w)[0]
            c = rng.randrange(lo, hi)
        if not in_domain(c):
            continue
        if safe and (c in CONV_TRIGGER_CHARS or (c == 0x3D and out and out[-1] in (0x3C, 0x3E))):
            continue
        out.append(c)
    return out


def s_of(cps) -> str:
    return "".join(map(chr, cps))


def show(cps) -> str:
    return " ".join(f"U+{c:04X}" for c in cps[:24]) + (" …" if len(cps) > 24 else "")


# ------------------------------------------------------------------ unit level: the escaper

def _esc_worker(job):
    """job = (conv, texts as lists of code points) → list of hex(utf-8 of the escaper's result) | None"""
    conv, texts = job
    try:
        from rtflite.row import TextContent
        probe = TextContent(text="a", convert=False)._convert_special_chars
        del probe
    except (ImportError, AttributeError, TypeError) as e:
        return ("unavailable", f"{type(e).__name__}: {e}")
    out = []
    for cps in texts:
        try:
            with contextlib.redirect_stdout(io.StringIO()):
                r = TextContent(text=s_of(cps), convert=conv)._convert_special_chars()
            out.append(r.encode("utf-8").hex())
        except Exception:  # noqa: BLE001 — no bytes for this text (UnicodeEncodeError or the escaper raised): judged as such
            out.append(None)
    return out


def sweep_points(rng, tier):
    if tier == "thorough":
        return [n for n in range(0x110000) if n not in SURR]
    pts = set(range(0x10000))                      # the whole Basic Multilingual Plane, even in the quick tier
    for b in BOUNDARIES:
        pts.update(x for x in range(b - 2, b + 3) if 0 <= x <= 0x10FFFF)
    for plane in range(1, 17):                     # every plane: its first and last 16, 2 000 random ones
        base = plane * 0x10000
        pts.update(range(base, base + 16))
        pts.update(range(base + 0xFFF0, base + 0x10000))
        for _ in range(2000):
            pts.add(base + rng.randrange(0x10000))
    for hi in range(0xD800, 0xDC00, 7):            # every 7th high surrogate, low surrogate boundaries
        for lo in (0xDC00, 0xDC01, 0xDFFE, 0xDFFF):
            pts.add(0x10000 + (hi - 0xD800) * 1024 + (lo - 0xDC00))
    return sorted(p for p in pts if p not in SURR)


def unit_string_cases(rng, tier):
    """[(conv, cps)] random mixed strings; a few outside the domain for the correspondence only"""
    n = 6000 if tier == "quick" else 150000
    cases = []
    for k in range(n):
        conv = k % 2 == 0
        r = rng.random()
        if r < 0.06 and not conv:
            # outside the domain (controls, DEL, C1, raw syntax): model and code must still agree
            t = gen_text(rng, False, 8)
            for _ in range(rng.randint(1, 2)):
                t.insert(rng.randint(0, len(t)), rng.choice([0, 9, 10, 13, 0x1F, 0x7F, 0x80, 0x85, 0x9F, 0x5C, 0x7B, 0x7D]))
        elif r < 0.2:
            # a special character at a string boundary
            t = gen_text(rng, conv, 6)
            c = rng.choice([b for b in BOUNDARIES if in_domain(b) and not (conv and b in CONV_TRIGGER_CHARS)])
            t = [c] + t if rng.random() < 0.5 else t + [c]
            if conv and not conv_safe(t):
                t = [c]
        else:
            t = gen_text(rng, conv, 14)
        cases.append((conv, t))
    return cases


def _chunks(xs, k):
    return [xs[i:i + k] for i in range(0, len(xs), k)]


def run_unit_escape(res: common.Result, rng, tier, corpus=()):
    pts = sweep_points(rng, tier)
    items = []  # (conv, cps, kind)
    for c in corpus:
        items.append((bool(c.get("conv", False)), list(c["t"]), "corpus"))
    for conv in (False, True):
        for n in pts:
            if conv and (n in CONV_TRIGGER_CHARS or n == 0x5C):
                continue
            items.append((conv, [n], "single"))
    for conv, t in unit_string_cases(rng, tier):
        items.append((conv, t, "string"))
    # group by flag, chunk, run the real code
    jobs = []
    for conv in (False, True):
        for ch in _chunks([it[1] for it in items if it[0] == conv], 4096):
            jobs.append((conv, ch))
    obs = common.pool_map(_esc_worker, jobs, chunksize=1)
    if obs and isinstance(obs[0], tuple) and obs[0][0] == "unavailable":
        res.notes.append("unit correspondence (escaper) unavailable: " + obs[0][1])
        res.count("unit_escape_unavailable", len(items))
        return
    reqs = [dict(op="esc_check", ts=job[1], hex=o) for job, o in zip(jobs, obs)]
    outs = common.driver_batch(reqs)
    bad = []  # (sortkey, conv, t, impl hex, is_fail)
    nfail = ndis = 0
    for job, o, r in zip(jobs, obs, outs):
        fails, dis = set(r["fail"]), set(r["disagree"])
        nfail += len(fails)
        ndis += len(dis - fails)
        for k in fails | dis:
            t = job[1][k]
            bad.append(((0 if k in fails else 1, len(t), t), job[0], t, o[k], k in fails))
    bad.sort(key=lambda x: x[0])
    bad = bad[:60]
    # details for the reported ones (smallest first), one request each
    dets = common.driver_batch([dict(op="esc_check", ts=[t], hex=[h]) for _, _, t, h, _ in bad])
    for (_, conv, t, h, is_fail), r in zip(bad, dets):
        d = r["details"][0] if r["details"] else {}
        onoff = "on" if conv else "off"
        case = dict(level="unit", kind="escape", conv=conv, t=t, text=s_of(t) if all(c not in SURR for c in t) else None)
        if is_fail:
            dec = d.get("decoded") or {}
            why = (f"{show(t)} (conversion {onoff}) is written as bytes {h} = {bytes.fromhex(h)!r}; an RTF reader shows "
                   f"{show(dec.get('text', []))} — {', '.join(d.get('why', []))}" if h is not None else
                   f"{show(t)} (conversion {onoff}): the escaper's result cannot be encoded as UTF-8")
            res.fail(case, why)
        else:
            res.disagree(case, f"escaper output for {show(t)} (conversion {onoff}) is {h}, model says {d.get('model')}")
    if nfail or ndis:
        res.extra["unit_escape_failing_inputs"] = nfail
        res.extra["unit_escape_disagreeing_inputs"] = ndis
    # bookkeeping
    for i, (conv, t, kind) in enumerate(items):
        nonascii = any(c >= 128 for c in t)
        key = None
        if nonascii:
            key = (t[0] * 2 + conv) if len(t) == 1 else ("u", conv, tuple(t))
        if i < 3 or (kind == "string" and i % 50000 == 7):
            res.case(dict(level="unit", kind="escape", conv=conv, t=t), key)
        else:
            res.evaluations += 1
            if key is not None:
                res.nontrivial_keys.add(key)
    res.count("unit_single_conv_off", sum(1 for it in items if it[2] == "single" and not it[0]))
    res.count("unit_single_conv_on", sum(1 for it in items if it[2] == "single" and it[0]))
    res.count("unit_strings", sum(1 for it in items if it[2] == "string"))
    res.count("unit_strings_outside_domain", sum(1 for it in items if it[2] == "string" and not all(map(in_domain, it[1]))))
    for name, _, _ in STRATA:
        res.count("unit_single_" + name, sum(1 for it in items if it[2] == "single" and not it[0] and stratum(it[1][0]) == name))
    res.corr_checked += len(items)
    if tier == "thorough":
        res.exhaustive = True
        res.extra["exhaustive_note"] = ("single-character correspondence is complete: all 1 112 064 Unicode scalar values "
                                        "went through the real escaper with conversion off (and all but ^ _ \\ LF with it on)")


# ------------------------------------------------------------------ unit level: subline_by heading

def _subline_worker(batch):
    try:
        from rtflite.encoding.renderer import PageRenderer
        r = PageRenderer()
        fn = r._generate_subline_header
    except (ImportError, AttributeError, TypeError) as e:
        return ("unavailable", f"{type(e).__name__}: {e}")
    out = []
    for vals in batch:
        info = {"group_values": {f"k{i}": (None if v is None else s_of(v)) for i, v in enumerate(vals)}}
        try:
            s = fn(info)
            out.append(s.encode("utf-8").hex())
        except UnicodeEncodeError:
            out.append(None)
        except (AttributeError, TypeError, KeyError) as e:
            return ("unavailable", f"{type(e).__name__}: {e}")
    return out


def run_unit_subline(res: common.Result, rng, tier, corpus=()):
    n = 2500 if tier == "quick" else 40000
    cases = [c["vals"] for c in corpus]
    for k in range(n):
        nv = rng.choice((1, 1, 1, 2, 2, 3))
        vals = []
        for _ in range(nv):
            if rng.random() < 0.12:
                vals.append(None)
            else:
                vals.append(gen_text(rng, False, 8, 0 if rng.random() < 0.1 else 1))
        cases.append(vals)
    batches = _chunks(cases, 512)
    obs = common.pool_map(_subline_worker, batches, chunksize=1)
    if any(isinstance(o, tuple) for o in obs):
        msg = next(o for o in obs if isinstance(o, tuple))[1]
        res.notes.append("unit correspondence (subline heading) unavailable: " + msg)
        res.count("unit_subline_unavailable", len(cases))
        return
    outs = common.driver_batch([dict(op="subline_check", vals=b, hex=o) for b, o in zip(batches, obs)])
    bad = []
    for b, o, r in zip(batches, obs, outs):
        fails, dis = set(r["fail"]), set(r["disagree"])
        for k in fails | dis:
            bad.append(((0 if k in fails else 1, sum(len(v or []) for v in b[k]), len(b[k])), b[k], o[k], k in fails))
    bad.sort(key=lambda x: x[0])
    bad = bad[:40]
    dets = common.driver_batch([dict(op="subline_check", vals=[v], hex=[h]) for _, v, h, _ in bad])
    for (_, vals, h, is_fail), r in zip(bad, dets):
        d = r["details"][0] if r["details"] else {}
        case = dict(level="unit", kind="subline", vals=vals)
        if is_fail:
            dec = d.get("decoded") or {}
            res.fail(case, f"subline_by heading for group values {[None if v is None else s_of(v) for v in vals]!r} is written "
                           f"as {h} = {bytes.fromhex(h) if h is not None else None!r}; an RTF reader shows "
                           f"{show(dec.get('text', []))} — {', '.join(d.get('why', []))}")
        else:
            res.disagree(case, f"subline heading bytes {h} differ from the model's {d.get('model')}")
    for i, vals in enumerate(cases):
        flat = [c for v in vals if v for c in v]
        key = ("s", tuple(tuple(v) if v is not None else None for v in vals)) if any(c >= 128 for c in flat) else None
        if i < 1:
            res.case(dict(level="unit", kind="subline", vals=vals), key)
        else:
            res.evaluations += 1
            if key is not None:
                res.nontrivial_keys.add(key)
    res.count("unit_subline_headings", len(cases))
    res.corr_checked += len(cases)


# ------------------------------------------------------------------ observation level

_SENT = re.compile(r"^(PG|SG|PH|PF|B|H|T|S|F|R)(\d+(?:c\d+)?):")
_UUC = re.compile(rb"\\uc([0-9]+)|\\u(-?[0-9]+)")


def gen_doc(rng):
    """spec + expectation {sentinel: text} for one document"""
    def flag():
        return rng.choice((True, False, None))

    def txt(tag, conv, maxlen=10):
        return tag + ":" + s_of(gen_text(rng, conv is not False, maxlen))

    exp = {}

    def put(tag, conv, maxlen=10):
        s = txt(tag, conv, maxlen)
        exp[tag] = s
        return s

    strategy = rng.choice(["plain", "plain", "page_by", "subline_by", "both"])
    ndata = rng.randint(1, 3)
    nrows = rng.randint(1, 6)
    body_conv = flag()
    hdr_mode = rng.choice(["explicit", "explicit", "names", "none"])
    hdr_conv = flag()
    # data column names: carry test strings when they become the header
    names = []
    for j in range(ndata):
        if hdr_mode == "names":
            names.append(put(f"H{j}", True, 6))     # default header: component default conversion → safe strings
        else:
            names.append(f"c{j}")
    keycols, body = [], {}
    if strategy in ("subline_by", "both"):
        nsub = rng.choice((1, 1, 2))
        subcols = [f"s{k}" for k in range(nsub)]
        keycols += subcols
        body["subline_by"] = subcols
    if strategy in ("page_by", "both"):
        keycols.append("g")
        body["page_by"] = ["g"]
        if rng.random() < 0.3:
            body["new_page"] = True
            body["pageby_row"] = "first_row"
    if body_conv is not None:
        body["text_convert"] = body_conv
    if rng.random() < 0.5:
        # any of the ten fonts (three of them declare a non-ANSI \fcharset in the font table: what a reader makes of
        # \'hh and raw bytes depends on it, what it makes of \uN does not)
        body["text_font"] = rng.randint(1, 10)
    # group keys as contiguous runs (page_by groups nested inside subline_by groups)
    ngs, ngp = rng.randint(1, 2), rng.randint(1, 2)
    pairs = sorted((rng.randrange(ngs), rng.randrange(ngp)) for _ in range(nrows))
    sub_of_row = [a for a, _ in pairs]
    pg_of_row = [b for _, b in pairs] if strategy == "both" else sorted(b for _, b in pairs)
    sub_vals = {}
    if "subline_by" in body:
        for g in set(sub_of_row):
            parts = [txt(f"SG{g}", False)] + [ "x" + s_of(gen_text(rng, False, 6)) for _ in body["subline_by"][1:]]
            sub_vals[g] = parts
            exp[f"SG{g}"] = ", ".join(parts)
    pg_vals = {}
    if "page_by" in body:
        for g in set(pg_of_row):
            pg_vals[g] = put(f"PG{g}", body_conv)
    rows = []
    for i in range(nrows):
        row = []
        if "subline_by" in body:
            row += sub_vals[sub_of_row[i]]
        if "page_by" in body:
            row.append(pg_vals[pg_of_row[i]])
        for j in range(ndata):
            row.append(put(f"B{i}c{j}", body_conv))
        rows.append(row)
    if hdr_mode == "explicit":
        h = dict(text=[put(f"H{j}", hdr_conv, 6) for j in range(ndata)])
        if hdr_conv is not None:
            h["text_convert"] = hdr_conv
        headers = [h]
        if rng.random() < 0.3:
            top = dict(text=[put("H9", hdr_conv, 6)], col_rel_width=[1])
            if hdr_conv is not None:
                top["text_convert"] = hdr_conv
            headers = [top, h]
    elif hdr_mode == "names":
        headers = "default"
    else:
        headers = []

    def comp(tag, nlines=1, **extra):
        conv = flag()
        lines = [put(f"{tag}{k}", conv) for k in range(nlines)]
        d = dict(text=lines if nlines > 1 or rng.random() < 0.5 else lines[0], **extra)
        if conv is not None:
            d["text_convert"] = conv
        if rng.random() < 0.4:
            d["text_font"] = rng.randint(1, 10)
        return d

    spec = dict(kind="table", df=dict(cols=keycols + names, rows=rows), page=dict(nrow=rng.choice((8, 12, 40))),
                headers=headers, body=body)
    if rng.random() < 0.8:
        spec["title"] = comp("T", rng.choice((1, 1, 2, 3)))
    if rng.random() < 0.7:
        spec["subline"] = comp("S")
    if rng.random() < 0.8:
        spec["footnote"] = comp("F", rng.choice((1, 1, 2)) , as_table=rng.random() < 0.5)
    if rng.random() < 0.8:
        spec["source"] = comp("R", as_table=rng.random() < 0.5)
    if rng.random() < 0.7:
        spec["page_header"] = comp("PH")
    if rng.random() < 0.7:
        spec["page_footer"] = comp("PF")
    if rng.random() < 0.5:
        spec["page"]["page_footnote"] = rng.choice(("first", "last", "all"))
        spec["page"]["page_source"] = rng.choice(("first", "last", "all"))
    return dict(spec=spec, exp=exp, strategy=strategy, hdr_mode=hdr_mode)


def scan_u(data: bytes):
    """byte-level facts about every \\uN in the file, in order: N in the signed 16-bit range; with the \\ucK last
    declared before it (default 1), the K bytes after it are not scope/control delimiters (so K fallback characters
    are really there).  Problems as strings."""
    probs = []
    uc = 1
    for m in _UUC.finditer(data):
        if m.group(1) is not None:
            uc = int(m.group(1))
            continue
        n = int(m.group(2))
        if not -32768 <= n <= 32767:
            probs.append(f"\\u{n} outside the signed 16-bit range")
        nxt = data[m.end():m.end() + uc]
        if data[m.end():m.end() + 2] == b"\\'":      # a \'hh fallback is one character too
            continue
        if len(nxt) < uc or any(x in b"\\{}\r\n" for x in nxt):
            probs.append(f"\\u{n} under \\uc{uc} not followed by {uc} fallback character(s) (next bytes {nxt!r})")
    return probs


def observe(data: bytes):
    """{sentinel: [texts seen]} from the file bytes (every paragraph line / cell that starts with a sentinel)"""
    doc = rtfread.read(data)
    seen = {}

    def take(text):
        for line in text.split("\n"):
            m = _SENT.match(line)
            if m:
                seen.setdefault(m.group(1) + m.group(2), []).append(line)

    def walk(blocks):
        for b in blocks:
            if b.kind == "row":
                for c in b.cells:
                    take(rtfread.para_text(c))
            elif b.kind in ("para", "loose", "cell"):
                take(rtfread.para_text(b))

    for h in doc.headers:
        walk(h)
    for f in doc.footers:
        walk(f)
    for p in doc.pages:
        walk(p.blocks)
    return seen


def _write_and_read(spec):
    wd = tempfile.mkdtemp(prefix="rtfv_c10_")
    try:
        try:
            with contextlib.redirect_stdout(io.StringIO()):
                doc = docgen.build(spec)
        except Exception as e:  # noqa: BLE001
            return dict(status="construct-error", msg=f"{docgen.classify_exc(e)}: {str(e)[:300]}")
        path = os.path.join(wd, "out.rtf")
        try:
            with contextlib.redirect_stdout(io.StringIO()):
                doc.write_rtf(path)
        except Exception as e:  # noqa: BLE001
            return dict(status="write-error", msg=f"{docgen.classify_exc(e)}: {str(e)[:300]}")
        data = open(path, "rb").read()
        out = dict(status="ok", size=len(data), uprobs=scan_u(data)[:5], high_bytes=sum(1 for b in data if b >= 0x80))
        try:
            out["seen"] = observe(data)
        except rtfread.RtfError as e:
            out["status"] = "unreadable"
            out["msg"] = str(e)
        return out
    finally:
        shutil.rmtree(wd, ignore_errors=True)


def _asciify(v):
    """the same document with every non-ASCII character replaced by 'x' (control for what is not C10's business)"""
    if isinstance(v, str):
        return "".join(ch if ord(ch) < 128 else "x" for ch in v)
    if isinstance(v, list):
        return [_asciify(x) for x in v]
    if isinstance(v, dict):
        return {k: _asciify(x) for k, x in v.items()}
    return v


def _doc_worker(case):
    out = _write_and_read(case["spec"])
    missing = out["status"] != "ok" or any(t not in out["seen"] for t in case["exp"])
    if missing:
        # control: does the all-ASCII twin of this document have the same trouble?  Then it is the configuration
        # (some other property's business), not the characters.
        c = _write_and_read(_asciify(case["spec"]))
        out["ctrl"] = dict(status=c["status"], msg=c.get("msg"), tags=sorted(c.get("seen", {})))
    return out


def judge_doc(res, case, ob, predicted):
    """predicted: {sentinel: text the model says the reader shows (None = model says not intact)}"""
    exp = case["exp"]
    ctrl = ob.get("ctrl") or {}
    if ob["status"] != "ok":
        if ctrl.get("status") == ob["status"]:
            res.count("doc_config_not_writable_even_in_ascii")
            res.notes.append(f"document configuration rejected independently of its characters: {ob['status']} {ob.get('msg')}")
            return
        if ob["status"] == "unreadable":
            res.fail(case, f"the written file is not readable as RTF text: {ob['msg']}; {ob.get('uprobs')} "
                           f"(the all-ASCII twin of the document is fine)")
        else:
            res.fail(case, f"document could not be written: {ob['status']} {ob['msg']} (its all-ASCII twin can)")
        return
    if ob["uprobs"]:
        res.fail(case, f"Unicode escape problems in the file: {ob['uprobs']}")
        return
    seen = ob["seen"]
    for tag, want in exp.items():
        got = seen.get(tag)
        if not got:
            if tag not in ctrl.get("tags", [tag]):
                res.count("doc_position_not_rendered_even_in_ascii")
                continue
            near = [t for k, v in seen.items() for t in v if k.startswith(tag[:1])][:2]
            res.fail(case, f"text at position {tag} ({want!r}) not found in the file as written (similar: {near!r}); "
                           f"the all-ASCII twin of the document shows it")
            return
        for g in got:
            if g != want:
                res.fail(case, f"text at position {tag}: wrote {want!r} ({show(list(map(ord, want)))}), reader shows {g!r} "
                               f"({show(list(map(ord, g)))})")
                return
            if predicted.get(tag) != g:
                res.disagree(case, f"position {tag}: reader shows {g!r}, model predicts {predicted.get(tag)!r}")


def run_docs(res, rng, tier, corpus=()):
    ndocs = 300 if tier == "quick" else 3000
    cases = [dict(level="doc", **c) for c in corpus]
    for k in range(ndocs):
        c = gen_doc(sub_rng(res.seed, "c10doc", k))
        c["level"] = "doc"
        cases.append(c)
    obs = common.pool_map(_doc_worker, cases, chunksize=2)
    tags = [list(c["exp"].items()) for c in cases]
    reqs = [dict(op="read_predict", ts=[[ord(ch) for ch in s] for _, s in tg]) for tg in tags]
    drv = common.driver_batch(reqs)
    for c, o, tg, d in zip(cases, obs, tags, drv):
        predicted = {}
        for (tag, _), cps in zip(tg, d["texts"]):
            predicted[tag] = None if cps is None else s_of(cps)
        allt = "".join(c["exp"].values())
        nt = ("d", hash(json.dumps(c["exp"], sort_keys=True, ensure_ascii=True))) if any(ord(ch) >= 128 for ch in allt) else None
        res.case(dict(level="doc", spec=c["spec"], exp=c["exp"]), nt)
        res.count("doc:" + c.get("strategy", "corpus"))
        res.count("doc_header:" + c.get("hdr_mode", "corpus"))
        for tag in c["exp"]:
            res.count("doc_position:" + _SENT.match(tag + ":").group(1))
        if o["status"] == "ok":
            if o["high_bytes"]:
                res.count("doc_with_raw_high_bytes")
            res.count("doc_astral" if any(ord(ch) >= 0x10000 for ch in allt) else "doc_bmp_only")
        res.corr_checked += 1
        judge_doc(res, dict(level="doc", spec=c["spec"], exp=c["exp"]), o, predicted)


# ------------------------------------------------------------------ entry points

def load_corpus():
    unit, sub, docs = [], [], []
    global CORPUS_SWEEP
    CORPUS_SWEEP = []
    if CORPUS_DIR.is_dir():
        for f in sorted(CORPUS_DIR.glob("*.json")):
            c = json.loads(f.read_text(encoding="utf-8")).get("case", {})
            if c.get("level") == "unit" and c.get("kind") == "escape":
                unit.append(c)
            elif c.get("level") == "unit" and c.get("kind") == "subline":
                sub.append(c)
            elif c.get("level") == "doc":
                docs.append(dict(spec=c["spec"], exp=c["exp"]))
            elif c.get("level") == "sweep":
                CORPUS_SWEEP.append(c)
    return unit, sub, docs


def run(res: common.Result, build) -> int:
    cu, cs, cd = load_corpus()
    res.count("corpus_cases", len(cu) + len(cs) + len(cd) + len(CORPUS_SWEEP))
    import time
    t0 = time.time()
    phases = res.extra.setdefault("phase_wall_s", {})
    run_unit_escape(res, sub_rng(res.seed, "c10unit"), res.tier, cu)
    phases["unit_escape"] = round(time.time() - t0, 1)
    run_unit_subline(res, sub_rng(res.seed, "c10sub"), res.tier, cs)
    run_docs(res, sub_rng(res.seed, "c10docs"), res.tier, cd)
    phases["subline_and_docs"] = round(time.time() - t0 - phases["unit_escape"], 1)
    t1 = time.time()
    # the constructor step (user's text → the text that reaches the escaper) and the document-level character sweep
    pts = sweep_points(sub_rng(res.seed, "c10unit"), res.tier)
    small = sweep_points(sub_rng(res.seed, "c10unit"), "quick") if res.tier == "thorough" else None
    suspects = c10_sweep.run_unit_input(res, res.tier, pts, small)
    phases["constructors"] = round(time.time() - t1, 1)
    t1 = time.time()
    c10_sweep.run_doc_sweep(res, res.tier, CORPUS_SWEEP, suspects)
    phases["document_sweep"] = round(time.time() - t1, 1)
    return common.finish(
        res, build, RULE, TRUSTED, ASSUME,
        explanation="C10_char_roundtrip / C10_roundtrip: decode(utf8(escape t)) = t for every text of scalar values "
                    "outside C0/C1 controls and raw \\ { } (C10_roundtrip_all_but_syntax: for everything but \\ { } CR LF); "
                    "C10_u_escapes: every \\u argument in [-32768, 32767], under \\uc1, followed by exactly one skipped "
                    "fallback item; C10_seven_bit / C10_bytes_on_disk: the file bytes are 7-bit for every input; "
                    "C10_subline_heading: the subline_by heading paragraph reads back as the joined group values; "
                    "C10_intact: the oracle used on the implementation holds of the model. Other document positions are "
                    "tied by observation of real files (they all call _convert_special_chars) and by Props/C10enc.lean for the "
                    "encoder model. C10in_*: the constructors keep the user's characters — a str is the one line, "
                    "footnote / source lines are joined by \\line and nothing else (C10in_foot_bytes), the reader shows "
                    "the characters of all lines in order with one line break per boundary (C10in_foot_roundtrip, "
                    "C10in_foot_intact, C10in_foot_u_escapes), also inside the encoder model "
                    "(C10in_footnote_end_to_end, C10in_source_end_to_end).")


def replay(payload) -> int:
    case = payload.get("case") or {}
    if not case and payload.get("broken"):
        case = next((b.get("case") for b in payload["broken"] if b.get("case")), {})
    bad = False
    if case.get("level") in ("sweep", "input"):
        bad = c10_sweep.replay_case(case)
    elif case.get("level") == "unit" and case.get("kind") == "escape":
        t, conv = list(case["t"]), bool(case.get("conv"))
        o = _esc_worker((conv, [t]))
        if isinstance(o, tuple):
            print("escaper unavailable:", o[1])
            return 2
        r = common.driver_batch([dict(op="esc_check", ts=[t], hex=o), dict(op="esc_model", t=t)])
        print("text                 :", show(t), f"(conversion {'on' if conv else 'off'})")
        print("implementation bytes :", o[0], "=", bytes.fromhex(o[0]) if o[0] is not None else None)
        print("model bytes          :", r[1]["bytes"])
        if r[0]["details"]:
            d = r[0]["details"][0]
            print("reader on impl bytes :", d.get("decoded"))
            print("why                  :", d.get("why"))
        bad = bool(r[0]["fail"])
        if r[0]["disagree"] and not bad:
            print("model and implementation differ (property not violated on this input)")
    elif case.get("level") == "unit" and case.get("kind") == "subline":
        o = _subline_worker([case["vals"]])
        if isinstance(o, tuple):
            print("subline heading unavailable:", o[1])
            return 2
        r = common.driver_batch([dict(op="subline_check", vals=[case["vals"]], hex=o)])[0]
        print("group values         :", [None if v is None else s_of(v) for v in case["vals"]])
        print("implementation bytes :", o[0], "=", bytes.fromhex(o[0]) if o[0] is not None else None)
        for d in r["details"]:
            print("model bytes          :", d["model"])
            print("reader on impl bytes :", d.get("decoded"))
            print("why                  :", d.get("why"))
        bad = bool(r["fail"])
    else:
        o = _doc_worker(case)
        tg = list(case["exp"].items())
        d = common.driver_batch([dict(op="read_predict", ts=[[ord(ch) for ch in s] for _, s in tg])])[0]
        predicted = {tag: (None if cps is None else s_of(cps)) for (tag, _), cps in zip(tg, d["texts"])}
        print("observed:", {k: v for k, v in o.items() if k != "seen"})
        for tag, want in case["exp"].items():
            print(f"  {tag}: wrote {want!r}  read {o.get('seen', {}).get(tag)!r}")
        tmp = common.Result("C10", "quick", 0)
        judge_doc(tmp, case, o, predicted)
        for _, why in tmp.failures:
            print("FAIL:", why)
        bad = bool(tmp.failures)
    if bad:
        print("VIOLATION property=C10 replay=<given>")
        return 1
    print("property holds on this input")
    return 0
