"""Shared machinery of the rtflite verification harness.

Run with /venv/bin/python (rtflite is an editable install of /repo/src there).
Exit codes of a check: 0 property held on everything explored, 1 VIOLATION, 2 machinery error.
"""
from __future__ import annotations

import fcntl
import hashlib
import json
import os
import random
import re
import subprocess
import sys
import time
import traceback
from pathlib import Path

VERIF = Path(__file__).resolve().parent.parent
LEAN = VERIF / "lean"
REPO = Path(os.environ.get("RTFLITE_REPO", "/repo"))
DRIVER = LEAN / ".lake" / "build" / "bin" / "driver"
# seeded-change runs (tools/seedcheck.py) redirect evidence and replays so that committed evidence always comes from
# runs against /repo itself
EVIDENCE = Path(os.environ.get("VERIF_EVIDENCE_DIR", VERIF / "evidence"))
REPLAYS = Path(os.environ.get("VERIF_REPLAYS_DIR", VERIF / "replays"))
CORPUS = VERIF / "corpus"
KNOWN = VERIF / "known_findings.json"
NCPU = min(16, os.cpu_count() or 4)

ALLOWED_AXIOMS = {"propext", "Classical.choice", "Quot.sound"}
FORBIDDEN = re.compile(
    r"\bsorry\b|\badmit\b|^\s*axiom\s|native_decide|bv_decide|implemented_by|\bunsafe\s|maxHeartbeats\s+0"
)


class MachineryError(Exception):
    pass


def log(*a):
    print(*a, file=sys.stderr, flush=True)


def seed_from_env() -> int:
    try:
        return int(os.environ.get("VERIF_SEED", "0"))
    except ValueError:
        return 0


def sub_rng(seed: int, *tags) -> random.Random:
    h = hashlib.sha256(("/".join(str(t) for t in (seed,) + tags)).encode()).digest()
    return random.Random(int.from_bytes(h[:8], "big"))


# --------------------------------------------------------------------------- build

def _run(cmd, cwd=None, timeout=3600, env=None):
    p = subprocess.run(cmd, cwd=cwd, capture_output=True, text=True, timeout=timeout, env=env)
    out = "\n".join(l for l in (p.stdout + p.stderr).splitlines() if "WARNING" not in l or "conda" not in l.lower())
    return p.returncode, out


class BuildLock:
    def __enter__(self):
        self.f = open(LEAN / ".build.lock", "w")
        fcntl.flock(self.f, fcntl.LOCK_EX)
        return self

    def __exit__(self, *a):
        fcntl.flock(self.f, fcntl.LOCK_UN)
        self.f.close()


def strip_comments(src: str) -> str:
    # remove /- ... -/ (nested not handled beyond one level of care) and -- comments
    out = []
    i = 0
    depth = 0
    n = len(src)
    while i < n:
        if src.startswith("/-", i):
            depth += 1
            i += 2
            continue
        if depth > 0 and src.startswith("-/", i):
            depth -= 1
            i += 2
            continue
        if depth > 0:
            if src[i] == "\n":
                out.append("\n")
            i += 1
            continue
        if src.startswith("--", i):
            while i < n and src[i] != "\n":
                i += 1
            continue
        out.append(src[i])
        i += 1
    return "".join(out)


def lean_imports(path: Path, seen=None) -> list[Path]:
    """Transitive project-local imports of a Lean file."""
    seen = seen if seen is not None else {}
    if path in seen or not path.exists():
        return list(seen)
    seen[path] = True
    for m in re.finditer(r"^import\s+([\w.]+)", path.read_text(), re.M):
        mod = m.group(1)
        p = LEAN / (mod.replace(".", "/") + ".lean")
        if p.exists():
            lean_imports(p, seen)
    return list(seen)


def build_all(prop: str, tier: str = "quick") -> dict:
    """translate + build driver + build Props.<prop> + axiom audit.

    Returns dict(driver_ok, proof_ok, log, theorems, discharged, bad_axioms, forbidden_hits)."""
    from . import translate

    res = dict(driver_ok=False, proof_ok=False, log="", theorems=[], discharged=[], bad=[],
               forbidden=[], translate_changed=[])
    with BuildLock():
        try:
            res["translate_changed"] = translate.run()
        except Exception as e:  # translator failing on the current tree
            res["log"] += "translate failed: " + "".join(traceback.format_exception_only(type(e), e))
            res["translate_error"] = True
        rc, out = _run(["lake", "build", "driver"], cwd=LEAN)
        res["log"] += out[-4000:]
        res["driver_ok"] = rc == 0 and DRIVER.exists()
        props_file = LEAN / "Props" / f"{prop}.lean"
        if not props_file.exists():
            res["log"] += f"\nno Props/{prop}.lean"
            return res
        # a property may own several theorem files: Props/C01.lean, Props/C01emit.lean, …
        extra_files = sorted(f for f in (LEAN / "Props").glob(f"{prop}?*.lean") if f.stem[len(prop)].isalpha())
        # translator tie (harness/pytranslate.py): a bridge file `Props/CNNpy.lean` is an obligation only while the
        # Python function it imports is inside the translated subset; otherwise the correspondence is the only tie
        try:
            py_status = json.loads((LEAN / "Generated" / "py_status.json").read_text())
        except Exception:  # noqa: BLE001
            py_status = {}
        res["py_tie"] = {}
        for f in list(extra_files):
            used = [u for u in re.findall(r"^import Generated\.Py(\w+)", f.read_text(), re.M) if u != "Prelude"]
            for u in used:
                res["py_tie"][u] = py_status.get(u, dict(ok=False, why="no status"))
            if used and not all(py_status.get(u, {}).get("ok") for u in used):
                extra_files.remove(f)
        rc, out = _run(["lake", "build", f"Props.{prop}"] + [f"Props.{f.stem}" for f in extra_files], cwd=LEAN)
        res["log"] += "\n" + out[-6000:]
        built = rc == 0
        # forbidden tokens in the property's sources (comments stripped)
        closure = {}
        for pf in [props_file] + extra_files:
            lean_imports(pf, closure)
        for f in list(closure):
            code = strip_comments(f.read_text())
            for ln, line in enumerate(code.splitlines(), 1):
                if FORBIDDEN.search(line):
                    res["forbidden"].append(f"{f.relative_to(LEAN)}:{ln}: {line.strip()[:80]}")
        # theorems of the property file
        thms, full_names, imports = [], {}, []
        for pf in [props_file] + extra_files:
            code = strip_comments(pf.read_text())
            ns = re.search(r"^namespace\s+([\w.]+)", code, re.M)
            nsname = ns.group(1) if ns else ""
            imports.append(f"import Props.{pf.stem}\n")
            for t in re.findall(r"^theorem\s+([\w.'?!]+)", code, re.M):
                thms.append(t)
                full_names[t] = f"{nsname}.{t}"
        res["theorems"] = thms
        if built and thms:
            audit = LEAN / ".lake" / f"Audit_{prop}.lean"
            audit.write_text("".join(imports) + "".join(f"#print axioms {full_names[t]}\n" for t in thms))
            rc, out = _run(["lake", "env", "lean", str(audit)], cwd=LEAN)
            res["log"] += "\n" + out[-3000:]
            cur = None
            axioms: dict[str, set] = {}
            for m in re.finditer(
                r"'([^']+)' (does not depend on any axioms|depends on axioms: \[([^\]]*)\])", out
            ):
                name = m.group(1)
                axs = set(a.strip() for a in (m.group(3) or "").split(",") if a.strip())
                axioms[name] = axs
            for t in thms:
                full = full_names[t]
                if full in axioms and axioms[full] <= ALLOWED_AXIOMS:
                    res["discharged"].append(t)
                else:
                    res["bad"].append((t, sorted(axioms.get(full, {"<not reported>"}))))
        # thorough tier: independent re-check of the compiled module with leanchecker
        if built and tier == "thorough":
            rc, out = _run(["lake", "env", "leanchecker", f"Props.{prop}"] + [f"Props.{f.stem}" for f in extra_files],
                           cwd=LEAN, timeout=3600)
            res["leanchecker"] = dict(exit=rc, tail=out[-300:])
            if rc != 0:
                res["log"] += "\nleanchecker failed: " + out[-1500:]
                built = False
        res["proof_ok"] = bool(
            built and thms and not res["bad"] and not res["forbidden"] and not res.get("translate_error")
        )
    return res


# --------------------------------------------------------------------------- driver

def driver_batch(requests: list[dict], timeout=1800) -> list[dict]:
    if not requests:
        return []
    if not DRIVER.exists():
        raise MachineryError("driver binary missing")
    data = "\n".join(json.dumps(r, ensure_ascii=False, separators=(",", ":")) for r in requests) + "\n"
    p = subprocess.run([str(DRIVER)], input=data.encode("utf-8"), capture_output=True, timeout=timeout)
    if p.returncode != 0:
        raise MachineryError(f"driver exited {p.returncode}: {p.stderr.decode()[-500:]}")
    lines = p.stdout.decode("utf-8").splitlines()
    if len(lines) != len(requests):
        raise MachineryError(f"driver answered {len(lines)} lines for {len(requests)} requests")
    out = []
    for l, rq in zip(lines, requests):
        r = json.loads(l)
        if "error" in r:
            raise MachineryError(f"driver error {r['error']} on op {rq.get('op')}")
        out.append(r)
    return out


# --------------------------------------------------------------------------- worker pool

class Hang(Exception):
    """the code under test did not return within the deadline"""


class deadline:
    """`with deadline(seconds): call()` inside a pool worker (main thread of its process): raises Hang when the call
    has consumed `seconds` of CPU time without returning — a non-terminating implementation must become a verdict, not a
    check that never ends.  The timer counts the process's CPU time (ITIMER_PROF), not wall-clock time, so a loaded
    or stalled machine cannot turn a slow run into a false alarm."""

    def __init__(self, seconds: float):
        self.seconds = seconds

    def _raise(self, *_):
        raise Hang(f"no result after {self.seconds} s of CPU time")

    def __enter__(self):
        import signal

        self._old = signal.signal(signal.SIGPROF, self._raise)
        signal.setitimer(signal.ITIMER_PROF, self.seconds)
        return self

    def __exit__(self, *exc):
        import signal

        signal.setitimer(signal.ITIMER_PROF, 0)
        signal.signal(signal.SIGPROF, self._old)
        return False


def fork_safe() -> bool:
    """False once this process runs extra threads (polars' pool after a DataFrame operation, most likely): children
    forked from it can block for ever in a futex"""
    try:
        return len(os.listdir("/proc/self/task")) <= 8        # (the harness itself keeps a few helper threads)
    except OSError:
        return True


def assert_fork_safe(where: str):
    """a pool must never be forked from a parent that has run polars code: that is a harness bug (some code path ran a
    worker function inline in the parent) and would make the check hang; fail loudly instead"""
    if not fork_safe():
        raise MachineryError(f"{where}: the check's parent process runs {len(os.listdir('/proc/self/task'))} threads "
                             f"(a worker function was run inline in the parent?) — refusing to fork a pool from it")


def isolated(fn, arg):
    """`fn(arg)` in a worker process, never in the parent (see fork_safe)"""
    return pool_map(fn, [arg] * 4)[0]


def pool_map(fn, items, chunksize=4, procs=None):
    """Run fn over items in worker processes (fork). fn must be a module-level function."""
    import multiprocessing as mp

    items = list(items)
    if not items:
        return []
    procs = procs or NCPU
    if len(items) < 4 or procs == 1:
        return [fn(x) for x in items]
    # fork: workers inherit the module globals the property modules prepare in the parent (e.g. c15._BASE).  A parent
    # that has run polars code carries its thread pool and forked children can hang — so no code path may run a worker
    # function inline in the parent before a later pool (layfamily._in_pool, crosscorr._pool take care of theirs).
    assert_fork_safe("pool_map")
    ctx = mp.get_context("fork")
    with ctx.Pool(procs) as pool:
        return pool.map(fn, items, chunksize=chunksize)


# --------------------------------------------------------------------------- known findings

def known_findings(prop: str) -> list[dict]:
    if not KNOWN.exists():
        return []
    data = json.loads(KNOWN.read_text())
    return [e for e in data.get("findings", []) if e.get("property") == prop and e.get("status") == "open"]


# --------------------------------------------------------------------------- result object

class Result:
    """Accumulates what a check run saw; turns it into evidence + verdict."""

    def __init__(self, prop: str, tier: str, seed: int):
        self.prop, self.tier, self.seed = prop, tier, seed
        self.t0 = time.time()
        self.evaluations = 0
        self.nontrivial_keys: set = set()
        self.samples: list = []
        self.failures: list = []       # (case, why) — property false on implementation
        self.disagreements: list = []  # (case, why) — model != implementation under projection
        self.known_hits: dict[str, int] = {}
        self.distribution: dict[str, int] = {}
        self.notes: list[str] = []
        self.corr_checked = 0
        self.exhaustive = False
        self.extra: dict = {}

    def count(self, key: str, n: int = 1):
        self.distribution[key] = self.distribution.get(key, 0) + n

    def case(self, case, nontrivial_key=None):
        self.evaluations += 1
        if nontrivial_key is not None:
            self.nontrivial_keys.add(nontrivial_key)
        if len(self.samples) < 3:
            self.samples.append(case)
            self._sample_nt = getattr(self, "_sample_nt", []) + [nontrivial_key is not None]
        elif nontrivial_key is not None and not all(self._sample_nt):
            k = self._sample_nt.index(False)
            self.samples[k] = case
            self._sample_nt[k] = True

    def fail(self, case, why):
        self.failures.append((case, why))

    def disagree(self, case, why):
        self.disagreements.append((case, why))


def _rel(p: Path) -> str:
    try:
        return str(p.relative_to(VERIF))
    except ValueError:
        return str(p)


def write_replay(prop: str, payload: dict) -> Path:
    REPLAYS.mkdir(parents=True, exist_ok=True)
    h = hashlib.sha256(json.dumps(payload, sort_keys=True, default=str).encode()).hexdigest()[:10]
    p = REPLAYS / f"{prop}-{h}.json"
    p.write_text(json.dumps(payload, indent=1, default=str, ensure_ascii=False))
    return p


def finish(res: Result, build: dict, rule: str, trusted: list[str], assumptions: list[str],
           explanation: str = "", known_lines: list[str] | None = None) -> int:
    """Apply the verdict logic of DESIGN.md §5, write evidence, print lines, return exit code."""
    EVIDENCE.mkdir(parents=True, exist_ok=True)
    prop = res.prop
    violations = 0
    lines = []
    if res.failures:
        case, why = res.failures[0]
        payload = dict(property=prop, kind="failing-input", why=why, case=case,
                       seed=res.seed, tier=res.tier, other_failures=len(res.failures) - 1)
        if not build["proof_ok"]:
            # which proof obligation stopped checking on this tree (e.g. the translator tie Props/CNNpy.lean)
            payload["also_broken"] = dict(kind="proof-obligation", log=build["log"][-1500:],
                                          undischarged=[t for t in build["theorems"] if t not in build["discharged"]][:40])
        p = write_replay(prop, payload)
        lines.append(f"VIOLATION property={prop} replay={_rel(p)}")
        violations = len(res.failures)
    elif not build["proof_ok"] or res.disagreements:
        what = []
        if not build["proof_ok"]:
            what.append(dict(kind="proof-obligation", theorems=build["theorems"], bad_axioms=build["bad"],
                             forbidden=build["forbidden"], log=build["log"][-3000:],
                             translate_changed=build.get("translate_changed")))
        if res.disagreements:
            case, why = res.disagreements[0]
            what.append(dict(kind="correspondence", why=why, case=case, count=len(res.disagreements)))
        p = write_replay(prop, dict(property=prop, kind="unchecked", broken=what, seed=res.seed, tier=res.tier,
                                    note="no input on which the property fails was found; the named theorem/"
                                         "correspondence no longer checks, so the property is no longer shown to hold"))
        lines.append(f"VIOLATION property={prop} replay={_rel(p)} no-failing-input-found")
        violations = 1
    for l in known_lines or []:
        print(l)
    for l in lines:
        print(l)
    cov = dict(
        obligations=len(build["theorems"]),
        discharged=len(build["discharged"]),
        checker_cmd=f"cd lean && lake build Props.{prop} && lake env lean .lake/Audit_{prop}.lean   # #print axioms of every theorem",
        trusted_base=trusted,
        evaluations=res.evaluations,
        distinct_nontrivial=len(res.nontrivial_keys),
        rule=rule,
        samples=res.samples[:3] or ["<none>"],
        disagreements_checked=res.corr_checked,
        exhaustive=res.exhaustive,
        explanation=explanation,
        theorems=build["theorems"],
        input_distribution=res.distribution,
        known_findings_reconfirmed=res.known_hits,
        notes=res.notes,
        translator_tie={k: (f"{v.get('func')} translated from source; equality with the model proved in Props/{prop}py*.lean"
                            if v.get("ok") else f"{v.get('func')} is outside the translated subset ({v.get('why')}); "
                            "correspondence only") for k, v in (build.get("py_tie") or {}).items()},
        leanchecker=build.get("leanchecker", "not run (quick tier)"),
    )
    for k, v in (build.get("py_tie") or {}).items():
        if not v.get("ok"):   # loud, but not a verdict: the correspondence check is then the only tie (DESIGN 4.1a)
            msg = (f"translator tie lost: {v.get('func') or k} is outside the translated subset ({v.get('why')}); its "
                   f"bridge theorems in Props/{prop}py*.lean are not obligations on this run — correspondence only")
            print(msg, file=sys.stderr)
            cov["notes"] = list(cov.get("notes") or []) + [msg]
    cov.update(res.extra)
    ev = dict(property_id=prop, tier=res.tier, seed=res.seed, level="proof", coverage=cov,
              assumptions=assumptions, wall_s=round(time.time() - res.t0, 2), violations=violations)
    (EVIDENCE / f"{prop}.json").write_text(json.dumps(ev, indent=1, default=str, ensure_ascii=False))
    return 1 if violations else 0
