"""The zero-width-column class: tables in which a column that is NOT the first displayed one is given a relative width
so small that its absolute width rounds to zero twips (`col_rel_width=[1, 0.0001, 1]`, the usual way of hiding a helper
column).  The cumulative width after such a column rounds to the very twip the previous cell ends on, so a row declares
EQUAL adjacent \\cellx boundaries — which C01 allows ("positive non-decreasing") and the unchanged encoder writes as one
\\cellx per cell ([4500, 4500, 9000]).

`apply` rewrites a generated spec (single-section or multi-section) in place:
  * the body's `col_rel_width` (one entry per frame column; drawn when the spec has none) gets tiny entries on displayed
    columns other than the first displayed one: one column, the last column, a run of two or more adjacent columns,
    every column but the first, a scattered subset;
  * explicit header rows that carry their own `col_rel_width` get tiny entries the same way, at positions
    ≥ 1 + (number of columns page_by / subline_by take out of the table) — so whatever slice of the vector the encoder
    takes, a wide entry stays in front.
The FIRST cell of a row is never made tiny: a first column narrower than half a twip gives \\cellx0 on the unchanged
tree, which is the listed finding C01-cellx0-subtwip-column and is explored by its own stream (props/c01.py).
Rows whose cells inherit the body's widths (default / inherited headers, data rows, page_by spanning rows) follow the body.
"""
from __future__ import annotations

TINY = [1e-4, 1e-4, 1e-5, 1e-6, 1e-7, 1e-9]
BASE = [1, 2, 1.5, 3, 0.7]


def _pick(rng, cand):
    """cand: admissible positions in display order → (pattern label, chosen positions)"""
    pats = ["one", "last"]
    if len(cand) >= 2:
        pats += ["run", "run", "all-but-first", "scattered"]
    pat = rng.choice(pats)
    if pat == "one":
        ch = [rng.choice(cand)]
    elif pat == "last":
        ch = [cand[-1]]
    elif pat == "run":
        ln = rng.randint(2, len(cand))
        s = rng.randint(0, len(cand) - ln)
        ch = cand[s:s + ln]
    elif pat == "all-but-first":
        ch = list(cand)
    else:
        ch = [c for c in cand if rng.random() < 0.5] or [cand[0]]
    return pat, ch


def _names(v):
    if v is None:
        return []
    if isinstance(v, str):
        return [v]
    if isinstance(v, dict) and "__tuple__" in v:
        return list(v["__tuple__"])
    return list(v)


def removed_of(df, body):
    """the columns page_by / subline_by take out of the table (as laygen.gen_spec computes `removed`)"""
    rem = set(_names(body.get("subline_by")))
    pb = _names(body.get("page_by"))
    if pb and (not body.get("new_page") or body.get("pageby_row", "column") != "column"):
        rem |= set(pb)
    return rem & set(df["cols"])


def _section(rng, df, body, removed):
    cols = df["cols"]
    disp = [i for i, c in enumerate(cols) if c not in removed]
    labels = []
    if len(disp) >= 2 and isinstance(body, dict):
        w = body.get("col_rel_width")
        w = list(w) if isinstance(w, list) and len(w) == len(cols) else [rng.choice(BASE) for _ in cols]
        pat, ch = _pick(rng, disp[1:])
        for i in ch:
            w[i] = rng.choice(TINY)
        body["col_rel_width"] = w
        labels.append(f"body:{pat}:{min(len(ch), 3)}{'+' if len(ch) > 3 else ''}of{min(len(disp), 5)}")
        if disp[-1] in ch:
            labels.append("body:last-column-zero")
        if any(a in ch and b in ch for a, b in zip(disp, disp[1:])):
            labels.append("body:adjacent-run")
    return labels


def _flat_headers(hs):
    out = []
    for h in (hs if isinstance(hs, list) else []):
        if isinstance(h, list):
            out += _flat_headers(h)
        elif isinstance(h, dict):
            out.append(h)
    return out


def apply(rng, spec, info):
    """rewrite `spec` in place; `info["zero_width"]` = labels of what was written ([] when no table of the document has
    two displayed columns)"""
    labels = []
    if spec.get("kind") == "figure" or "df" not in spec:
        info["zero_width"] = labels
        return labels
    if isinstance(spec["df"], list):
        bodies = spec.get("body") if isinstance(spec.get("body"), list) else [spec.get("body")] * len(spec["df"])
        hs = spec.get("headers")
        nested = isinstance(hs, list) and any(isinstance(x, list) for x in hs)
        seen = set()
        for s, df in enumerate(spec["df"]):
            body = bodies[s] if s < len(bodies) else None
            if not isinstance(body, dict) or id(body) in seen:
                continue
            seen.add(id(body))
            rem = removed_of(df, body)
            if nested:
                sec_h = _flat_headers(hs[s] if isinstance(hs[s], list) else [hs[s]]) if s < len(hs) else []
            else:
                sec_h = _flat_headers(hs) if s == 0 else []
            # a flat header list serves every section: its positions are guarded by the largest removal
            nrem = len(rem) if nested else max(
                [len(removed_of(d, b)) for d, b in zip(spec["df"], bodies) if isinstance(b, dict)] or [0])
            lab = _section(rng, df, body, rem) + _headers_only(rng, sec_h, nrem)
            labels += [f"s{min(s, 2)}:{x}" for x in lab]
    else:
        body = spec.get("body")
        rem = set(info.get("removed") or []) if "removed" in info else removed_of(spec["df"], body or {})
        rem = rem & set(spec["df"]["cols"])
        labels += _section(rng, spec["df"], body, rem) + _headers_only(rng, _flat_headers(spec.get("headers")), len(rem))
    info["zero_width"] = labels
    return labels


def _headers_only(rng, headers, nrem, p_header=0.7):
    labels = []
    for h in headers:
        if not isinstance(h.get("col_rel_width"), list) or not isinstance(h.get("text"), list):
            continue
        w = list(h["col_rel_width"])
        cand = list(range(1 + nrem, len(w)))
        if not cand or rng.random() >= p_header:
            continue
        pat, ch = _pick(rng, cand)
        for i in ch:
            w[i] = rng.choice(TINY)
        h["col_rel_width"] = w
        labels.append(f"header:{pat}")
    return labels


def count(res, info, prefix):
    z = info.get("zero_width")
    if z is None:
        return
    if not z:
        res.count(f"{prefix}:none (fewer than two displayed columns)")
    for x in sorted(set(z)):
        res.count(f"{prefix}:{x}")
