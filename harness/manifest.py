"""Writes /verif/MANIFEST.json from the table below (kept next to the checks so it stays current)."""
from __future__ import annotations

import json
from pathlib import Path

VERIF = Path(__file__).resolve().parent.parent

COMMON_NOTE = (
    "Trusted: Lean 4.33 kernel (axioms audited per theorem on every run: ⊆ propext, Classical.choice, "
    "Quot.sound; no sorry/native_decide/own axioms), the Lean compiler for the model driver, "
    "harness/translate.py (tables regenerated from /repo each run), harness/pytranslate.py (the functions of its TARGETS table, "
    "translated from their Python source each run) and the correspondence harness. "
)

def load_checks() -> dict[str, dict]:
    """every harness/props/cNN.py that defines MANIFEST = dict(text, note, technique, design) is a claimed check"""
    import importlib
    import sys

    sys.path.insert(0, str(VERIF))
    out = {}
    for f in sorted((VERIF / "harness" / "props").glob("c[0-9]*.py")):
        mod = importlib.import_module(f"harness.props.{f.stem}")
        m = getattr(mod, "MANIFEST", None)
        # a check is claimed only when its theorem file exists
        if m and (VERIF / "lean" / "Props" / f"{f.stem.upper()}.lean").exists():
            out[f.stem.upper()] = m
    return out


NOT_YET = "check not built yet in this revision (planned as Lean proof + correspondence, see DESIGN.md section 7)"


def open_findings():
    p = VERIF / "known_findings.json"
    if not p.exists():
        return []
    return [e["id"] for e in json.loads(p.read_text()).get("findings", []) if e.get("status") == "open"]


def main():
    props = [json.loads(l)["id"] for l in (VERIF / "properties.jsonl").read_text().splitlines() if l.strip()]
    CHECKS = load_checks()
    na_reasons = json.loads((VERIF / 'not_applicable.json').read_text()) if (VERIF / 'not_applicable.json').exists() else {}
    checks = []
    na = []
    for pid in props:
        c = CHECKS.get(pid)
        if c is None:
            na.append(dict(property_id=pid, reason=na_reasons.get(pid, NOT_YET)))
            continue
        text = c["text"]
        enc = sorted(f.stem for f in (VERIF / "lean" / "Props").glob(f"{pid}enc*.lean"))
        if enc and "encoder model" not in text:
            text += (f" The statements are also proved for what the whole-encoder model renders (Props/{', '.join(enc)}.lean; "
                     "the model prints byte for byte what rtf_encode() returns, checked on generated documents by C01 on "
                     "every run).")
        checks.append(dict(
            property_id=pid,
            quick_cmd=f"./check {pid} --tier quick",
            thorough_cmd=f"./check {pid} --tier thorough",
            evidence_file=f"evidence/{pid}.json",
            replay_cmd_template=f"./check {pid} --replay {{path}}",
            engine="lean-model+correspondence",
            level_claimed=dict(category="proof", text=text, design_ref=f"DESIGN.md section {c['design']}"),
            level_note=COMMON_NOTE + c["note"],
            technique=c["technique"],
        ))
    man = dict(
        version=1,
        setup_cmd="./setup.sh",
        hooks=dict(
            guard="RTFLITE_VERIF",
            enable="no source hooks: scheduling and fault injection use sys.settrace from the harness",
            baseline_off_cmd="cd /repo && /venv/bin/python -m pytest -ra -q -p no:cacheprovider --timeout=900 "
                             "--continue-on-collection-errors",
            source_commits=[],
            add_only=True,
        ),
        engines=[dict(name="lean-model+correspondence", path="lean/ + harness/",
                      serves_properties=[c["property_id"] for c in checks],
                      kind_free_text="Lean 4 model and theorems; compiled Mathlib-free driver; Python harness that "
                                     "runs the real rtflite and compares / judges with Lean-defined functions")],
        checks=checks,
        notes="See DESIGN.md (section 0 first). `./check <ID> --tier quick|thorough [--replay FILE]`, exit 0 held / 1 "
              "VIOLATION / 2 machinery error. No source hooks: deterministic thread scheduling and fault injection work "
              "through sys.settrace / sys.setprofile from the harness. Genuine defects of rtflite found by the checks "
              "were repaired by unguarded `fix:` commits in /repo (listed with the failing input in DESIGN.md section 8 "
              "and as `fixed:` lines in known_findings.json); open known findings: " + ", ".join(open_findings()) + ".",
        not_applicable=na,
    )
    (VERIF / "MANIFEST.json").write_text(json.dumps(man, indent=1, ensure_ascii=False) + "\n")


if __name__ == "__main__":
    main()
