"""Deterministic scheduler for REAL threads + recorder of the shared-state events of rtflite (C15).

No source hooks: preemption points are the "call" events `sys.settrace` delivers for code objects
whose file lies under the rtflite package directory (every entry into a library function, method,
property accessor, lambda, comprehension-free: ~800 per small encode).  Exactly one thread holds the
token at any time; all others are parked on a `threading.Event` inside their trace function, i.e.
*before* the library call they were about to make executes.

A schedule is a list of segments `[tid, budget]`: give the token to thread `tid` and let it enter
`budget` more library calls; it is parked at the entry of the next one (`budget = None`: until it
finishes).  A segment naming a finished thread is skipped; when the list is exhausted the unfinished
threads are run to completion in thread order.  Single preemption of A at its k-th call by B:
`[[0, k], [1, None], [0, None]]`.

The recorder wraps (monkeypatches, inside the worker process only)
    ColorService.set_document_context / get_rtf_color_index / clear_document_context
    StrategyRegistry.register / get
and appends `[tid, kind, args, result]` to one global log in the order the accesses were executed
(position of a colour lookup = the moment the thread enters `get_rtf_color_index` after any parking
there, which is where the old code read the shared cell).
"""
from __future__ import annotations

import os
import sys
import threading
import time


class SchedulerTimeout(Exception):
    pass


_tls = threading.local()
_REC = None  # active Recorder or None


def _tid():
    return getattr(_tls, "tid", 0)


class Recorder:
    """global log of shared-state accesses; entry = [tid, kind, args, result, library calls entered by tid so far]"""

    def __init__(self):
        self.log = []
        self.sched = None

    def add(self, entry):
        s = self.sched
        entry.append(s.counts[entry[0]] if s is not None and entry[0] < len(s.counts) else None)
        self.log.append(entry)


_PATCHED = {}


def install_wrappers():
    """idempotent; returns dict of what could be wrapped (names missing after a refactor are reported)"""
    if _PATCHED:
        return _PATCHED
    status = {}
    try:
        from rtflite.services import color_service as cs_mod
        CS = cs_mod.ColorService
        svc = cs_mod.color_service
    except Exception as e:  # noqa: BLE001
        _PATCHED["error"] = f"{type(e).__name__}: {e}"
        return _PATCHED

    def quiet_read_ctx():
        old = getattr(_tls, "quiet", False)
        _tls.quiet = True
        try:
            v = svc._current_document_colors
            return None if v is None else list(v)
        finally:
            _tls.quiet = old

    if hasattr(CS, "set_document_context"):
        o_set = CS.set_document_context

        def set_document_context(self, *a, **k):
            r = o_set(self, *a, **k)
            if _REC is not None:
                _REC.add([_tid(), "set", quiet_read_ctx(), None])
            return r

        CS.set_document_context = set_document_context
        status["set"] = True
    if hasattr(CS, "clear_document_context"):
        o_clear = CS.clear_document_context

        def clear_document_context(self, *a, **k):
            r = o_clear(self, *a, **k)
            if _REC is not None:
                _REC.add([_tid(), "clear", None, None])
            return r

        CS.clear_document_context = clear_document_context
        status["clear"] = True
    if hasattr(CS, "get_rtf_color_index"):
        o_get = CS.get_rtf_color_index
        _PATCHED["lookup_code"] = getattr(o_get, "__code__", None)

        def get_rtf_color_index(self, color, used_colors=None, *a, **k):
            rec = _REC
            if rec is None:
                return o_get(self, color, used_colors, *a, **k)
            entry = [_tid(), "lookup", [color, None if used_colors is None else list(used_colors)], None]
            if sys.gettrace() is None or _PATCHED.get("lookup_code") is None:
                rec.add(entry)
            else:
                _tls.pending = entry          # positioned by the trace function after any parking
            try:
                r = o_get(self, color, used_colors, *a, **k)
            except Exception as e:  # noqa: BLE001
                entry[3] = f"raise {type(e).__name__}"
                raise
            else:
                entry[3] = r
                return r
            finally:
                if getattr(_tls, "pending", None) is entry:   # tracer never saw the call
                    _tls.pending = None
                    rec.add(entry)

        CS.get_rtf_color_index = get_rtf_color_index
        status["lookup"] = True
    try:
        from rtflite.pagination.strategies.registry import StrategyRegistry as SR

        o_reg = SR.register.__func__
        o_sget = SR.get.__func__

        def register(cls, name, strategy_cls):
            r = o_reg(cls, name, strategy_cls)
            if _REC is not None:
                _REC.add([_tid(), "reg", [name, getattr(strategy_cls, "__name__", repr(strategy_cls))], None])
            return r

        def get(cls, name):
            try:
                r = o_sget(cls, name)
            except Exception as e:  # noqa: BLE001
                if _REC is not None:
                    _REC.add([_tid(), "get", [name], f"raise {type(e).__name__}"])
                raise
            if _REC is not None:
                _REC.add([_tid(), "get", [name], getattr(r, "__name__", repr(r))])
            return r

        SR.register = classmethod(register)
        SR.get = classmethod(get)
        status["registry"] = True
    except Exception as e:  # noqa: BLE001
        status["registry"] = f"unavailable: {type(e).__name__}: {e}"
    _PATCHED.update(status)
    return _PATCHED


def pkg_dir() -> str:
    import rtflite

    return os.path.dirname(os.path.abspath(rtflite.__file__)) + os.sep


class Scheduler:
    def __init__(self, nthreads: int, segments, timeout: float = 60.0, pkg: str | None = None):
        self.n = nthreads
        self.segments = [list(s) for s in segments]
        self.timeout = timeout
        self.pkg = pkg or pkg_dir()
        self.seg = -1
        self.left = [None] * nthreads
        self.counts = [0] * nthreads          # library calls entered so far
        self.done = [False] * nthreads
        self.started = [False] * nthreads
        self.ev = [threading.Event() for _ in range(nthreads)]
        self.current = None
        self.parks = []                       # [tid, call number it is parked before, function, file:line]
        self.results = [None] * nthreads
        self.broken = None

    # -- token passing (only ever executed by the thread holding the token, or before start)
    def _advance(self):
        while True:
            self.seg += 1
            if self.seg >= len(self.segments):
                pending = [t for t in range(self.n) if not self.done[t]]
                if not pending:
                    self.current = None
                    return None
                self.segments.append([pending[0], None])
            tid, budget = self.segments[self.seg]
            if tid >= self.n or self.done[tid]:
                continue
            self.left[tid] = budget
            self.current = tid
            return tid

    def _wait(self, tid):
        if not self.ev[tid].wait(self.timeout):
            self.broken = f"thread {tid} waited more than {self.timeout}s for the token"
            raise SchedulerTimeout(self.broken)

    def _on_call(self, tid, frame):
        while self.left[tid] is not None and self.left[tid] <= 0:
            code = frame.f_code
            self.parks.append([tid, self.counts[tid] + 1, code.co_name,
                               code.co_filename[len(self.pkg):] + ":" + str(frame.f_lineno)])
            nxt = self._advance()
            if nxt == tid:
                continue
            self.ev[tid].clear()
            if nxt is not None:
                self.ev[nxt].set()
            self._wait(tid)
        self.counts[tid] += 1
        if self.left[tid] is not None:
            self.left[tid] -= 1

    def _tracer(self, tid):
        pkg = self.pkg
        lookup_code = _PATCHED.get("lookup_code")

        def tracer(frame, event, arg):
            if event == "call" and frame.f_code.co_filename.startswith(pkg) and not getattr(_tls, "quiet", False):
                self._on_call(tid, frame)
                if lookup_code is not None and frame.f_code is lookup_code:
                    p = getattr(_tls, "pending", None)
                    if p is not None and _REC is not None:
                        _tls.pending = None
                        _REC.add(p)
            return None

        return tracer

    def _body(self, tid, fn):
        _tls.tid = tid
        _tls.quiet = False
        _tls.pending = None
        try:
            self._wait(tid)
            self.started[tid] = True
            sys.settrace(self._tracer(tid))
            try:
                self.results[tid] = ("ok", fn())
            except SchedulerTimeout:
                raise
            except BaseException as e:  # noqa: BLE001
                self.results[tid] = ("error", type(e).__name__, str(e)[:300])
            finally:
                sys.settrace(None)
        except SchedulerTimeout as e:
            self.results[tid] = ("timeout", str(e))
            return
        self.done[tid] = True
        nxt = self._advance()
        if nxt is not None:
            self.ev[nxt].set()

    def run(self, fns):
        """fns: one zero-argument callable per thread. Returns list of ('ok', value)|('error', cls, msg)."""
        assert len(fns) == self.n
        threads = [threading.Thread(target=self._body, args=(i, f), daemon=True) for i, f in enumerate(fns)]
        for t in threads:
            t.start()
        first = self._advance()
        if first is not None:
            self.ev[first].set()
        deadline = time.time() + self.timeout + 5
        for t in threads:
            t.join(max(0.1, deadline - time.time()))
        if any(t.is_alive() for t in threads) or self.broken:
            # release everybody so that daemon threads can unwind, then report
            for e in self.ev:
                e.set()
            raise SchedulerTimeout(self.broken or "threads did not finish (deadlock under the schedule?)")
        return self.results


def run_scheduled(fns, segments, timeout=60.0):
    """Run callables as threads under the schedule, recording shared-state events.
    → dict(results, log, counts, parks)"""
    global _REC
    install_wrappers()
    rec = Recorder()
    s = Scheduler(len(fns), segments, timeout)
    rec.sched = s
    old_switch = sys.getswitchinterval()
    _REC = rec
    try:
        results = s.run(fns)
    finally:
        _REC = None
        sys.setswitchinterval(old_switch)
    return dict(results=results, log=rec.log, counts=s.counts, parks=s.parks)
