"""Deterministic scheduler for REAL threads + recorder of the shared-state events of rtflite (C15).

No source hooks: preemption points are the "call" events `sys.settrace` delivers for code objects
whose file lies under the rtflite package directory (every entry into a library function, method,
property accessor, lambda, comprehension-free: ~800 per small encode); on CPython ≥ 3.12 the same
events are taken from `sys.monitoring` (see "observing library calls" below).  Exactly one thread holds the
token at any time; all others are parked on a `threading.Event` inside their trace function, i.e.
*before* the library call they were about to make executes.

A schedule is a list of segments `[tid, budget]`: give the token to thread `tid` and let it enter
`budget` more library calls; it is parked at the entry of the next one (`budget = None`: until it
finishes).  A segment naming a finished thread is skipped; when the list is exhausted the unfinished
threads are run to completion in thread order.  Single preemption of A at its k-th call by B:
`[[0, k], [1, None], [0, None]]`.

The recorder wraps (monkeypatches, inside the worker process only)
    ColorService.set_document_context / get_rtf_color_index / clear_document_context
    StrategyRegistry.register / get
and appends `[tid, kind, args, result]` to one global log in the order the accesses were executed
(position of a colour lookup = the moment the thread enters `get_rtf_color_index` after any parking
there, which is where the old code read the shared cell).
"""
from __future__ import annotations

import os
import sys
import threading
import time


class SchedulerTimeout(Exception):
    pass


_tls = threading.local()
_REC = None  # active Recorder or None


def _tid():
    return getattr(_tls, "tid", 0)


class Recorder:
    """global log of shared-state accesses; entry = [tid, kind, args, result, library calls entered by tid so far,
    [calls entered when the access began, … when it returned]]"""

    def __init__(self):
        self.log = []
        self.sched = None

    def add(self, entry):
        s = self.sched
        entry.append(s.counts[entry[0]] if s is not None and entry[0] < len(s.counts) else None)
        self.log.append(entry)


_PATCHED = {}


def _calls_now():
    """library calls the calling thread has entered so far (None outside a scheduled run)"""
    s = _REC.sched if _REC is not None else None
    t = _tid()
    return s.counts[t] if s is not None and t < len(s.counts) else None


def _extent(entry, c_in):
    """entry[5] = [library calls entered by the thread when the shared access began, … when it returned]: the
    DYNAMIC EXTENT of the access.  The call boundaries inside it are where a thread sits between two steps of one
    logical access (check … act, insert … trim … re-read)"""
    while len(entry) < 5:
        entry.append(None)
    entry.append([c_in, _calls_now()])


def install_wrappers():
    """idempotent; returns dict of what could be wrapped (names missing after a refactor are reported)"""
    if _PATCHED:
        return _PATCHED
    status = {}
    try:
        from rtflite.services import color_service as cs_mod
        CS = cs_mod.ColorService
        svc = cs_mod.color_service
    except Exception as e:  # noqa: BLE001
        _PATCHED["error"] = f"{type(e).__name__}: {e}"
        return _PATCHED

    def quiet_read_ctx():
        old = getattr(_tls, "quiet", False)
        _tls.quiet = True
        try:
            v = svc._current_document_colors
            return None if v is None else list(v)
        finally:
            _tls.quiet = old

    if hasattr(CS, "set_document_context"):
        o_set = CS.set_document_context

        def set_document_context(self, *a, **k):
            c_in = _calls_now()
            r = o_set(self, *a, **k)
            if _REC is not None:
                e = [_tid(), "set", quiet_read_ctx(), None]
                _REC.add(e)
                _extent(e, c_in)
            return r

        CS.set_document_context = set_document_context
        status["set"] = True
    if hasattr(CS, "clear_document_context"):
        o_clear = CS.clear_document_context

        def clear_document_context(self, *a, **k):
            c_in = _calls_now()
            r = o_clear(self, *a, **k)
            if _REC is not None:
                e = [_tid(), "clear", None, None]
                _REC.add(e)
                _extent(e, c_in)
            return r

        CS.clear_document_context = clear_document_context
        status["clear"] = True
    if hasattr(CS, "get_rtf_color_index"):
        o_get = CS.get_rtf_color_index
        _PATCHED["lookup_code"] = getattr(o_get, "__code__", None)

        def get_rtf_color_index(self, color, used_colors=None, *a, **k):
            rec = _REC
            if rec is None:
                return o_get(self, color, used_colors, *a, **k)
            entry = [_tid(), "lookup", [color, None if used_colors is None else list(used_colors)], None]
            c_in = _calls_now()
            if not _observed() or _PATCHED.get("lookup_code") is None:
                rec.add(entry)
            else:
                _tls.pending = entry          # positioned by the trace function after any parking
            try:
                r = o_get(self, color, used_colors, *a, **k)
            except Exception as e:  # noqa: BLE001
                entry[3] = f"raise {type(e).__name__}"
                raise
            else:
                entry[3] = r
                return r
            finally:
                if getattr(_tls, "pending", None) is entry:   # tracer never saw the call
                    _tls.pending = None
                    rec.add(entry)
                _extent(entry, c_in)

        CS.get_rtf_color_index = get_rtf_color_index
        status["lookup"] = True
    try:
        from rtflite.pagination.strategies.registry import StrategyRegistry as SR

        o_reg = SR.register.__func__
        o_sget = SR.get.__func__

        def register(cls, name, strategy_cls):
            c_in = _calls_now()
            r = o_reg(cls, name, strategy_cls)
            if _REC is not None:
                e = [_tid(), "reg", [name, getattr(strategy_cls, "__name__", repr(strategy_cls))], None]
                _REC.add(e)
                _extent(e, c_in)
            return r

        def get(cls, name):
            c_in = _calls_now()
            try:
                r = o_sget(cls, name)
            except Exception as e:  # noqa: BLE001
                if _REC is not None:
                    e2 = [_tid(), "get", [name], f"raise {type(e).__name__}"]
                    _REC.add(e2)
                    _extent(e2, c_in)
                raise
            if _REC is not None:
                e = [_tid(), "get", [name], getattr(r, "__name__", repr(r))]
                _REC.add(e)
                _extent(e, c_in)
            return r

        SR.register = classmethod(register)
        SR.get = classmethod(get)
        status["registry"] = True
    except Exception as e:  # noqa: BLE001
        status["registry"] = f"unavailable: {type(e).__name__}: {e}"
    _PATCHED.update(status)
    return _PATCHED


def pkg_dir() -> str:
    import rtflite

    return os.path.dirname(os.path.abspath(rtflite.__file__)) + os.sep


# ---------------------------------------------------------------- observing library calls
#
# Two interchangeable observers deliver the same events ("a code object of the rtflite package is entered or a
# generator of it is resumed" = the 'call' events of sys.settrace):
#   * mode "settrace": `sys.settrace` in every scheduled thread.  The trace function is called for EVERY Python call
#     of the thread (pydantic, polars wrappers, copy.deepcopy …) and has to filter by file name.
#   * mode "monitoring" (CPython ≥ 3.12): one `sys.monitoring` tool with PY_START / PY_RESUME / PY_THROW — the very
#     events CPython's own settrace emulation turns into 'call'.  Code locations outside the package are switched off
#     on first sight (`DISABLE`), so only library calls cost anything.  Callbacks run in the calling thread; threads
#     that are not (or no longer) scheduled return at once.
# The check runs every baseline document under both on every run (props/c15.py `_baseline_worker`) and confirms that
# they see the same number of switch points and the shared accesses at the same call numbers; if not, or if no
# monitoring tool id is free, everything runs under sys.settrace.  VERIF_SCHED_SETTRACE=1 forces the first mode.

def default_mode() -> str:
    if os.environ.get("VERIF_SCHED_SETTRACE") == "1" or not hasattr(sys, "monitoring"):
        return "settrace"
    return "monitoring"


_MON = dict(tool=None, pkg=None)


def _observed() -> bool:
    return sys.gettrace() is not None or getattr(_tls, "sch", None) is not None


def _mon_event(code, offset, *rest):
    if not code.co_filename.startswith(_MON["pkg"]):
        return None if rest else sys.monitoring.DISABLE       # (PY_THROW cannot be disabled)
    sch = getattr(_tls, "sch", None)
    if sch is None or _tls.quiet:
        return None
    sch._on_call(_tls.tid, code, None)
    if code is _PATCHED.get("lookup_code"):
        p = getattr(_tls, "pending", None)
        if p is not None and _REC is not None:
            _tls.pending = None
            _REC.add(p)
    return None


def _mon_install(pkg):
    if _MON["tool"] is not None:
        return
    mon = sys.monitoring
    for tool in (mon.PROFILER_ID, 3, 4):
        try:
            mon.use_tool_id(tool, "rtfv-sched")
        except ValueError:
            continue
        _MON["tool"] = tool
        break
    else:
        raise RuntimeError("no free sys.monitoring tool id")
    _MON["pkg"] = pkg
    ev = mon.events
    for e in (ev.PY_START, ev.PY_RESUME, ev.PY_THROW):
        mon.register_callback(_MON["tool"], e, _mon_event)


def _mon_events(on: bool):
    mon = sys.monitoring
    ev = mon.events
    mon.set_events(_MON["tool"], (ev.PY_START | ev.PY_RESUME | ev.PY_THROW) if on else 0)


class Scheduler:
    def __init__(self, nthreads: int, segments, timeout: float = 60.0, pkg: str | None = None,
                 lazy_trace: bool = False, mode: str | None = None):
        self.n = nthreads
        self.mode = mode or default_mode()
        if self.mode == "monitoring":
            try:
                _mon_install(pkg or pkg_dir())
            except Exception:  # noqa: BLE001   (all tool ids taken by a debugger / profiler / coverage run)
                self.mode = "settrace"
        self.segments = [list(s) for s in segments]
        # lazy_trace: a thread is traced only as long as the schedule can still park it, i.e. up to the start of its
        # last segment with a finite budget; from then on it holds the token until it finishes, whether it is observed
        # or not, so the trace function is removed (the run is the same interleaving at about half the cost; `counts`
        # then stop at the last park and the shared-access log positions lookups at the wrapper instead of the tracer)
        self.lazy = lazy_trace
        self.last_finite = [-1] * nthreads
        for k, sg in enumerate(self.segments):
            if sg[1] is not None and sg[0] < nthreads:
                self.last_finite[sg[0]] = k
        self.timeout = timeout
        self.pkg = pkg or pkg_dir()
        self.seg = -1
        self.left = [None] * nthreads
        self.counts = [0] * nthreads          # library calls entered so far
        self.done = [False] * nthreads
        self.started = [False] * nthreads
        self.ev = [threading.Event() for _ in range(nthreads)]
        self.current = None
        self.parks = []                       # [tid, call number it is parked before, function, file:line]
        self.results = [None] * nthreads
        self.broken = None

    # -- token passing (only ever executed by the thread holding the token, or before start)
    def _advance(self):
        while True:
            self.seg += 1
            if self.seg >= len(self.segments):
                pending = [t for t in range(self.n) if not self.done[t]]
                if not pending:
                    self.current = None
                    return None
                self.segments.append([pending[0], None])
            tid, budget = self.segments[self.seg]
            if tid >= self.n or self.done[tid]:
                continue
            self.left[tid] = budget
            self.current = tid
            return tid

    def _wait(self, tid):
        if not self.ev[tid].wait(self.timeout):
            self.broken = f"thread {tid} waited more than {self.timeout}s for the token"
            raise SchedulerTimeout(self.broken)

    def _unobserve(self):
        if self.mode == "settrace":
            sys.settrace(None)
        else:
            _tls.sch = None

    def _on_call(self, tid, code, frame):
        while self.left[tid] is not None and self.left[tid] <= 0:
            if frame is None:                 # monitoring: the entered frame is the nearest one running `code`
                frame = sys._getframe(1)
                while frame is not None and frame.f_code is not code:
                    frame = frame.f_back
            line = frame.f_lineno if frame is not None else code.co_firstlineno
            self.parks.append([tid, self.counts[tid] + 1, code.co_name,
                               code.co_filename[len(self.pkg):] + ":" + str(line)])
            nxt = self._advance()
            if nxt == tid:
                continue
            self.ev[tid].clear()
            if nxt is not None:
                self.ev[nxt].set()
            self._wait(tid)
        self.counts[tid] += 1
        if self.left[tid] is not None:
            self.left[tid] -= 1
        elif self.lazy and self.seg >= self.last_finite[tid]:
            self._unobserve()        # nothing can park this thread any more

    def _tracer(self, tid):
        pkg = self.pkg
        lookup_code = _PATCHED.get("lookup_code")

        def tracer(frame, event, arg):
            if event == "call" and frame.f_code.co_filename.startswith(pkg) and not getattr(_tls, "quiet", False):
                self._on_call(tid, frame.f_code, frame)
                if lookup_code is not None and frame.f_code is lookup_code:
                    p = getattr(_tls, "pending", None)
                    if p is not None and _REC is not None:
                        _tls.pending = None
                        _REC.add(p)
            return None

        return tracer

    def _body(self, tid, fn):
        _tls.tid = tid
        _tls.quiet = False
        _tls.pending = None
        _tls.sch = None
        try:
            self._wait(tid)
            self.started[tid] = True
            if not (self.lazy and self.left[tid] is None and self.seg >= self.last_finite[tid]):
                if self.mode == "settrace":
                    sys.settrace(self._tracer(tid))
                else:
                    _tls.sch = self
            try:
                self.results[tid] = ("ok", fn())
            except SchedulerTimeout:
                raise
            except BaseException as e:  # noqa: BLE001
                self.results[tid] = ("error", type(e).__name__, str(e)[:300])
            finally:
                self._unobserve()
        except SchedulerTimeout as e:
            self.results[tid] = ("timeout", str(e))
            return
        self.done[tid] = True
        nxt = self._advance()
        if nxt is not None:
            self.ev[nxt].set()

    def run(self, fns):
        """fns: one zero-argument callable per thread. Returns list of ('ok', value)|('error', cls, msg)."""
        assert len(fns) == self.n
        threads = [threading.Thread(target=self._body, args=(i, f), daemon=True) for i, f in enumerate(fns)]
        if self.mode == "monitoring":
            _mon_events(True)
        try:
            for t in threads:
                t.start()
            first = self._advance()
            if first is not None:
                self.ev[first].set()
            deadline = time.time() + self.timeout + 5
            for t in threads:
                t.join(max(0.1, deadline - time.time()))
        finally:
            if self.mode == "monitoring":
                _mon_events(False)
        if any(t.is_alive() for t in threads) or self.broken:
            # release everybody so that daemon threads can unwind, then report
            for e in self.ev:
                e.set()
            raise SchedulerTimeout(self.broken or "threads did not finish (deadlock under the schedule?)")
        return self.results


def run_scheduled(fns, segments, timeout=60.0, lazy_trace=False, mode=None):
    """Run callables as threads under the schedule, recording shared-state events.
    → dict(results, log, counts, parks).  lazy_trace: see Scheduler (counts are then not the totals)."""
    global _REC
    install_wrappers()
    rec = Recorder()
    s = Scheduler(len(fns), segments, timeout, lazy_trace=lazy_trace, mode=mode)
    rec.sched = s
    old_switch = sys.getswitchinterval()
    _REC = rec
    try:
        results = s.run(fns)
    finally:
        _REC = None
        sys.setswitchinterval(old_switch)
    return dict(results=results, log=rec.log, counts=s.counts, parks=s.parks, mode=s.mode)


# ---------------------------------------------------------------- process-wide cells written by an encode
#
# The wrappers above log the accesses to the shared cells somebody KNEW of (colour context, strategy registry).  A
# shared cell nobody knew of is an ATTRIBUTE of a process-wide object: an instance kept in a module global, in a class
# attribute, in a functools.cache / lru_cache, a class attribute itself, a module global that is rebound.  `StateProbe`
# finds those objects without a list of names — every instance of a class defined in the rtflite package that is alive
# while no document exists (after a warm-up encode, the documents dropped, gc.collect()), plus every module global and
# class attribute of the package — and fingerprints their state (attribute → value for atoms, identity + length for
# containers, entry count for functools caches).  `state_windows` runs one encode alone under sys.settrace and takes
# the fingerprint at every library call boundary (the scheduler's switch points, same numbering): the boundaries at
# which some cell holds a value different from its idle value are the points INSIDE a `set … restore` window (a flag
# switched off and back on in a try/finally, a "current document" attribute set and cleared), the boundaries at which a
# cell changes for good are the two sides of a write to a "last used …" cell.  A thread parked there while another
# document is encoded is the schedule such a cell needs; props/c15.py enumerates them (family "state-window").

_ATOMS = (type(None), bool, int, float, str, bytes, complex)


def _fp(v):
    """cheap comparable fingerprint of one attribute value"""
    if isinstance(v, _ATOMS):
        return v
    if isinstance(v, (tuple, frozenset)) and len(v) <= 8 and all(isinstance(x, _ATOMS) for x in v):
        return ("t",) + tuple(v) if isinstance(v, tuple) else ("f",) + tuple(sorted(map(repr, v)))
    if isinstance(v, (dict, list, set, bytearray)):
        if len(v) <= 6:
            try:
                items = list(v.items()) if isinstance(v, dict) else list(v)
                flat = [x for it in items for x in (it if isinstance(it, tuple) else (it,))]
                if all(isinstance(x, _ATOMS) for x in flat):
                    return ("c", id(v), repr(items))
            except Exception:  # noqa: BLE001
                pass
        return ("c", id(v), len(v))
    ci = getattr(v, "cache_info", None)
    if ci is not None and callable(ci) and hasattr(v, "__wrapped__"):
        try:
            return ("lru", id(v), ci().currsize)
        except Exception:  # noqa: BLE001
            pass
    import enum
    if isinstance(v, enum.Enum):
        return ("e", repr(v))
    return ("o", id(v))


class StateProbe:
    """the process-wide cells of the rtflite package (see above).  Build it while NO document exists."""

    def __init__(self, pkg_name="rtflite"):
        import gc

        self.holders = []            # (label, namespace dict | object, kind)
        seen = set()

        def lib(modname):
            return isinstance(modname, str) and (modname == pkg_name or modname.startswith(pkg_name + "."))

        for mname, mod in sorted(sys.modules.items()):
            if not lib(mname) or mod is None:
                continue
            ns = vars(mod)
            self.holders.append((mname, ns, "module"))
            seen.add(id(ns))
            for k, v in list(ns.items()):
                if isinstance(v, type) and getattr(v, "__module__", None) == mname and id(v) not in seen:
                    seen.add(id(v))
                    self.holders.append((f"{mname}.{k}", v, "class"))
        gc.collect()
        for o in gc.get_objects():
            try:
                t = type(o)
                if isinstance(o, type) or not lib(getattr(t, "__module__", None)):
                    continue
                d = getattr(o, "__dict__", None)
            except Exception:  # noqa: BLE001
                continue
            if isinstance(d, dict) and id(o) not in seen:
                seen.add(id(o))
                self.holders.append((f"{t.__module__}.{t.__name__}#{len(self.holders)}", o, "instance"))
        self.n_instances = sum(1 for h in self.holders if h[2] == "instance")

    def _keys(self):
        """module / class holders: the names bound to DATA (not to functions, classes, modules — those are code);
        a name that appears later shows as a change of the namespace's size"""
        import types

        code = (types.FunctionType, types.BuiltinFunctionType, types.ModuleType, type, staticmethod, classmethod,
                property, types.MethodDescriptorType, types.WrapperDescriptorType, types.MemberDescriptorType,
                types.GetSetDescriptorType)
        out = []
        for _label, h, kind in self.holders:
            if kind == "instance":
                out.append(None)
                continue
            ns = h if kind == "module" else vars(h)
            out.append(tuple(k for k, v in list(ns.items())
                             if not (k.startswith("__") and k.endswith("__"))
                             and (not isinstance(v, code) or hasattr(v, "cache_info"))
                             and not (kind == "module" and getattr(type(v), "__module__", "") == "typing")))
        return out

    def snapshot(self):
        """→ list (one entry per holder) of tuples ((name, fingerprint) …)"""
        if getattr(self, "_k", None) is None:
            self._k = self._keys()
        out = []
        for (_label, h, kind), keys in zip(self.holders, self._k):
            if keys is None:
                try:
                    items = list(vars(h).items())
                except RuntimeError:     # changed size during iteration (another thread): try once more
                    items = list(dict(vars(h)).items())
                out.append(tuple((k, _fp(v)) for k, v in items))
            else:
                ns = h if kind == "module" else vars(h)
                out.append((("<names>", len(ns)),) + tuple((k, _fp(ns.get(k))) for k in keys))
        return out

    def diff(self, a, b):
        """cells (label.attribute) whose fingerprints differ between two snapshots"""
        out = []
        for (label, _h, _k), x, y in zip(self.holders, a, b):
            if x != y:
                dx, dy = dict(x), dict(y)
                out += [f"{label}.{k}" for k in sorted(set(dx) | set(dy), key=str) if dx.get(k, _fp) != dy.get(k, _fp)]
        return out


def state_windows(fn, probe: StateProbe, pkg: str | None = None, short: int = 8, spaced: int = 4):
    """Run `fn` (one encode) alone on a new thread under sys.settrace; fingerprint the process-wide cells at every
    library call boundary.  → dict(calls, points, cells, restored, kept):
      points  sorted budgets k ("the thread has entered k library calls and is parked at the entry of the next one")
              at which a process-wide cell is inside a set … restore window (all the boundaries of a window of ≤ `short`
              boundaries; its first two, last two and `spaced` evenly spaced ones otherwise), or next to a write that
              stays (the boundary before and after it)
      cells   {cell: [budgets]} the same by cell; restored / kept: the cells of the two kinds"""
    pkg = pkg or pkg_dir()
    idle = probe.snapshot()
    trail = []                      # (call number m, cells that differ from idle) for the boundaries where any does
    state = dict(m=0, prev=idle, prev_cells=())

    def tracer(frame, event, arg):
        if event == "call" and frame.f_code.co_filename.startswith(pkg):
            state["m"] += 1
            cur = probe.snapshot()
            if cur != state["prev"]:
                state["prev"] = cur
                state["prev_cells"] = tuple(probe.diff(idle, cur)) if cur != idle else ()
            if state["prev_cells"]:
                trail.append((state["m"], state["prev_cells"]))
        return None

    def body():
        sys.settrace(tracer)
        try:
            fn()
        except Exception:  # noqa: BLE001
            pass
        finally:
            sys.settrace(None)

    t = threading.Thread(target=body)
    t.start()
    t.join(300)
    final = probe.snapshot()
    kept = set(probe.diff(idle, final))
    by_cell = {}
    for m, cells in trail:
        for c in cells:
            by_cell.setdefault(c, []).append(m - 1)          # budget that parks the thread before call m
    points, cells_out = set(), {}
    for c, ks in sorted(by_cell.items()):
        runs, cur = [], [ks[0]]
        for k in ks[1:]:
            if k == cur[-1] + 1:
                cur.append(k)
            else:
                runs.append(cur)
                cur = [k]
        runs.append(cur)
        mine = set()
        for r in runs:
            if c in kept and r is runs[-1]:
                mine.update(k for k in (r[0] - 1, r[0]) if k >= 0)        # the two sides of the write that stays
            elif len(r) <= short:
                mine.update(r)
            else:
                mine.update(r[:2] + r[-2:] + [r[(len(r) * (j + 1)) // (spaced + 1)] for j in range(spaced)])
        cells_out[c] = sorted(mine)
        points |= mine
    return dict(calls=state["m"], points=sorted(points), cells=cells_out,
                restored=sorted(c for c in by_cell if c not in kept), kept=sorted(kept))
