"""A small, strict RTF reader for the subset rtflite emits — the *observation* side of the
document-level checks (the Lean lexer `Model/Rtf.lean` decides C01's well-formedness; this reader
extracts structure: pages, paragraphs, table rows with cell definitions, pictures, tables).

Works on bytes (what `write_rtf` puts on disk).  Raw bytes >= 0x80 and `\\'hh` are decoded with the
ANSI code page (cp1252, the default of `\\ansi` without `\\ansicpg`); `\\uN` is decoded as UTF-16
code unit N (negative values + 65536) and the following `\\uc` fallback characters are skipped.
"""
from __future__ import annotations

from dataclasses import dataclass, field


class RtfError(Exception):
    pass


# ----------------------------------------------------------------------------- lexer

def lex(data: bytes):
    """Token list: ('{',) ('}',) ('cw', name, param|None, delim_space: bool) ('sym', ch)
    ('hex', byte) ('bytes', b'...')."""
    toks = []
    i, n = 0, len(data)
    while i < n:
        c = data[i]
        if c == 0x7B:
            toks.append(("{",)); i += 1
        elif c == 0x7D:
            toks.append(("}",)); i += 1
        elif c == 0x5C:
            i += 1
            if i >= n:
                raise RtfError("backslash at end of input")
            c = data[i]
            if (65 <= c <= 90) or (97 <= c <= 122):
                j = i
                while j < n and ((65 <= data[j] <= 90) or (97 <= data[j] <= 122)):
                    j += 1
                name = data[i:j].decode("ascii")
                param = None
                k = j
                if k < n and (data[k] == 0x2D or 48 <= data[k] <= 57):
                    k2 = k + 1 if data[k] == 0x2D else k
                    k3 = k2
                    while k3 < n and 48 <= data[k3] <= 57:
                        k3 += 1
                    if k3 > k2:
                        param = int(data[k:k3].decode("ascii"))
                        k = k3
                    # a lone '-' is not a parameter
                delim = False
                if k < n and data[k] == 0x20:
                    delim = True
                    k += 1
                toks.append(("cw", name, param, delim))
                i = k
            elif c == 0x27:
                if i + 2 >= n:
                    raise RtfError("truncated \\'hh")
                hh = data[i + 1:i + 3]
                try:
                    toks.append(("hex", int(hh.decode("ascii"), 16)))
                except ValueError:
                    raise RtfError(f"bad \\'hh: {hh!r}")
                i += 3
            elif c in (0x0A, 0x0D):
                toks.append(("cw", "par", None, False)); i += 1
            else:
                toks.append(("sym", chr(c))); i += 1
        elif c in (0x0A, 0x0D):
            i += 1
        else:
            j = i
            while j < n and data[j] not in (0x7B, 0x7D, 0x5C, 0x0A, 0x0D):
                j += 1
            toks.append(("bytes", data[i:j]))
            i = j
    return toks


CHARSET_CODEC = {0: "cp1252", 1: "cp1252", 161: "cp1253", 162: "cp1254", 177: "cp1255", 178: "cp1256",
                 186: "cp1257", 204: "cp1251", 238: "cp1250", 222: "cp874"}


def decode_ansi(b: bytes, charset: int | None = None) -> str:
    """bytes written raw or as \\'hh: decoded in the code page of the current font's \\fcharset (cp1252 for
    charset 0/1 and when unknown); \\fcharset2 (Symbol) maps bytes >= 0x80 to the private-use block"""
    codec = CHARSET_CODEC.get(charset if charset is not None else 0, "cp1252")
    out = []
    for x in b:
        if x < 0x80:
            out.append(chr(x))
        elif charset == 2:
            out.append(chr(0xF000 + x))
        else:
            try:
                out.append(bytes([x]).decode(codec))
            except UnicodeDecodeError:
                out.append(chr(x))
    return "".join(out)


# ----------------------------------------------------------------------------- structure

CHAR_TOGGLES = ("b", "i", "ul", "strike", "super", "sub")


@dataclass
class Run:
    text: str
    props: dict


@dataclass
class Para:
    props: dict
    runs: list
    kind: str = "para"
    in_group: bool = False

    @property
    def text(self):
        return "".join(r.text for r in self.runs)


@dataclass
class CellDef:
    borders: dict  # side -> dict(style, width, color) ; side in l t r b
    valign: str | None
    cellx: int
    order: list = field(default_factory=list)


@dataclass
class Row:
    props: dict
    defs: list
    cells: list  # list[Para]
    kind: str = "row"


@dataclass
class Pict:
    blip: str | None
    props: dict
    data: bytes
    para_props: dict
    kind: str = "pict"


@dataclass
class Page:
    geometry: dict
    blocks: list


@dataclass
class Doc:
    signature_ok: bool
    fonts: dict        # number -> dict(name, family, charset)
    colors: list       # list of (r,g,b) or None for the auto entry; index = position
    has_colortbl: bool
    headers: list      # list[list[Para]]
    footers: list
    start_geometry: dict
    pages: list        # list[Page]
    deff: int | None
    trailing: bytes


GEOM = ("paperw", "paperh", "margl", "margr", "margt", "margb", "headery", "footery")
BORDER_STYLES = {
    "brdrs", "brdrdb", "brdrth", "brdrdot", "brdrdash", "brdrdashsm", "brdrdashd", "brdrdashdd",
    "brdrtriple", "brdrwavy", "brdrwavydb", "brdrengrave", "brdremboss", "brdrframe",
}
PARA_WORDS = ("sb", "sa", "fi", "li", "ri", "sl", "slmult")
JUST = {"ql": "l", "qc": "c", "qr": "r", "qj": "j", "qd": "d"}
ROWJUST = {"trql": "l", "trqc": "c", "trqr": "r"}
VALIGN = {"clvertalt": "top", "clvertalc": "center", "clvertalb": "bottom"}
BLIPS = {"pngblip": "png", "jpegblip": "jpeg", "emfblip": "emf"}


class _Reader:
    def __init__(self, data: bytes):
        self.toks = lex(data)
        self.pos = 0
        self.doc = Doc(False, {}, [], False, [], [], {}, [], None, b"")

    # -- helpers
    def peek(self):
        return self.toks[self.pos] if self.pos < len(self.toks) else None

    def next(self):
        t = self.toks[self.pos]
        self.pos += 1
        return t

    def skip_group(self):
        """positioned just after '{' — skip to matching '}'"""
        depth = 1
        while depth:
            if self.pos >= len(self.toks):
                raise RtfError("unbalanced group")
            t = self.next()
            if t[0] == "{":
                depth += 1
            elif t[0] == "}":
                depth -= 1

    def group_tokens(self):
        """positioned just after '{' — return tokens up to the matching '}' (exclusive)"""
        start = self.pos
        self.skip_group()
        return self.toks[start:self.pos - 1]

    # -- top level
    def read(self) -> Doc:
        toks = self.toks
        if not toks or toks[0] != ("{",):
            raise RtfError("does not start with a group")
        if len(toks) < 2 or toks[1][0] != "cw" or toks[1][1] != "rtf" or toks[1][2] != 1:
            raise RtfError("missing \\rtf1 signature")
        self.doc.signature_ok = True
        self.pos = 2
        body = _Body(self)
        body.run()
        return self.doc


class _Body:
    """Interprets the content of the top-level group."""

    def __init__(self, rd: _Reader):
        self.rd = rd
        self.doc = rd.doc
        self.page = Page({}, [])
        self.doc.pages.append(self.page)
        self.geom_target = self.doc.start_geometry
        self.reset_para()
        self.char = {}
        self.stack = []
        self.uc = 1
        self.skip = 0
        self.runs = []
        self.row = None        # Row being defined / filled
        self.cur_def = None    # dict for the cell definition being built
        self.cur_border = None
        self.seen_content = False

    def reset_para(self):
        self.para = {}

    def cur_charset(self):
        f = self.char.get("f", self.doc.deff if self.doc.deff is not None else 0)
        return (self.doc.fonts.get(f) or {}).get("charset")

    def add_text(self, s: str):
        if self.skip:
            k = min(self.skip, len(s))
            s = s[k:]
            self.skip -= k
        if s:
            self.runs.append(Run(s, dict(self.char)))

    def end_para(self, kind="para"):
        p = Para(dict(self.para), self.runs, kind, in_group=bool(self.stack))
        self.runs = []
        return p

    def run(self):
        rd = self.rd
        depth = 0
        while True:
            if rd.pos >= len(rd.toks):
                raise RtfError("unbalanced: end of input inside top-level group")
            t = rd.next()
            k = t[0]
            if k == "{":
                nxt = rd.peek()
                # destinations
                if nxt and nxt[0] == "cw" and nxt[1] in ("fonttbl", "colortbl", "header", "footer", "pict",
                                                           "field", "info", "stylesheet"):
                    name = nxt[1]
                    rd.next()
                    toks = rd.group_tokens()
                    getattr(self, "dest_" + name)(toks)
                    continue
                if nxt and nxt[0] == "sym" and nxt[1] == "*":
                    rd.skip_group()
                    continue
                self.stack.append((dict(self.char), self.uc))
                depth += 1
            elif k == "}":
                if depth == 0:
                    # end of document
                    self.flush_trailing()
                    rest = rd.toks[rd.pos:]
                    if rest:
                        raise RtfError("content after the closing brace of the document")
                    return
                self.char, self.uc = self.stack.pop()
                depth -= 1
            elif k == "bytes":
                self.add_text(decode_ansi(t[1], self.cur_charset()))
            elif k == "hex":
                self.add_text(decode_ansi(bytes([t[1]]), self.cur_charset()))
            elif k == "sym":
                ch = t[1]
                if ch in "\\{}":
                    self.add_text(ch)
                elif ch == "~":
                    self.add_text(" ")
                elif ch in "-_":
                    self.add_text({"-": "­", "_": "‑"}[ch])
                elif ch == "*":
                    pass
                else:
                    raise RtfError(f"unknown control symbol \\{ch}")
            else:
                self.control(t[1], t[2])

    def flush_trailing(self):
        if self.runs and any(r.text.strip() for r in self.runs):
            self.page.blocks.append(self.end_para("loose"))

    # -- destinations
    def dest_fonttbl(self, toks):
        cur = None
        depth = 0
        name = []
        for t in toks:
            if t[0] == "{":
                depth += 1
                cur = {}
                name = []
            elif t[0] == "}":
                depth -= 1
                if cur is not None and "f" in cur:
                    cur["name"] = "".join(name).rstrip(";").strip()
                    self.doc.fonts[cur["f"]] = cur
                cur = None
            elif t[0] == "cw" and cur is not None:
                if t[1] == "f":
                    cur["f"] = t[2]
                elif t[1] == "fcharset":
                    cur["charset"] = t[2]
                elif t[1] == "fprq":
                    cur["prq"] = t[2]
                else:
                    cur.setdefault("family", t[1])
            elif t[0] == "bytes" and cur is not None:
                name.append(decode_ansi(t[1]))

    def dest_colortbl(self, toks):
        self.doc.has_colortbl = True
        cur = {}
        for t in toks:
            if t[0] == "cw" and t[1] in ("red", "green", "blue"):
                cur[t[1]] = t[2]
            elif t[0] == "bytes":
                for ch in t[1].decode("latin-1"):
                    if ch == ";":
                        if cur:
                            self.doc.colors.append((cur.get("red", 0), cur.get("green", 0), cur.get("blue", 0)))
                        else:
                            self.doc.colors.append(None)
                        cur = {}
                    elif ch.strip():
                        raise RtfError(f"unexpected text in colour table: {ch!r}")

    def _sub_paras(self, toks):
        sub = _Reader(b"")
        sub.toks = toks + [("}",)]
        sub.pos = 0
        b = _Body(sub)
        b.run()
        return sub.doc.pages[0].blocks

    def dest_header(self, toks):
        self.doc.headers.append(self._sub_paras(toks))

    def dest_footer(self, toks):
        self.doc.footers.append(self._sub_paras(toks))

    def dest_field(self, toks):
        # render a field as a placeholder text so that surrounding text stays observable
        inst = "".join(decode_ansi(t[1]) for t in toks if t[0] == "bytes").strip()
        self.add_text("⟦" + inst + "⟧")

    def dest_info(self, toks):
        pass

    def dest_stylesheet(self, toks):
        pass

    def dest_pict(self, toks):
        blip = None
        props = {}
        hexs = []
        for t in toks:
            if t[0] == "cw":
                if t[1] in BLIPS:
                    blip = BLIPS[t[1]]
                else:
                    props[t[1]] = t[2]
            elif t[0] == "bytes":
                hexs.append(t[1])
            elif t[0] in ("{", "}"):
                raise RtfError("nested group inside \\pict")
        hx = b"".join(hexs).replace(b" ", b"")
        try:
            data = bytes.fromhex(hx.decode("ascii"))
        except ValueError:
            raise RtfError("picture payload is not hexadecimal")
        self.page.blocks.append(Pict(blip, props, data, dict(self.para)))

    # -- control words
    def control(self, name, param):
        if self.skip and name not in ("u",):
            # a control word counts as one fallback "character"
            self.skip -= 1
            return
        if name == "u":
            if param is None:
                raise RtfError("\\u without parameter")
            if not (-32768 <= param <= 32767):
                raise RtfError(f"\\u parameter out of range: {param}")
            cu = param + 65536 if param < 0 else param
            self.skip = 0
            self.runs.append(Run(_CU(cu), dict(self.char)))
            self.skip = self.uc
            return
        if name == "uc":
            self.uc = param if param is not None else 1
            return
        if name in GEOM:
            self.geom_target[name] = param
            return
        if name == "landscape":
            self.geom_target["landscape"] = True
            return
        if name in ("deff",):
            self.doc.deff = param
            return
        if name in ("ansi", "deflang", "ansicpg", "widowctrl", "intbl", "viewkind", "plain"):
            return
        if name == "page":
            self.flush_trailing()
            self.page = Page({}, [])
            self.doc.pages.append(self.page)
            self.geom_target = self.page.geometry
            return
        if name == "pard":
            self.para = {}
            return
        if name == "par":
            if self.row is not None and self.row.get("open"):
                # paragraph break inside a cell: keep as newline
                self.runs.append(Run("\n", dict(self.char)))
                return
            self.page.blocks.append(self.end_para())
            return
        if name == "line":
            self.runs.append(Run("\n", dict(self.char)))
            return
        if name == "tab":
            self.runs.append(Run("\t", dict(self.char)))
            return
        if name in ("chpgn",):
            self.runs.append(Run("⟦PAGE⟧", dict(self.char)))
            return
        if name in JUST:
            self.para["just"] = JUST[name]
            return
        if name in PARA_WORDS:
            self.para[name] = param
            return
        if name == "hyphpar":
            self.para["hyphpar"] = 1 if param is None else param
            return
        # character properties
        if name == "f":
            self.char["f"] = param; return
        if name == "fs":
            self.char["fs"] = param; return
        if name in ("cf", "cb", "chcbpat", "chshdng", "highlight"):
            self.char[name] = param; return
        if name in CHAR_TOGGLES:
            if param == 0:
                self.char.pop(name, None)
            else:
                self.char[name] = True
            return
        if name == "nosupersub":
            self.char.pop("super", None); self.char.pop("sub", None); return
        # table
        if name == "trowd":
            self.row = dict(props={}, defs=[], cells=[], open=True)
            self.cur_def = dict(borders={}, valign=None, order=[])
            self.cur_border = None
            return
        if self.row is not None:
            if name in ("trgaph", "trleft", "trrh"):
                self.row["props"][name] = param; return
            if name in ROWJUST:
                self.row["props"]["just"] = ROWJUST[name]; return
            if name in ("clbrdrl", "clbrdrt", "clbrdrr", "clbrdrb"):
                side = name[-1]
                self.cur_border = dict(style=None, width=None, color=None)
                self.cur_def["borders"][side] = self.cur_border
                self.cur_def["order"].append(side)
                return
            if name in BORDER_STYLES:
                if self.cur_border is None:
                    raise RtfError(f"\\{name} outside a border")
                self.cur_border["style"] = name; return
            if name == "brdrw":
                if self.cur_border is None:
                    raise RtfError("\\brdrw outside a border")
                self.cur_border["width"] = param; return
            if name == "brdrcf":
                if self.cur_border is None:
                    raise RtfError("\\brdrcf outside a border")
                self.cur_border["color"] = param; return
            if name in VALIGN:
                self.cur_def["valign"] = VALIGN[name]; return
            if name in ("clvmgf", "clvmrg"):
                self.cur_def["merge"] = name; return
            if name == "clcbpat":
                self.cur_def["clcbpat"] = param; return
            if name == "cellx":
                self.row["defs"].append(CellDef(self.cur_def["borders"], self.cur_def["valign"], param,
                                                self.cur_def["order"]))
                self.cur_def = dict(borders={}, valign=None, order=[])
                self.cur_border = None
                return
            if name == "cell":
                self.row["cells"].append(self.end_para("cell"))
                return
            if name == "row":
                self.page.blocks.append(Row(self.row["props"], self.row["defs"], self.row["cells"]))
                self.row = None
                return
        if name in ("cell", "row", "cellx"):
            raise RtfError(f"\\{name} outside a table row")
        # unknown control word: record, do not fail (lexical validity is C01's business)
        self.para.setdefault("_unknown", []).append((name, param))


def _CU(cu: int) -> str:
    return chr(cu)


def fix_surrogates(s: str) -> str:
    """combine UTF-16 surrogate pairs produced by consecutive \\u escapes"""
    try:
        return s.encode("utf-16", "surrogatepass").decode("utf-16")
    except UnicodeDecodeError:
        return s


def read(data) -> Doc:
    if isinstance(data, str):
        data = data.encode("utf-8")
    doc = _Reader(data).read()
    return doc


def para_text(p: Para) -> str:
    return fix_surrogates(p.text)
