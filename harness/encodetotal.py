"""C01, first clause — the tie of `Props/C01total.lean` (totality of the encoder model) to the real constructors.

`Model/EncodeAccepted.lean` defines three decidable predicates on the post-construction state of a document:
`accepted` (what the constructors / validators guarantee), `shapesInQuantifier` (the attribute shapes C01 quantifies
over) and `measureOk` (the pagination's width requests are answered).  `C01_encode_total` proves

    accepted ∧ shapesInQuantifier ∧ measureOk  ⇒  the encoder model returns a document,
                                                  or raises ValueError and the group_by keys are not contiguous.

The driver op `encode_total` evaluates the predicates, the decidable contiguity test and the model on one state.
This module checks, on every run:

1. **`accepted` is not narrower than the constructors** — every generated document the REAL constructors accepted
   (the documents of the byte-exact encoder correspondence, `encodecorr.run`) has `accepted = true`
   (otherwise `res.disagree`: the theorem would speak about fewer documents than rtflite accepts);
2. **the theorem transported to the real encoder** — on those documents: `rtf_encode()` raised ⇒ one of the hypotheses
   is false or the keys are not contiguous (otherwise `res.fail`: an accepted configuration inside the quantifier on
   which the real encoder raises — C01's first clause fails on this very input); the statement itself (`holds`) is
   re-evaluated by the compiled model; `measureOk` holds of the widths the real pagination measured whenever the real
   encoder returned;
3. **`accepted` is not wider than the constructors** — a stream of documents with ONE invalid attribute value each
   (every validator of `input.py` / `attributes.py` / `encode.py` whose violation is representable in the model's
   `Doc`): the real constructor must raise and `accepted` of the state carrying that value must be `false`
   (a value the constructor accepts after all is checked the other way round: `accepted` of the real state).
"""
from __future__ import annotations

import contextlib
import copy
import io

from . import common, docgen, encodecorr

# ----------------------------------------------------------------------------- 1 + 2: documents the constructors accept


def _model_silent(o) -> bool:
    """the real encoder raised an exception of a class the encoder model never raises (the model mirrors every
    exception of the unchanged encoder: the Python classes of `encodecorr._PYERR`) while the model, short of widths the
    aborted pagination never measured, could only answer `model:…` — no modelled refusal explains the exception"""
    return (o.get("verdict") == "error-kind" and str((o.get("model") or {}).get("error", "")).startswith("model:")
            and o.get("exc") not in encodecorr._PYERR)


def check_accepted(res, outs):
    """`outs` = outcomes of `encodecorr.run` (each constructed document carries `req` = state + measured widths)"""
    live = [o for o in outs if "req" in o]
    reqs = [dict(op="encode_total", doc=o["req"]["doc"], widths=o["req"]["widths"]) for o in live]
    drv = encodecorr.model_batch(reqs)
    for o, t in zip(live, drv):
        case = dict(level="encode-total", spec=o["spec"], info={k: v for k, v in o["info"].items() if k != "expect"})
        if "accepted" not in t:
            raise common.MachineryError(f"encode_total: {t}")
        res.corr_checked += 1
        hyp = t["accepted"] and t["shapes"] and t["measure_ok"]
        if not t["accepted"]:
            res.count("total:constructed-but-not-accepted")
            res.disagree(case, "the real constructors accept this document, the predicate `accepted` of "
                               "Model/EncodeAccepted.lean does not: the totality theorem covers fewer documents than "
                               "rtflite accepts")
            continue
        if not t["holds"]:
            res.disagree(case, f"the compiled encoder model violates the statement of C01_encode_total: {t}")
            continue
        res.count("total:accepted")
        if not t["shapes"]:
            res.count("total:outside-quantifier:" + (o.get("exc") or "encodes"))
        elif o["status"] == "ok":
            res.count("total:in-quantifier:encodes")
            if not t["measure_ok"]:
                res.disagree(case, "the model asks for a string width the real pagination did not measure "
                                   f"({t['requests']} requests)")
        elif not t["contiguous"]:
            res.count("total:in-quantifier:refused-noncontiguous")
            if o.get("exc") != "ValueError":
                res.fail(case, f"non-contiguous group_by keys must be refused with ValueError, rtf_encode() raises "
                               f"{o.get('exc')}: {o.get('msg', '')[:200]}")
        elif hyp:
            # accepted, inside the quantifier, every width measured, keys contiguous — and the real encoder raises
            res.count("total:in-quantifier:RAISES")
            if o.get("verdict") not in ("real-error", "error-kind"):      # those are reported by encodecorr already
                res.fail(case, f"rtf_encode() raises {o.get('exc')}: {o.get('msg', '')[:300]} on a configuration that "
                               "is accepted at construction and inside C01's quantifier (accepted, shapesInQuantifier, "
                               "contiguous keys all hold): the first clause of C01 fails on this input")
        else:
            # the real encoder raised before the pagination had measured every width; the model does not raise on the
            # complete table (else `holds` would have told) — nothing to conclude from the partial table
            res.count("total:in-quantifier:raised-before-measuring")
            if o.get("verdict") not in ("real-error", "error-kind", "both-error") or _model_silent(o):
                res.fail(case, f"rtf_encode() raises {o.get('exc')}: {o.get('msg', '')[:300]} on an accepted "
                               "configuration inside C01's quantifier (accepted, shapesInQuantifier, contiguous keys "
                               "hold; the encoder raised before the pagination had measured every width, so the model "
                               "has no document to compare): the first clause of C01 fails on this input")
    return len(live)


# ----------------------------------------------------------------------------- 3: one invalid value each

BASE = dict(
    kind="table",
    df=dict(cols=["g", "a", "b"], rows=[["A", "x", "1"], ["A", "y", "2"], ["B", "z", "3"]]),
    page={}, title=dict(text="T"), subline=dict(text="S"), page_header={}, page_footer=dict(text="F"),
    headers=[dict(text=["G", "A", "B"])], body={}, footnote=dict(text="fn"), source=dict(text="src"))

TEXT_INVALID = {
    "text_font": [0, 11, -3, "abc"],
    "text_format": ["x", "bq"],
    "text_font_size": [0, -2.5],
    "text_color": ["notacolor"],
    "text_background_color": ["nocolor1"],
    "text_justification": ["x", "left"],
    "text_indent_first": ["abc"],
    "text_indent_left": ["abc"],
    "text_space_before": ["abc"],
    "text_hyphenation": ["maybe", 2],
    "text_convert": ["maybe", 2],
}
TABLE_INVALID = dict(TEXT_INVALID, **{
    "border_left": ["zigzag", None], "border_right": ["zigzag"], "border_top": ["zz"], "border_bottom": ["zz", None],
    "border_first": ["zz"], "border_last": ["zz"],
    "border_color_left": ["nocolor", None], "border_color_top": ["nocolor"], "border_color_last": ["nocolor"],
    "border_width": [0, -5, None], "cell_height": [0, -0.5, None], "cell_nrow": [0, None],
    "cell_justification": ["j", "x", None], "cell_vertical_justification": ["middle", None],
})
# RTFBody fills border_* / cell_vertical_justification / text_justification with defaults when they are falsy
BODY_REFILLED = {"border_left", "border_right", "border_top", "border_bottom", "border_first", "border_last",
                 "cell_vertical_justification", "text_justification"}
TEXT_COMPS = {"title": "title", "subline": "subline", "page_header": "page_header", "page_footer": "page_footer"}
TABLE_COMPS = {"body": "body", "footnote": "footnote", "source": "source", "header": "headers"}


def _cases():
    cs = []
    for comp in TEXT_COMPS:
        for a, vals in TEXT_INVALID.items():
            for v in vals:
                cs.append(("attr", comp, a, v))
    for comp in TABLE_COMPS:
        for a, vals in TABLE_INVALID.items():
            for v in vals:
                if comp == "body" and v is None and a in BODY_REFILLED:
                    continue
                cs.append(("attr", comp, a, v))
        for w in ([0, 1, 1], [-1, 1, 1]):
            cs.append(("widths", comp, "col_rel_width", w))
    for f, v in (("width", 0), ("width", -1), ("height", 0), ("height", -3.5), ("nrow", 0), ("col_width", 0),
                 ("col_width", -1.5), ("margin", [1, 1, 1]), ("margin", [1] * 7), ("border_first", "zigzag"),
                 ("border_last", "zz"), ("width", 2.25), ("width", 1.0)):
        cs.append(("page", "page", f, v))
    cs.append(("page-landscape", "page", "width", 2.5))
    for f in ("group_by", "page_by", "subline_by"):
        cs.append(("names", "body", f, ["nope"]))
    cs.append(("newpage", "body", "new_page", True))
    cs.append(("overlap", "body", "group_by", dict(group_by=["g"], page_by=["g"])))
    cs.append(("overlap", "body", "group_by", dict(group_by=["g"], subline_by=["g"])))
    return cs


def _set_spec(spec, kind, comp, a, v):
    if kind == "attr" or kind == "widths":
        if comp == "header":
            spec["headers"][0][a] = v
        else:
            spec[comp][a] = v
    elif kind == "page":
        spec["page"][a] = v
    elif kind == "page-landscape":
        spec["page"]["orientation"] = "landscape"
        spec["page"][a] = v
    elif kind == "names":
        spec["body"][a] = v
    elif kind == "newpage":
        spec["body"]["new_page"] = True
    elif kind == "overlap":
        spec["body"].update(v)


def _inject(state, kind, comp, a, v):
    """the post-construction state that would hold the value (None when the model's `Doc` cannot represent it)"""
    from fractions import Fraction

    def rat(x):
        return encodecorr.rat(x)

    if kind == "attr":
        tgt = state["headers"][0] if comp == "header" else state[comp]
        if comp in TEXT_COMPS:
            tgt["attrs"][a] = None if v is None else {"t": [encodecorr.ser_val(v)]}
        else:
            tgt["attrs"][a] = None if v is None else [[encodecorr.ser_val(v)]]
    elif kind == "widths":
        tgt = state["headers"][0] if comp == "header" else state[comp]
        tgt["col_rel_width"] = [rat(x) for x in v]
    elif kind in ("page", "page-landscape"):
        pg = state["page"]
        if kind == "page-landscape":
            pg["landscape"] = True
        if a == "margin":
            pg["margin"] = [rat(x) for x in v]
        elif a == "nrow":
            if v < 0:
                return None
            pg["nrow"] = v
        elif a in ("border_first", "border_last"):
            pg[a] = v
        else:
            if a == "width" and v > 0:
                # the derived default col_width = width - 2.25 (portrait) / 2.5 (landscape), as `_set_default` computes it
                pg["col_width"] = rat(float(v) - (2.5 if kind == "page-landscape" else 2.25))
            pg[a] = rat(v)
    elif kind == "names":
        state["body"][a] = [encodecorr.cps(x) for x in v]
    elif kind == "newpage":
        state["body"]["new_page"] = True
        state["body"]["page_by"] = None
    elif kind == "overlap":
        for k2, v2 in v.items():
            state["body"][k2] = [encodecorr.cps(x) for x in v2]
    return state


def _neg_worker(case):
    kind, comp, a, v = case
    try:
        with contextlib.redirect_stdout(io.StringIO()):
            base = docgen.build(copy.deepcopy(BASE))
            state = encodecorr.serialize(base)
        spec = copy.deepcopy(BASE)
        _set_spec(spec, kind, comp, a, v)
        try:
            with contextlib.redirect_stdout(io.StringIO()):
                doc = docgen.build(spec)
            raised = None
        except Exception as e:  # noqa: BLE001
            raised = docgen.classify_exc(e) + ": " + str(e)[:120]
        if raised is None:
            # the constructor accepts the value after all: the real state must be accepted
            try:
                real_state = encodecorr.serialize(doc)
            except TypeError:
                real_state = None
            return dict(case=[kind, comp, a, v], raised=None, state=real_state)
        return dict(case=[kind, comp, a, v], raised=raised, state=_inject(copy.deepcopy(state), kind, comp, a, v))
    except Exception:  # noqa: BLE001
        import traceback

        return dict(machinery=traceback.format_exc()[-1500:])


def check_rejected(res):
    outs = common.pool_map(_neg_worker, _cases(), chunksize=8)
    for o in outs:
        if "machinery" in o:
            raise common.MachineryError("encodetotal worker failed: " + o["machinery"])
    live = [o for o in outs if o["state"] is not None]
    drv = encodecorr.model_batch([dict(op="encode_total", doc=o["state"], widths=[]) for o in live])
    for o, t in zip(live, drv):
        case = dict(level="encode-total-invalid", case=o["case"])
        if "accepted" not in t:
            raise common.MachineryError(f"encode_total: {t}")
        res.corr_checked += 1
        if o["raised"] is not None:
            res.count("total:invalid-value:constructor-raises")
            if t["accepted"]:
                res.disagree(case, f"the real constructor refuses this value ({o['raised']}), the predicate `accepted` "
                                   "of Model/EncodeAccepted.lean admits the state that holds it: `accepted` promises "
                                   "more than the constructors guarantee")
        else:
            res.count("total:invalid-value:constructor-accepts")
            if not t["accepted"]:
                res.disagree(case, "the real constructor accepts this value, `accepted` does not")
    res.count("total:invalid-value:not-representable", len(outs) - len(live))
    return len(live)


# ----------------------------------------------------------------------------- 4: outside the quantifier

# configurations the constructors ACCEPT and `shapesInQuantifier` excludes (one per clause and variant; the Python
# reproductions quoted in Model/EncodeAccepted.lean and the witnesses `C01total_outside_*` of Props/C01total.lean)
OUTSIDE = [
    ("empty-list", "title", dict(text_font=[])),
    ("empty-list", "title", dict(text_justification=[])),
    ("empty-list", "body", dict(text_font=[])),
    ("empty-list", "body", dict(text_format=[])),
    ("empty-list", "body", dict(text_font=[[]])),
    ("empty-list", "header", dict(border_left=[])),
    ("ragged", "body", dict(text_font=[[1, 2, 1], [1]])),
    ("none-required", "body", dict(text_font=None)),
    ("none-required", "body", dict(text_font_size=None)),
    ("none-required", "body", dict(text_indent_first=None)),
    ("none-required", "body", dict(text_space=None)),
    ("none-required", "body", dict(text_convert=None)),
    ("none-required", "body", dict(text_hyphenation=None)),
    ("none-required", "title", dict(text_justification=None)),
    ("none-required", "title", dict(text_font=None)),
    ("none-required", "header", dict(text_justification=None)),
    ("foot-width", "footnote", dict(col_rel_width=None)),
    ("foot-width", "source", dict(as_table=True, col_rel_width=None)),
    ("no-columns", "body", dict(page_by=["g", "a", "b"])),
    ("no-columns", "df", dict(cols=[], rows=[])),
    ("empty-header", "header", dict(text=[])),
    ("short-widths", "body", dict(col_rel_width=[1, 1])),
    ("short-widths", "header", dict(text=["G", "A", "B", "C"])),
]


def _outside_worker(case):
    cls, comp, kw = case
    try:
        spec = copy.deepcopy(BASE)
        (spec["headers"][0] if comp == "header" else spec[comp]).update(kw)
        if comp == "df":
            spec["headers"] = "default"
        try:
            with contextlib.redirect_stdout(io.StringIO()):
                doc = docgen.build(spec)
        except Exception as e:  # noqa: BLE001
            return dict(case=[cls, comp, kw], construct=docgen.classify_exc(e) + ": " + str(e)[:120])
        try:
            state, widths, real = encodecorr.encode_real(doc)
        except TypeError as e:
            return dict(case=[cls, comp, kw], unrepresentable=str(e))
        return dict(case=[cls, comp, kw], state=state, widths=widths, status=real[0],
                    exc=real[1] if real[0] == "error" else None)
    except Exception:  # noqa: BLE001
        import traceback

        return dict(machinery=traceback.format_exc()[-1500:])


def check_outside(res):
    outs = common.pool_map(_outside_worker, OUTSIDE, chunksize=4)
    for o in outs:
        if "machinery" in o:
            raise common.MachineryError("encodetotal worker failed: " + o["machinery"])
    live = [o for o in outs if "state" in o]
    drv = encodecorr.model_batch([dict(op="encode_total", doc=o["state"], widths=o["widths"]) for o in live])
    for o, t in zip(live, drv):
        case = dict(level="encode-total-outside", case=o["case"])
        if "accepted" not in t:
            raise common.MachineryError(f"encode_total: {t}")
        res.corr_checked += 1
        cls = o["case"][0]
        if not t["accepted"]:
            res.disagree(case, "the real constructors accept this document, the predicate `accepted` does not")
        elif not t["holds"]:
            res.disagree(case, f"the compiled encoder model violates the statement of C01_encode_total: {t}")
        elif o["status"] == "error":
            res.count(f"total:outside:{cls}:{o['exc']}")
            if t["shapes"] and t["contiguous"] and t["measure_ok"]:
                res.fail(case, f"rtf_encode() raises {o['exc']} on a configuration that is accepted at construction "
                               "and that `shapesInQuantifier` places INSIDE C01's quantifier")
            elif t["result"] == "ok":
                res.disagree(case, f"rtf_encode() raises {o['exc']}, the encoder model returns a document")
        else:
            res.count(f"total:outside:{cls}:encodes")       # repaired, or made a constructor error, since
    for o in outs:
        if "construct" in o:
            res.count(f"total:outside:{o['case'][0]}:now-refused-at-construction")
        elif "unrepresentable" in o:
            res.count(f"total:outside:{o['case'][0]}:not-representable")
    return len(live)


def run(res, outs):
    n = check_accepted(res, outs)
    n += check_rejected(res)
    n += check_outside(res)
    return n


# ============================================================================= multi-section and figure documents
#
# `Props/C01totalmore.lean`: `C01_encodeM_total` (accepted ∧ shapes ∧ measure-ok ⇒ a document, or ValueError and the
# keys of some section are not contiguous), `C01_encodeF_total` (accepted ∧ shapes ⇒ a document), evaluated by the
# driver ops `encode_total_multi` / `encode_total_figure` on the states of `encodecorr2` (byte-exact correspondence of
# those two encoder models with rtf_encode()).  A single frame under a nested header list (`nested1`, assigned after
# construction) goes through `encode_total` on the concatenated list (`C01_encodeNested1_total`).

def _more_request(o):
    """the totality request for one outcome of `encodecorr2` (None: nothing to evaluate)"""
    req = o.get("req")
    if req is None:
        return None
    if o["path"] == "multi":
        return dict(op="encode_total_multi", doc=req["doc"], widths=req["widths"])
    if o["path"] == "figure":
        return dict(op="encode_total_figure", doc=req["doc"])
    if o["path"] == "nested1":
        doc = dict(req["doc"])
        doc["headers"] = [h for entry in req["nested_headers"] for h in entry]
        return dict(op="encode_total", doc=doc, widths=req["widths"])
    return None


def check_accepted_more(res, outs):
    """`outs` = outcomes of `encodecorr2.run`.  A figure document whose spec carries `_post` was changed by plain
    attribute writes AFTER construction: its state is not one the constructors guarantee, so `accepted` need not hold
    of it — the transported theorem (real raises ⇒ a hypothesis fails) is checked on it all the same."""
    live = [(o, r) for o in outs for r in [_more_request(o)] if r is not None]
    drv = encodecorr.model_batch([r for _, r in live])
    for (o, _), t in zip(live, drv):
        path = o["path"]
        case = dict(level="encode-total2", path=path, spec=o["spec"], info=o["info"])
        if "accepted" not in t:
            raise common.MachineryError(f"encode_total ({path}): {t}")
        res.corr_checked += 1
        post = bool(o["spec"].get("_post"))
        if not t["holds"]:
            res.disagree(case, f"the compiled {path} encoder model violates the statement of the totality theorem "
                               f"(Props/C01totalmore.lean): {t}")
            continue
        if not t["accepted"]:
            if post:
                res.count(f"total2:{path}:post-assigned-not-accepted:" + (o.get("exc") or "encodes"))
                continue
            res.count(f"total2:{path}:constructed-but-not-accepted")
            res.disagree(case, f"the real constructors accept this {path} document, the predicate "
                               f"`{'acceptedF' if path == 'figure' else 'acceptedM' if path == 'multi' else 'accepted'}` "
                               "does not: the totality theorem covers fewer documents than rtflite accepts")
            continue
        res.count(f"total2:{path}:accepted")
        if path == "multi" and not all(t["section_accepted"]):
            res.disagree(case, "acceptedM holds and a temp_document is not `accepted` (C01_sections_accepted)")
        measure_ok = t.get("measure_ok", True)
        contiguous = t.get("contiguous", True)
        hyp = t["shapes"] and measure_ok
        if not t["shapes"]:
            res.count(f"total2:{path}:outside-quantifier:" + (o.get("exc") or "encodes"))
        elif o["status"] == "ok":
            res.count(f"total2:{path}:in-quantifier:encodes")
            if not measure_ok:
                res.disagree(case, "the model asks for a string width the real pagination did not measure "
                                   f"({t.get('requests')} requests)")
        elif not contiguous:
            res.count(f"total2:{path}:in-quantifier:refused-noncontiguous")
            if o.get("exc") != "ValueError":
                res.fail(case, f"non-contiguous group_by keys must be refused with ValueError, rtf_encode() raises "
                               f"{o.get('exc')}: {o.get('msg', '')[:200]}")
        elif hyp:
            res.count(f"total2:{path}:in-quantifier:RAISES")
            if o.get("verdict") not in ("real-error", "error-kind"):      # those are reported by encodecorr2 already
                res.fail(case, f"rtf_encode() raises {o.get('exc')}: {o.get('msg', '')[:300]} on a {path} "
                               "configuration that is accepted at construction and inside C01's quantifier: the first "
                               "clause of C01 fails on this input")
        else:
            res.count(f"total2:{path}:in-quantifier:raised-before-measuring")
            if o.get("verdict") not in ("real-error", "error-kind", "both-error") or _model_silent(o):
                res.fail(case, f"rtf_encode() raises {o.get('exc')}: {o.get('msg', '')[:300]} on an accepted {path} "
                               "configuration inside C01's quantifier (acceptance, shapesInQuantifier, contiguous keys "
                               "hold; the encoder raised before every section's widths were measured, so the model has "
                               "no document to compare): the first clause of C01 fails on this input")
    return len(live)


# one invalid value each, on the multi-section and the figure path

PNG_HEX = "89504e470d0a1a0a0000000d49484452000000030000000208020000001234"
JPG_HEX = "ffd8ffe000104a46494600010100000100010000ffc0000b080002000301011100ffd9"

BASE_M = dict(
    kind="multi",
    df=[dict(cols=["g", "a", "b"], rows=[["A", "x", "1"], ["A", "y", "2"], ["B", "z", "3"]]),
        dict(cols=["c", "d"], rows=[["p", "1"], ["q", "2"]])],
    body=[{}, {}], headers=[[dict(text=["G", "A", "B"])], [dict(text=["C", "D"])]],
    page={}, title=dict(text="T"), subline=dict(text="S"), page_header={}, page_footer=dict(text="F"),
    footnote=dict(text="fn"), source=dict(text="src"))

BASE_F = dict(
    kind="figure",
    figure=dict(files=[dict(name="f0.png", hex=PNG_HEX), dict(name="f1.jpg", hex=JPG_HEX)], fig_width=[5, 6.1],
                fig_height=[4, 3], fig_align="left"),
    page={}, title=dict(text="T"), subline=dict(text="S"), page_header={}, page_footer=dict(text="F"),
    footnote=dict(text="fn", as_table=False), source=dict(text="src"))


def _cases_more():
    cs = []
    # multi-section: the SECOND section's body / header (the first is the single-section case all over again)
    for a, v in (("text_font", 11), ("text_format", "x"), ("text_font_size", 0), ("text_color", "notacolor"),
                 ("text_justification", "x"), ("border_left", "zigzag"), ("border_color_top", "nocolor"),
                 ("border_width", 0), ("cell_height", -0.5), ("cell_justification", "j"),
                 ("cell_vertical_justification", "middle"), ("cell_nrow", 0)):
        cs.append(("multi", "attr", "body1", a, v))
        cs.append(("multi", "attr", "header1", a, v))
    cs.append(("multi", "widths", "body1", "col_rel_width", [0, 1]))
    cs.append(("multi", "widths", "header1", "col_rel_width", [-1, 1]))
    cs.append(("multi", "widths", "header0", "col_rel_width", [0, 1, 1]))
    for f in ("group_by", "page_by", "subline_by"):
        cs.append(("multi", "names", "body1", f, ["nope"]))
        cs.append(("multi", "names", "body1", f, ["g"]))       # a column of section 0, not of section 1
    cs.append(("multi", "newpage", "body1", "new_page", True))
    cs.append(("multi", "overlap", "body1", "group_by", dict(group_by=["c"], page_by=["c"])))
    cs.append(("multi", "overlap", "body1", "group_by", dict(group_by=["c"], subline_by=["c"])))
    for f, v in (("width", 0), ("height", -3.5), ("nrow", 0), ("col_width", 0), ("margin", [1, 1, 1]),
                 ("border_first", "zigzag"), ("border_last", "zz")):
        cs.append(("multi", "page", "page", f, v))
        cs.append(("figure", "page", "page", f, v))
    for comp in ("title", "footnote", "source", "page_footer"):
        for a, v in (("text_font", 0), ("text_color", "notacolor"), ("text_font_size", -2.5)):
            cs.append(("multi", "attr", comp, a, v))
            cs.append(("figure", "attr", comp, a, v))
    # figure
    for f in ("fig_width", "fig_height"):
        for v in (0, -1, [], [5, 0], [5, -2.5]):
            cs.append(("figure", "fig", "figure", f, v))
    for v in ("justify", "", "centre"):
        cs.append(("figure", "fig", "figure", "fig_align", v))
    cs.append(("figure", "as_table", "footnote", "as_table", True))
    cs.append(("figure", "as_table", "source", "as_table", True))
    cs.append(("figure", "suffix", "figure", "files", ".gif"))
    cs.append(("figure", "suffix", "figure", "files", ".bmp"))
    cs.append(("figure", "nofigs", "figure", "files", []))
    return cs


def _set_spec_more(spec, kind, comp, a, v):
    if comp in ("body1", "header0", "header1"):
        tgt = spec["body"][1] if comp == "body1" else spec["headers"][int(comp[-1])][0]
        if kind in ("attr", "widths", "names"):
            tgt[a] = v
        elif kind == "newpage":
            tgt["new_page"] = True
        elif kind == "overlap":
            tgt.update(v)
    elif kind == "page":
        spec["page"][a] = v
    elif kind == "attr":
        spec[comp][a] = v
    elif kind == "fig":
        spec["figure"][a] = v
    elif kind == "as_table":
        spec[comp]["as_table"] = v
    elif kind == "suffix":
        spec["figure"]["files"][1]["name"] = "f1" + v
    elif kind == "nofigs":
        spec["figure"]["files"] = []


def _inject_more(state, kind, comp, a, v):
    """the post-construction state that would hold the value (None: not representable in `MDoc` / `FDoc`)"""
    rat = encodecorr.rat
    if comp in ("body1", "header0", "header1"):
        tgt = state["sections"][1]["body"] if comp == "body1" else state["sections"][int(comp[-1])]["headers"][0]
        if kind == "attr":
            tgt["attrs"][a] = [[encodecorr.ser_val(v)]]
        elif kind == "widths":
            tgt["col_rel_width"] = [rat(x) for x in v]
        elif kind == "names":
            tgt[a] = [encodecorr.cps(x) for x in v]
        elif kind == "newpage":
            tgt["new_page"], tgt["page_by"] = True, None
        elif kind == "overlap":
            for k2, v2 in v.items():
                tgt[k2] = [encodecorr.cps(x) for x in v2]
    elif kind == "page":
        pg = state["page"]
        if a == "margin":
            pg["margin"] = [rat(x) for x in v]
        elif a == "nrow":
            pg["nrow"] = v
        elif a in ("border_first", "border_last"):
            pg[a] = v
        else:
            pg[a] = rat(v)
    elif kind == "attr":
        tgt = state[comp]
        if comp in ("footnote", "source"):
            tgt["attrs"][a] = [[encodecorr.ser_val(v)]]
        else:
            tgt["attrs"][a] = {"t": [encodecorr.ser_val(v)]}
    elif kind == "fig":
        if a == "fig_align":
            state["fig_align"] = v
        else:
            state[a] = [rat(x) for x in (v if isinstance(v, list) else [v])]
    elif kind == "as_table":
        state[comp]["as_table"] = True
    elif kind == "suffix":
        state["figs"][1]["suffix"] = v
    elif kind == "nofigs":
        state["figs"] = []
    return state


def _neg_worker_more(case):
    import shutil
    import tempfile

    from . import encodecorr2

    path, kind, comp, a, v = case
    wd = tempfile.mkdtemp(prefix="rtfv_tot2_") if path == "figure" else None
    try:
        base = BASE_M if path == "multi" else BASE_F
        ser = encodecorr2.serialize_multi if path == "multi" else encodecorr2.serialize_figure
        with contextlib.redirect_stdout(io.StringIO()):
            state = ser(docgen.build(copy.deepcopy(base), wd))
        spec = copy.deepcopy(base)
        _set_spec_more(spec, kind, comp, a, v)
        try:
            with contextlib.redirect_stdout(io.StringIO()):
                doc = docgen.build(spec, wd)
            raised = None
        except Exception as e:  # noqa: BLE001
            raised = docgen.classify_exc(e) + ": " + str(e)[:120]
        if raised is None:
            # the constructor accepts the value after all: the real state must be accepted — and what does the real
            # encoder do with it?
            try:
                real_state = ser(doc)
            except TypeError:
                real_state = None
            try:
                with contextlib.redirect_stdout(io.StringIO()):
                    docgen._encode_with_deadline(doc)
                enc = None
            except Exception as e:  # noqa: BLE001
                enc = docgen.classify_exc(e) + ": " + str(e)[:160]
            return dict(case=list(case), raised=None, state=real_state, enc=enc)
        return dict(case=list(case), raised=raised, state=_inject_more(copy.deepcopy(state), kind, comp, a, v))
    except Exception:  # noqa: BLE001
        import traceback

        return dict(machinery=traceback.format_exc()[-1500:])
    finally:
        if wd is not None:
            shutil.rmtree(wd, ignore_errors=True)


def _total_req(path, state, widths=()):
    if path == "multi":
        return dict(op="encode_total_multi", doc=state, widths=list(widths))
    return dict(op="encode_total_figure", doc=state)


def check_rejected_more(res):
    outs = common.pool_map(_neg_worker_more, _cases_more(), chunksize=8)
    for o in outs:
        if "machinery" in o:
            raise common.MachineryError("encodetotal worker failed: " + o["machinery"])
    live = [o for o in outs if o["state"] is not None]
    drv = encodecorr.model_batch([_total_req(o["case"][0], o["state"]) for o in live])
    for o, t in zip(live, drv):
        path = o["case"][0]
        case = dict(level="encode-total2-invalid", case=o["case"])
        if "accepted" not in t:
            raise common.MachineryError(f"encode_total ({path}): {t}")
        res.corr_checked += 1
        name = "acceptedM" if path == "multi" else "acceptedF"
        if o["raised"] is not None:
            res.count(f"total2:{path}:invalid-value:constructor-raises")
            if t["accepted"]:
                res.disagree(case, f"the real constructor refuses this value ({o['raised']}), the predicate `{name}` of "
                                   "Model/EncodeAcceptedMore.lean admits the state that holds it")
        else:
            res.count(f"total2:{path}:invalid-value:constructor-accepts")
            if not t["accepted"]:
                if o.get("enc") and not o["enc"].startswith("ValueError: Data is not properly grouped"):
                    res.fail(case, f"the constructor accepts this value (a validator of rtflite that `{name}` mirrors "
                                   f"no longer refuses it) and rtf_encode() raises {o['enc']}: an accepted "
                                   "configuration that does not encode — the first clause of C01 fails on this input")
                else:
                    res.disagree(case, f"the real constructor accepts this value, `{name}` does not")
    res.count("total2:invalid-value:not-representable", len(outs) - len(live))
    return len(live)


# configurations the constructors ACCEPT and the quantifier predicates exclude (the witnesses `C01totalmore_outside_*`
# of Props/C01totalmore.lean and their variants), plus two the figure quantifier INCLUDES although the table paths
# exclude them (a paragraph-rendered footnote reads its text attributes only)
OUTSIDE_MORE = [
    ("multi", "empty-list", "body1", dict(text_font=[])),
    ("multi", "empty-list", "body1", dict(border_left=[])),
    ("multi", "empty-list", "header1", dict(text_format=[])),
    ("multi", "ragged", "body1", dict(text_font=[[1, 2], [1]])),
    ("multi", "none-required", "body1", dict(text_hyphenation=None)),
    ("multi", "short-widths", "header1", dict(text=["C", "D", "E"])),
    ("multi", "short-widths", "body0", dict(col_rel_width=[1, 1])),
    ("multi", "empty-header", "header1", dict(text=[])),
    ("multi", "no-columns", "body1", dict(page_by=["c", "d"])),
    ("multi", "foot-width", "footnote", dict(col_rel_width=None)),
    ("multi", "empty-list", "title", dict(text_font=[])),
    ("figure", "empty-list", "title", dict(text_font=[])),
    ("figure", "empty-list", "subline", dict(text_justification=[])),
    ("figure", "empty-list", "footnote", dict(text_font=[])),
    ("figure", "empty-list", "page_footer", dict(text_format=[])),
    ("figure", "none-required", "footnote", dict(text_hyphenation=None)),
    ("figure", "none-required", "source", dict(text_font_size=None)),
    ("figure", "inside:table-attribute-of-paragraph", "footnote", dict(border_left=[])),
    ("figure", "inside:table-attribute-of-paragraph", "source", dict(cell_height=[])),
    ("figure", "inside:widths-unused", "footnote", dict(col_rel_width=None)),
    # `_determine_image_format` falls back to `mimetypes` (a table of the host system): `.jpe` is embedded as JPEG.  The
    # model knows the extension table only and `acceptedF` follows the model — a documented limitation, counted here
    ("figure", "unmodelled:mime-fallback", "figure", ".jpe"),
]


def _outside_worker_more(case):
    import shutil
    import tempfile

    from . import encodecorr2

    path, cls, comp, kw = case
    wd = tempfile.mkdtemp(prefix="rtfv_tot2_") if path == "figure" else None
    try:
        spec = copy.deepcopy(BASE_M if path == "multi" else BASE_F)
        if comp == "figure":
            spec["figure"]["files"][1]["name"] = "f1" + kw
        elif comp in ("body0", "body1"):
            spec["body"][int(comp[-1])].update(kw)
        elif comp == "header1":
            spec["headers"][1][0].update(kw)
        else:
            spec[comp].update(kw)
        try:
            with contextlib.redirect_stdout(io.StringIO()):
                doc = docgen.build(spec, wd)
        except Exception as e:  # noqa: BLE001
            return dict(case=list(case), construct=docgen.classify_exc(e) + ": " + str(e)[:120])
        try:
            req, real = encodecorr2.encode_real(doc, path)
        except TypeError as e:
            return dict(case=list(case), unrepresentable=str(e))
        return dict(case=list(case), state=req["doc"], widths=req.get("widths", []), status=real[0],
                    exc=real[1] if real[0] == "error" else None)
    except Exception:  # noqa: BLE001
        import traceback

        return dict(machinery=traceback.format_exc()[-1500:])
    finally:
        if wd is not None:
            shutil.rmtree(wd, ignore_errors=True)


def check_outside_more(res):
    outs = common.pool_map(_outside_worker_more, OUTSIDE_MORE, chunksize=4)
    for o in outs:
        if "machinery" in o:
            raise common.MachineryError("encodetotal worker failed: " + o["machinery"])
    live = [o for o in outs if "state" in o]
    drv = encodecorr.model_batch([_total_req(o["case"][0], o["state"], o["widths"]) for o in live])
    for o, t in zip(live, drv):
        path, cls = o["case"][0], o["case"][1]
        case = dict(level="encode-total2-outside", case=o["case"])
        if "accepted" not in t:
            raise common.MachineryError(f"encode_total ({path}): {t}")
        res.corr_checked += 1
        hyp = t["shapes"] and t.get("measure_ok", True) and t.get("contiguous", True)
        if cls.startswith("unmodelled:"):
            res.count(f"total2:{path}:{cls}:real-{o['status']}:accepted={t['accepted']}:model-{t['result']}")
            if o["status"] == "error" and t["accepted"] and hyp:
                res.fail(case, f"rtf_encode() raises {o['exc']} on an accepted {path} configuration")
        elif not t["accepted"]:
            res.disagree(case, f"the real constructors accept this {path} document, the accepted-predicate does not")
        elif not t["holds"]:
            res.disagree(case, f"the compiled {path} encoder model violates the statement of the totality theorem: {t}")
        elif o["status"] == "error":
            res.count(f"total2:{path}:outside:{cls}:{o['exc']}")
            if hyp:
                res.fail(case, f"rtf_encode() raises {o['exc']} on a {path} configuration that is accepted at "
                               "construction and that the quantifier predicate places INSIDE C01's quantifier")
            elif t["result"] == "ok":
                res.disagree(case, f"rtf_encode() raises {o['exc']}, the {path} encoder model returns a document")
        else:
            res.count(f"total2:{path}:outside:{cls}:encodes")
            if cls.startswith("inside:") and not hyp:
                res.disagree(case, "rtf_encode() encodes this figure document and the figure quantifier "
                                   "`shapesInQuantifierF` excludes it, although it is meant to contain it")
            if t["result"] != "ok":
                res.disagree(case, f"rtf_encode() encodes, the {path} encoder model raises {t['result']}")
    for o in outs:
        if "construct" in o:
            res.count(f"total2:{o['case'][0]}:outside:{o['case'][1]}:now-refused-at-construction")
        elif "unrepresentable" in o:
            res.count(f"total2:{o['case'][0]}:outside:{o['case'][1]}:not-representable")
    return len(live)


def run_more(res, outs2):
    """the multi-section / figure / nested1 tie; `outs2` = outcomes of `encodecorr2.run`"""
    n = check_accepted_more(res, outs2)
    n += check_rejected_more(res)
    n += check_outside_more(res)
    return n


def replay_case(case) -> int:
    """re-run one stored case of this module; 1 = the first clause of C01 fails on it / the tie no longer holds"""
    res = common.Result("C01", "quick", 0)
    lvl = case.get("level")
    if lvl == "encode-total":
        o = encodecorr._worker((0, encodecorr.stage_of(case["spec"]), 0, dict(spec=case["spec"], info=case.get("info", {}))))
        if "machinery" in o:
            print(o["machinery"])
            return 2
        outs = encodecorr.compare([o])
        check_accepted(res, outs)
        print("real:", o.get("status"), o.get("exc"), (o.get("msg") or "")[:200], "| verdict:", o.get("verdict"))
    elif lvl == "encode-total-invalid":
        kind, comp, a, v = case["case"]
        o = common.pool_map(_neg_worker, [(kind, comp, a, v)])[0]
        print("constructor:", o.get("raised") or "accepts")
        if o.get("state") is not None:
            t = encodecorr.model_batch([dict(op="encode_total", doc=o["state"], widths=[])])[0]
            print("model:", t)
            if (o["raised"] is not None) == bool(t.get("accepted")):
                res.disagree(case, "`accepted` and the real constructor disagree on this value")
    elif lvl == "encode-total-outside":
        cls, comp, kw = case["case"]
        o = common.pool_map(_outside_worker, [(cls, comp, kw)])[0]
        print({k: v for k, v in o.items() if k not in ("state", "widths")})
        if "state" in o:
            t = encodecorr.model_batch([dict(op="encode_total", doc=o["state"], widths=o["widths"])])[0]
            print("model:", t)
            if not t.get("accepted"):
                res.disagree(case, "constructed but not `accepted`")
            if o["status"] == "error" and t.get("shapes") and t.get("contiguous") and t.get("measure_ok"):
                res.fail(case, f"rtf_encode() raises {o['exc']} inside the quantifier")
    elif lvl == "encode-total2":
        from . import encodecorr2

        outs = encodecorr2.generate_and_compare(0, 0, paths=(), fixed=[dict(path=case["path"], spec=case["spec"],
                                                                            info=case.get("info", {}))])
        check_accepted_more(res, outs)
        o = outs[0]
        print("real:", o.get("status"), o.get("exc"), (o.get("msg") or "")[:200], "| verdict:", o.get("verdict"))
    elif lvl == "encode-total2-invalid":
        o = common.pool_map(_neg_worker_more, [tuple(case["case"])])[0]
        print("constructor:", o.get("raised") or "accepts", "| rtf_encode():", o.get("enc") or
              ("returns" if o.get("raised") is None else "-"))
        if o.get("state") is not None:
            t = encodecorr.model_batch([_total_req(case["case"][0], o["state"])])[0]
            print("model:", t)
            if (o["raised"] is not None) == bool(t.get("accepted")):
                if o.get("enc"):
                    res.fail(case, f"accepted at construction, rtf_encode() raises {o['enc']}")
                else:
                    res.disagree(case, "the accepted-predicate and the real constructor disagree on this value")
    elif lvl == "encode-total2-outside":
        o = common.pool_map(_outside_worker_more, [tuple(case["case"])])[0]
        print({k: v for k, v in o.items() if k not in ("state", "widths")})
        if "state" in o:
            t = encodecorr.model_batch([_total_req(case["case"][0], o["state"], o["widths"])])[0]
            print("model:", t)
            if not t.get("accepted"):
                res.disagree(case, "constructed but not accepted by the predicate")
            if o["status"] == "error" and t.get("shapes") and t.get("contiguous", True) and t.get("measure_ok", True):
                res.fail(case, f"rtf_encode() raises {o['exc']} inside the quantifier")
    for _, why in res.failures:
        print("FAIL:", why)
    for _, why in res.disagreements:
        print("CORRESPONDENCE:", why)
    if res.failures or res.disagreements:
        print("VIOLATION property=C01 replay=<given>")
        return 1
    print("property holds on this input")
    return 0
