"""C01, first clause — the tie of `Props/C01total.lean` (totality of the encoder model) to the real constructors.

`Model/EncodeAccepted.lean` defines three decidable predicates on the post-construction state of a document:
`accepted` (what the constructors / validators guarantee), `shapesInQuantifier` (the attribute shapes C01 quantifies
over) and `measureOk` (the pagination's width requests are answered).  `C01_encode_total` proves

    accepted ∧ shapesInQuantifier ∧ measureOk  ⇒  the encoder model returns a document,
                                                  or raises ValueError and the group_by keys are not contiguous.

The driver op `encode_total` evaluates the predicates, the decidable contiguity test and the model on one state.
This module checks, on every run:

1. **`accepted` is not narrower than the constructors** — every generated document the REAL constructors accepted
   (the documents of the byte-exact encoder correspondence, `encodecorr.run`) has `accepted = true`
   (otherwise `res.disagree`: the theorem would speak about fewer documents than rtflite accepts);
2. **the theorem transported to the real encoder** — on those documents: `rtf_encode()` raised ⇒ one of the hypotheses
   is false or the keys are not contiguous (otherwise `res.fail`: an accepted configuration inside the quantifier on
   which the real encoder raises — C01's first clause fails on this very input); the statement itself (`holds`) is
   re-evaluated by the compiled model; `measureOk` holds of the widths the real pagination measured whenever the real
   encoder returned;
3. **`accepted` is not wider than the constructors** — a stream of documents with ONE invalid attribute value each
   (every validator of `input.py` / `attributes.py` / `encode.py` whose violation is representable in the model's
   `Doc`): the real constructor must raise and `accepted` of the state carrying that value must be `false`
   (a value the constructor accepts after all is checked the other way round: `accepted` of the real state).
"""
from __future__ import annotations

import contextlib
import copy
import io

from . import common, docgen, encodecorr

# ----------------------------------------------------------------------------- 1 + 2: documents the constructors accept


def check_accepted(res, outs):
    """`outs` = outcomes of `encodecorr.run` (each constructed document carries `req` = state + measured widths)"""
    live = [o for o in outs if "req" in o]
    reqs = [dict(op="encode_total", doc=o["req"]["doc"], widths=o["req"]["widths"]) for o in live]
    drv = encodecorr.model_batch(reqs)
    for o, t in zip(live, drv):
        case = dict(level="encode-total", spec=o["spec"], info={k: v for k, v in o["info"].items() if k != "expect"})
        if "accepted" not in t:
            raise common.MachineryError(f"encode_total: {t}")
        res.corr_checked += 1
        hyp = t["accepted"] and t["shapes"] and t["measure_ok"]
        if not t["accepted"]:
            res.count("total:constructed-but-not-accepted")
            res.disagree(case, "the real constructors accept this document, the predicate `accepted` of "
                               "Model/EncodeAccepted.lean does not: the totality theorem covers fewer documents than "
                               "rtflite accepts")
            continue
        if not t["holds"]:
            res.disagree(case, f"the compiled encoder model violates the statement of C01_encode_total: {t}")
            continue
        res.count("total:accepted")
        if not t["shapes"]:
            res.count("total:outside-quantifier:" + (o.get("exc") or "encodes"))
        elif o["status"] == "ok":
            res.count("total:in-quantifier:encodes")
            if not t["measure_ok"]:
                res.disagree(case, "the model asks for a string width the real pagination did not measure "
                                   f"({t['requests']} requests)")
        elif not t["contiguous"]:
            res.count("total:in-quantifier:refused-noncontiguous")
            if o.get("exc") != "ValueError":
                res.fail(case, f"non-contiguous group_by keys must be refused with ValueError, rtf_encode() raises "
                               f"{o.get('exc')}: {o.get('msg', '')[:200]}")
        elif hyp:
            # accepted, inside the quantifier, every width measured, keys contiguous — and the real encoder raises
            res.count("total:in-quantifier:RAISES")
            if o.get("verdict") not in ("real-error", "error-kind"):      # those are reported by encodecorr already
                res.fail(case, f"rtf_encode() raises {o.get('exc')}: {o.get('msg', '')[:300]} on a configuration that "
                               "is accepted at construction and inside C01's quantifier (accepted, shapesInQuantifier, "
                               "contiguous keys all hold): the first clause of C01 fails on this input")
        else:
            # the real encoder raised before the pagination had measured every width; the model does not raise on the
            # complete table (else `holds` would have told) — nothing to conclude from the partial table
            res.count("total:in-quantifier:raised-before-measuring")
            if o.get("verdict") not in ("real-error", "error-kind", "both-error"):
                res.fail(case, f"rtf_encode() raises {o.get('exc')}: {o.get('msg', '')[:300]} on an accepted "
                               "configuration inside C01's quantifier")
    return len(live)


# ----------------------------------------------------------------------------- 3: one invalid value each

BASE = dict(
    kind="table",
    df=dict(cols=["g", "a", "b"], rows=[["A", "x", "1"], ["A", "y", "2"], ["B", "z", "3"]]),
    page={}, title=dict(text="T"), subline=dict(text="S"), page_header={}, page_footer=dict(text="F"),
    headers=[dict(text=["G", "A", "B"])], body={}, footnote=dict(text="fn"), source=dict(text="src"))

TEXT_INVALID = {
    "text_font": [0, 11, -3, "abc"],
    "text_format": ["x", "bq"],
    "text_font_size": [0, -2.5],
    "text_color": ["notacolor"],
    "text_background_color": ["nocolor1"],
    "text_justification": ["x", "left"],
    "text_indent_first": ["abc"],
    "text_indent_left": ["abc"],
    "text_space_before": ["abc"],
    "text_hyphenation": ["maybe", 2],
    "text_convert": ["maybe", 2],
}
TABLE_INVALID = dict(TEXT_INVALID, **{
    "border_left": ["zigzag", None], "border_right": ["zigzag"], "border_top": ["zz"], "border_bottom": ["zz", None],
    "border_first": ["zz"], "border_last": ["zz"],
    "border_color_left": ["nocolor", None], "border_color_top": ["nocolor"], "border_color_last": ["nocolor"],
    "border_width": [0, -5, None], "cell_height": [0, -0.5, None], "cell_nrow": [0, None],
    "cell_justification": ["j", "x", None], "cell_vertical_justification": ["middle", None],
})
# RTFBody fills border_* / cell_vertical_justification / text_justification with defaults when they are falsy
BODY_REFILLED = {"border_left", "border_right", "border_top", "border_bottom", "border_first", "border_last",
                 "cell_vertical_justification", "text_justification"}
TEXT_COMPS = {"title": "title", "subline": "subline", "page_header": "page_header", "page_footer": "page_footer"}
TABLE_COMPS = {"body": "body", "footnote": "footnote", "source": "source", "header": "headers"}


def _cases():
    cs = []
    for comp in TEXT_COMPS:
        for a, vals in TEXT_INVALID.items():
            for v in vals:
                cs.append(("attr", comp, a, v))
    for comp in TABLE_COMPS:
        for a, vals in TABLE_INVALID.items():
            for v in vals:
                if comp == "body" and v is None and a in BODY_REFILLED:
                    continue
                cs.append(("attr", comp, a, v))
        for w in ([0, 1, 1], [-1, 1, 1]):
            cs.append(("widths", comp, "col_rel_width", w))
    for f, v in (("width", 0), ("width", -1), ("height", 0), ("height", -3.5), ("nrow", 0), ("col_width", 0),
                 ("col_width", -1.5), ("margin", [1, 1, 1]), ("margin", [1] * 7), ("border_first", "zigzag"),
                 ("border_last", "zz"), ("width", 2.25), ("width", 1.0)):
        cs.append(("page", "page", f, v))
    cs.append(("page-landscape", "page", "width", 2.5))
    for f in ("group_by", "page_by", "subline_by"):
        cs.append(("names", "body", f, ["nope"]))
    cs.append(("newpage", "body", "new_page", True))
    cs.append(("overlap", "body", "group_by", dict(group_by=["g"], page_by=["g"])))
    cs.append(("overlap", "body", "group_by", dict(group_by=["g"], subline_by=["g"])))
    return cs


def _set_spec(spec, kind, comp, a, v):
    if kind == "attr" or kind == "widths":
        if comp == "header":
            spec["headers"][0][a] = v
        else:
            spec[comp][a] = v
    elif kind == "page":
        spec["page"][a] = v
    elif kind == "page-landscape":
        spec["page"]["orientation"] = "landscape"
        spec["page"][a] = v
    elif kind == "names":
        spec["body"][a] = v
    elif kind == "newpage":
        spec["body"]["new_page"] = True
    elif kind == "overlap":
        spec["body"].update(v)


def _inject(state, kind, comp, a, v):
    """the post-construction state that would hold the value (None when the model's `Doc` cannot represent it)"""
    from fractions import Fraction

    def rat(x):
        return encodecorr.rat(x)

    if kind == "attr":
        tgt = state["headers"][0] if comp == "header" else state[comp]
        if comp in TEXT_COMPS:
            tgt["attrs"][a] = None if v is None else {"t": [encodecorr.ser_val(v)]}
        else:
            tgt["attrs"][a] = None if v is None else [[encodecorr.ser_val(v)]]
    elif kind == "widths":
        tgt = state["headers"][0] if comp == "header" else state[comp]
        tgt["col_rel_width"] = [rat(x) for x in v]
    elif kind in ("page", "page-landscape"):
        pg = state["page"]
        if kind == "page-landscape":
            pg["landscape"] = True
        if a == "margin":
            pg["margin"] = [rat(x) for x in v]
        elif a == "nrow":
            if v < 0:
                return None
            pg["nrow"] = v
        elif a in ("border_first", "border_last"):
            pg[a] = v
        else:
            if a == "width" and v > 0:
                # the derived default col_width = width - 2.25 (portrait) / 2.5 (landscape), as `_set_default` computes it
                pg["col_width"] = rat(float(v) - (2.5 if kind == "page-landscape" else 2.25))
            pg[a] = rat(v)
    elif kind == "names":
        state["body"][a] = [encodecorr.cps(x) for x in v]
    elif kind == "newpage":
        state["body"]["new_page"] = True
        state["body"]["page_by"] = None
    elif kind == "overlap":
        for k2, v2 in v.items():
            state["body"][k2] = [encodecorr.cps(x) for x in v2]
    return state


def _neg_worker(case):
    kind, comp, a, v = case
    try:
        with contextlib.redirect_stdout(io.StringIO()):
            base = docgen.build(copy.deepcopy(BASE))
            state = encodecorr.serialize(base)
        spec = copy.deepcopy(BASE)
        _set_spec(spec, kind, comp, a, v)
        try:
            with contextlib.redirect_stdout(io.StringIO()):
                doc = docgen.build(spec)
            raised = None
        except Exception as e:  # noqa: BLE001
            raised = docgen.classify_exc(e) + ": " + str(e)[:120]
        if raised is None:
            # the constructor accepts the value after all: the real state must be accepted
            try:
                real_state = encodecorr.serialize(doc)
            except TypeError:
                real_state = None
            return dict(case=[kind, comp, a, v], raised=None, state=real_state)
        return dict(case=[kind, comp, a, v], raised=raised, state=_inject(copy.deepcopy(state), kind, comp, a, v))
    except Exception:  # noqa: BLE001
        import traceback

        return dict(machinery=traceback.format_exc()[-1500:])


def check_rejected(res):
    outs = common.pool_map(_neg_worker, _cases(), chunksize=8)
    for o in outs:
        if "machinery" in o:
            raise common.MachineryError("encodetotal worker failed: " + o["machinery"])
    live = [o for o in outs if o["state"] is not None]
    drv = encodecorr.model_batch([dict(op="encode_total", doc=o["state"], widths=[]) for o in live])
    for o, t in zip(live, drv):
        case = dict(level="encode-total-invalid", case=o["case"])
        if "accepted" not in t:
            raise common.MachineryError(f"encode_total: {t}")
        res.corr_checked += 1
        if o["raised"] is not None:
            res.count("total:invalid-value:constructor-raises")
            if t["accepted"]:
                res.disagree(case, f"the real constructor refuses this value ({o['raised']}), the predicate `accepted` "
                                   "of Model/EncodeAccepted.lean admits the state that holds it: `accepted` promises "
                                   "more than the constructors guarantee")
        else:
            res.count("total:invalid-value:constructor-accepts")
            if not t["accepted"]:
                res.disagree(case, "the real constructor accepts this value, `accepted` does not")
    res.count("total:invalid-value:not-representable", len(outs) - len(live))
    return len(live)


# ----------------------------------------------------------------------------- 4: outside the quantifier

# configurations the constructors ACCEPT and `shapesInQuantifier` excludes (one per clause and variant; the Python
# reproductions quoted in Model/EncodeAccepted.lean and the witnesses `C01total_outside_*` of Props/C01total.lean)
OUTSIDE = [
    ("empty-list", "title", dict(text_font=[])),
    ("empty-list", "title", dict(text_justification=[])),
    ("empty-list", "body", dict(text_font=[])),
    ("empty-list", "body", dict(text_format=[])),
    ("empty-list", "body", dict(text_font=[[]])),
    ("empty-list", "header", dict(border_left=[])),
    ("ragged", "body", dict(text_font=[[1, 2, 1], [1]])),
    ("none-required", "body", dict(text_font=None)),
    ("none-required", "body", dict(text_font_size=None)),
    ("none-required", "body", dict(text_indent_first=None)),
    ("none-required", "body", dict(text_space=None)),
    ("none-required", "body", dict(text_convert=None)),
    ("none-required", "body", dict(text_hyphenation=None)),
    ("none-required", "title", dict(text_justification=None)),
    ("none-required", "title", dict(text_font=None)),
    ("none-required", "header", dict(text_justification=None)),
    ("foot-width", "footnote", dict(col_rel_width=None)),
    ("foot-width", "source", dict(as_table=True, col_rel_width=None)),
    ("no-columns", "body", dict(page_by=["g", "a", "b"])),
    ("no-columns", "df", dict(cols=[], rows=[])),
    ("empty-header", "header", dict(text=[])),
    ("short-widths", "body", dict(col_rel_width=[1, 1])),
    ("short-widths", "header", dict(text=["G", "A", "B", "C"])),
]


def _outside_worker(case):
    cls, comp, kw = case
    try:
        spec = copy.deepcopy(BASE)
        (spec["headers"][0] if comp == "header" else spec[comp]).update(kw)
        if comp == "df":
            spec["headers"] = "default"
        try:
            with contextlib.redirect_stdout(io.StringIO()):
                doc = docgen.build(spec)
        except Exception as e:  # noqa: BLE001
            return dict(case=[cls, comp, kw], construct=docgen.classify_exc(e) + ": " + str(e)[:120])
        try:
            state, widths, real = encodecorr.encode_real(doc)
        except TypeError as e:
            return dict(case=[cls, comp, kw], unrepresentable=str(e))
        return dict(case=[cls, comp, kw], state=state, widths=widths, status=real[0],
                    exc=real[1] if real[0] == "error" else None)
    except Exception:  # noqa: BLE001
        import traceback

        return dict(machinery=traceback.format_exc()[-1500:])


def check_outside(res):
    outs = common.pool_map(_outside_worker, OUTSIDE, chunksize=4)
    for o in outs:
        if "machinery" in o:
            raise common.MachineryError("encodetotal worker failed: " + o["machinery"])
    live = [o for o in outs if "state" in o]
    drv = encodecorr.model_batch([dict(op="encode_total", doc=o["state"], widths=o["widths"]) for o in live])
    for o, t in zip(live, drv):
        case = dict(level="encode-total-outside", case=o["case"])
        if "accepted" not in t:
            raise common.MachineryError(f"encode_total: {t}")
        res.corr_checked += 1
        cls = o["case"][0]
        if not t["accepted"]:
            res.disagree(case, "the real constructors accept this document, the predicate `accepted` does not")
        elif not t["holds"]:
            res.disagree(case, f"the compiled encoder model violates the statement of C01_encode_total: {t}")
        elif o["status"] == "error":
            res.count(f"total:outside:{cls}:{o['exc']}")
            if t["shapes"] and t["contiguous"] and t["measure_ok"]:
                res.fail(case, f"rtf_encode() raises {o['exc']} on a configuration that is accepted at construction "
                               "and that `shapesInQuantifier` places INSIDE C01's quantifier")
            elif t["result"] == "ok":
                res.disagree(case, f"rtf_encode() raises {o['exc']}, the encoder model returns a document")
        else:
            res.count(f"total:outside:{cls}:encodes")       # repaired, or made a constructor error, since
    for o in outs:
        if "construct" in o:
            res.count(f"total:outside:{o['case'][0]}:now-refused-at-construction")
        elif "unrepresentable" in o:
            res.count(f"total:outside:{o['case'][0]}:not-representable")
    return len(live)


def run(res, outs):
    n = check_accepted(res, outs)
    n += check_rejected(res)
    n += check_outside(res)
    return n


def replay_case(case) -> int:
    """re-run one stored case of this module; 1 = the first clause of C01 fails on it / the tie no longer holds"""
    res = common.Result("C01", "quick", 0)
    lvl = case.get("level")
    if lvl == "encode-total":
        o = encodecorr._worker((0, encodecorr.stage_of(case["spec"]), 0, dict(spec=case["spec"], info=case.get("info", {}))))
        if "machinery" in o:
            print(o["machinery"])
            return 2
        outs = encodecorr.compare([o])
        check_accepted(res, outs)
        print("real:", o.get("status"), o.get("exc"), (o.get("msg") or "")[:200], "| verdict:", o.get("verdict"))
    elif lvl == "encode-total-invalid":
        kind, comp, a, v = case["case"]
        o = common.pool_map(_neg_worker, [(kind, comp, a, v)])[0]
        print("constructor:", o.get("raised") or "accepts")
        if o.get("state") is not None:
            t = encodecorr.model_batch([dict(op="encode_total", doc=o["state"], widths=[])])[0]
            print("model:", t)
            if (o["raised"] is not None) == bool(t.get("accepted")):
                res.disagree(case, "`accepted` and the real constructor disagree on this value")
    elif lvl == "encode-total-outside":
        cls, comp, kw = case["case"]
        o = common.pool_map(_outside_worker, [(cls, comp, kw)])[0]
        print({k: v for k, v in o.items() if k not in ("state", "widths")})
        if "state" in o:
            t = encodecorr.model_batch([dict(op="encode_total", doc=o["state"], widths=o["widths"])])[0]
            print("model:", t)
            if not t.get("accepted"):
                res.disagree(case, "constructed but not `accepted`")
            if o["status"] == "error" and t.get("shapes") and t.get("contiguous") and t.get("measure_ok"):
                res.fail(case, f"rtf_encode() raises {o['exc']} inside the quantifier")
    for _, why in res.failures:
        print("FAIL:", why)
    for _, why in res.disagreements:
        print("CORRESPONDENCE:", why)
    if res.failures or res.disagreements:
        print("VIOLATION property=C01 replay=<given>")
        return 1
    print("property holds on this input")
    return 0
