"""Data SHAPES of frame columns, in every role a column can play (C01's quantifier: "all DataFrames (0..N rows, 1..M
columns; strings …, ints, floats, nulls)").

The other generators of the family decide what the CELLS of a column hold; the column itself is always a String /
Int64 / Float64 / Boolean column with at least one value in it (`docgen.make_frame` gives an all-null column the dtype
String).  polars has more column shapes than that, and the encoder runs polars expressions on whole columns
(`when/then/otherwise`, `ne_missing`, `shift`, `slice`, `gather`, literals built from a cell …) whose support depends on
the column's dtype, not on its cells.  This module writes the shapes explicitly (frame key "dtypes" of docgen specs):

  null-untyped        every cell null, dtype Null            (`pl.DataFrame({"c": [None] * n})`)
  null-typed:T        every cell null, dtype T               T ∈ String Int64 Float64 Boolean Date (Object: not group_by)
  one-value:T         null except ONE cell, dtype T
  object-mixed        dtype Object holding str / int / float / bool / None side by side (where polars allows the role:
                      a group_by key column cannot be an Object column — polars refuses to compare it)
  zero rows           a frame without rows whose columns carry those dtypes

for the roles: data column (one, several, all of them), group_by key at every level, page_by key at every level,
subline_by key — on documents long enough to continue on later pages, single- and multi-section.

Group_by keys stay CONTIGUOUS at every level (an all-null level is one constant key; the single value of a one-value
level sits at the start or the end of a parent group), except where `break_contiguity` says otherwise; `contiguous`
decides the refusal C01 allows from the spec alone (the tuple-of-values rule of `validate_data_sorting`).
"""
from __future__ import annotations

from . import docgen, laygen

TYPES = ["String", "Int64", "Float64", "Boolean", "Date"]
_VALUES = {
    "String": ["only", "x y", " v", "Ünï", "0", "None"],
    "Int64": [0, 7, -12, 99999],
    "Float64": [0.0, 1.5, -3.25, 1e-05, 2.5e+16],
    "Boolean": [True, False],
    "Date": ["2020-01-02", "1999-12-31"],
}
KEY_SHAPES = (["null-untyped"] * 5 + [f"null-typed:{t}" for t in TYPES] + [f"one-value:{t}" for t in TYPES])
COL_SHAPES = KEY_SHAPES + ["null-typed:Object", "object-mixed", "object-mixed"]


def _names(v):
    return [] if v is None else [v] if isinstance(v, str) else list(v)


def roles(frame, body):
    """{"group_by": [...], "page_by": [...], "subline_by": [...], "data": [...]} — column names by role"""
    gb, pb, sb = (_names(body.get(k)) for k in ("group_by", "page_by", "subline_by"))
    used = set(gb) | set(pb) | set(sb)
    return dict(group_by=gb, page_by=pb, subline_by=sb, data=[c for c in frame["cols"] if c not in used])


def shape_values(rng, shape, n, at=None):
    """(dtype name, cell list) of a column of `n` rows in the given shape; `at` = row of the single value"""
    if shape == "null-untyped":
        return "Null", [None] * n
    kind, _, t = shape.partition(":")
    if kind == "null-typed":
        return t, [None] * n
    if kind == "one-value":
        vals = [None] * n
        if n:
            vals[rng.randrange(n) if at is None else at] = rng.choice(_VALUES[t])
        return t, vals
    if shape == "object-mixed":
        pool = ["txt", " pad ", 3, -7, 2.5, 1e-05, True, None, None]
        return "Object", [rng.choice(pool) for _ in range(n)]
    raise KeyError(shape)


def set_column(frame, name, dtype, vals):
    j = frame["cols"].index(name)
    for r, v in zip(frame["rows"], vals):
        r[j] = v
    frame.setdefault("dtypes", {})[name] = dtype


# ----------------------------------------------------------------------------- group_by keys

def contiguous(frame, group_by) -> bool:
    """the keys of every prefix level of `group_by` are contiguous in the frame (a null is a value of its own):
    what `GroupingService.validate_data_sorting` demands; a frame without rows is never refused"""
    names = []
    for c in _names(group_by):
        if c not in names:
            names.append(c)
    idx = [frame["cols"].index(c) for c in names]
    rows = frame["rows"]
    for l in range(len(idx)):
        seen, cur = set(), object()
        for r in rows:
            key = tuple(_norm(r[j]) for j in idx[:l + 1])
            if key != cur:
                if key in seen:
                    return False
                seen.add(key)
                cur = key
    return True


def _norm(v):
    # python equality of the values polars hands out: True == 1 == 1.0 — keep that; None is its own value
    return ("null",) if v is None else v


def shaped_keys(rng, n, shapes):
    """one value list per level: hierarchical run keys, contiguous at every level.  `shapes[l]` is None (ordinary run
    keys: strings, or their integer codes, sometimes with a null run) or one of KEY_SHAPES.
    Returns [(dtype name | None, values)]"""
    outer = [()] * n
    out = []
    for l, sh in enumerate(shapes):
        def groups():
            i = 0
            while i < n:
                j = i
                while j < n and outer[j] == outer[i]:
                    j += 1
                yield i, j
                i = j
        if sh is None:
            alpha = [f"g{l}{x}" for x in "abcdef"]
            vals = []
            for i, j in groups():
                vals += docgen.run_keys(rng, j - i, alpha, 1, 6 if l == 0 else 4)
            if n and rng.random() < 0.2:
                # a null run (a group of its own)
                i = rng.randrange(n)
                x, o = vals[i], outer[i]
                j = i
                while j < n and vals[j] == x and outer[j] == o:
                    vals[j] = None
                    j += 1
            if rng.random() < 0.25:
                code = {}
                for x in vals:
                    if x is not None:
                        code.setdefault(x, len(code) + 1)
                vals = [None if x is None else code[x] for x in vals]
            dt = None
        elif sh.startswith("one-value"):
            gs = list(groups())
            at = None
            if gs:
                i, j = rng.choice(gs)
                at = rng.choice([i, j - 1])          # first or last row of a parent group: the level stays contiguous
            dt, vals = shape_values(rng, sh, n, at)
        else:
            dt, vals = shape_values(rng, sh, n)
        out.append((dt, vals))
        outer = [o + (_norm(v),) for o, v in zip(outer, vals)]
    return out


def break_contiguity(rng, cols_vals) -> bool:
    """make the keys of some ordinary level non-contiguous inside one parent group (v[j] := v[i] with another value in
    between); False when the keys leave no room for it"""
    n = len(cols_vals[0]) if cols_vals else 0
    levels = list(range(len(cols_vals)))
    rng.shuffle(levels)
    for l in levels:
        v = cols_vals[l]

        def parent(i):
            return tuple(_norm(cols_vals[m][i]) for m in range(l))
        cand = [(i, j) for i in range(n) for j in range(i + 2, n)
                if parent(i) == parent(j) and v[i] != v[j] and any(v[m] != v[i] for m in range(i + 1, j))
                and all(parent(m) == parent(i) for m in range(i, j + 1)) and v[i] is not None and v[j] is not None]
        if cand:
            i, j = rng.choice(cand)
            v[j] = v[i]
            return True
    return False


def _level_shapes(rng, levels):
    """per-level shapes with at least one shaped level; all levels shaped sometimes"""
    if rng.random() < 0.2:
        return [rng.choice(KEY_SHAPES) for _ in range(levels)]
    shapes = [None] * levels
    for l in rng.sample(range(levels), rng.randint(1, levels)):
        shapes[l] = rng.choice(KEY_SHAPES)
    return shapes


def add_group_by(rng, spec, info, p_break=0.1):
    """group_by over 1..3 NEW columns GB{l}, at least one of them in a shape of KEY_SHAPES, at any level (before the
    attributes are drawn: the column count changes).  Labels → info["data_shapes"]"""
    frame, body = spec["df"], spec["body"]
    n = len(frame["rows"])
    levels = rng.choice([1, 1, 2, 2, 3])
    names = [f"GB{l}" for l in range(levels)]
    shapes = _level_shapes(rng, levels)
    keys = shaped_keys(rng, n, shapes)
    broken = False
    if n >= 3 and any(s is None for s in shapes) and rng.random() < p_break:
        broken = break_contiguity(rng, [v for _, v in keys])
    frame["cols"] = frame["cols"] + names
    for i, r in enumerate(frame["rows"]):
        r.extend(v[i] for _, v in keys)
    for name, (dt, _) in zip(names, keys):
        if dt is not None:
            frame.setdefault("dtypes", {})[name] = dt
    body["group_by"] = names if rng.random() < 0.85 else names[0]
    hs = spec.get("headers")
    if isinstance(hs, list):
        for h in hs:
            if isinstance(h, dict) and h.get("text") and len(h["text"]) == len(info.get("displayed", ())) \
                    and "col_rel_width" not in h:
                h["text"] = h["text"] + [f"HDGB{l}" for l in range(levels)]
    info["group_by"] = names
    if "displayed" in info:
        info["displayed"] = info["displayed"] + names
    keyed = _names(body["group_by"])
    labels = info.setdefault("data_shapes", [])
    for l, (name, sh) in enumerate(zip(names, shapes)):
        if sh is not None and n:             # (a frame without rows gets its dtypes and labels from `type_empty`)
            labels.append(["group_by" if name in keyed else "data", l, sh])
    if broken:
        labels.append(["group_by", -1, "non-contiguous"])
    return names


def regroup(rng, frame, body):
    """rewrite the values of the EXISTING group_by columns (names and column count stay) as shaped contiguous keys"""
    names = []
    for c in _names(body.get("group_by")):
        if c not in names:
            names.append(c)
    n = len(frame["rows"])
    shapes = _level_shapes(rng, len(names))
    labels = []
    for l, (name, sh, (dt, vals)) in enumerate(zip(names, shapes, shaped_keys(rng, n, shapes))):
        j = frame["cols"].index(name)
        for r, v in zip(frame["rows"], vals):
            r[j] = v
        dts = frame.setdefault("dtypes", {})
        if dt is not None:
            dts[name] = dt
        else:
            dts.pop(name, None)
        if sh is not None:
            labels.append(["group_by", l, sh])
    if not frame.get("dtypes"):
        frame.pop("dtypes", None)
    return labels


# ----------------------------------------------------------------------------- every role, after the fact

def type_empty(rng, frame, body):
    """a frame without rows: every column gets an explicit dtype (untyped null, the typed ones, Object)"""
    r = roles(frame, body)
    labels = []
    for role, names in r.items():
        for l, c in enumerate(names):
            dt = rng.choice(["Null", "Null"] + TYPES + ([] if role == "group_by" else ["Object"]))
            frame.setdefault("dtypes", {})[c] = dt
            labels.append([role, l, "zero-rows:" + dt])
    return labels


def reshape(rng, frame, body, *, group_by=True, must=True):
    """Rewrite whole columns of a finished table spec in the shapes of this module — values and dtypes only: names,
    column count and row count stay, so every attribute already drawn still fits.  Roles come from the body's own
    page_by / subline_by / group_by.  Returns the labels [[role, level, shape], …]."""
    n = len(frame["rows"])
    if n == 0:
        return type_empty(rng, frame, body)
    r = roles(frame, body)
    labels = []
    picks = [k for k, p in (("data", 0.5), ("page_by", 0.45), ("subline_by", 0.45), ("group_by", 0.6 if group_by else 0))
             if r[k] and rng.random() < p]
    if not picks and must:
        picks = [rng.choice([k for k in r if r[k] and (group_by or k != "group_by")] or ["data"])]
    for role in picks:
        names = r[role]
        if not names:
            continue
        if role == "group_by":
            labels += regroup(rng, frame, body)
            continue
        if role == "data":
            k = len(names) if rng.random() < 0.2 else rng.randint(1, len(names))
            chosen = rng.sample(names, k)
            if k == len(names) and k > 1:
                labels.append(["data", -1, "every-data-column"])
        else:
            chosen = rng.sample(names, rng.randint(1, len(names)))
        for c in chosen:
            sh = rng.choice(COL_SHAPES)
            dt, vals = shape_values(rng, sh, n)
            set_column(frame, c, dt, vals)
            labels.append([role, names.index(c), sh])
    return labels


def expect_refusal(spec) -> bool:
    """does C01 allow rtf_encode() to refuse this document (ValueError): group_by keys of some section not contiguous"""
    if spec.get("kind", "table") == "multi":
        return any(not contiguous(f, b.get("group_by")) for f, b in zip(spec["df"], spec["body"]))
    if spec.get("kind", "table") == "figure":
        return False
    return not contiguous(spec["df"], (spec.get("body") or {}).get("group_by"))


def count(res, info, prefix="datashape"):
    """evidence labels `datashape:<role>:<shape>` (+ level for the key roles)"""
    for role, level, shape in info.get("data_shapes") or []:
        res.count(f"{prefix}:{role}:{shape}")
        if role in ("group_by", "page_by") and level >= 0:
            res.count(f"{prefix}:{role}:level{level}")


# ----------------------------------------------------------------------------- documents

STRATEGIES = ["plain", "plain", "plain", "page_by", "page_by", "page_by_np", "page_by_np_first", "subline",
              "subline_page_by"]


def _rows_and_budget(rng):
    """(n, nrow): most documents continue on a second, third … page"""
    r = rng.random()
    if r < 0.08:
        return 0, rng.randint(2, 30)
    if r < 0.75:
        nrow = rng.randint(3, 10)
        return rng.randint(nrow, 4 * nrow), nrow
    return rng.randint(1, 30), rng.randint(2, 30)


def gen_table(rng, k, *, attrs=True):
    """single-section document of the data-shape class, inside C01's quantifier (it must encode, or be refused for
    non-contiguous keys: info["expect_error"])"""
    from .props import c06, c09

    n, nrow = _rows_and_budget(rng)
    strategy = rng.choice(STRATEGIES)
    geo = c06.rand_geometry(rng)
    spec, info = laygen.gen_spec(rng, strategy=strategy, n=n, nrow=nrow, dividers=(k % 5 == 0), geometry=geo or None,
                                 page_headers=(rng.random() < 0.3), nulls=rng.choice([0.0, 0.0, 0.15]),
                                 ndata=rng.choice([1, 2, 2, 3, 4]),
                                 levels=None if strategy == "plain" else rng.choice([None, 1, 2, 3]))
    info["data_shapes"] = []
    if strategy != "plain" and rng.random() < 0.4:
        c09.permute_columns(rng, spec, info)
    if rng.random() < (0.7 if strategy == "plain" else 0.4):
        add_group_by(rng, spec, info)
    ncols = len(spec["df"]["cols"])
    if attrs:
        body = spec["body"]
        for a in rng.sample(sorted(c09.ATTRS), rng.randint(0, 3)):
            g = c09.ATTRS[a]
            sh = rng.choice(["scalar", "percol", "matrix"])
            if a in ("cell_height", "cell_justification") or (sh == "matrix" and n == 0):
                sh = "scalar"
            body[a] = g(rng) if sh == "scalar" else [g(rng) for _ in range(ncols)] if sh == "percol" else \
                [[g(rng) for _ in range(ncols)] for _ in range(n)]
        if rng.random() < 0.3:
            body["col_rel_width"] = [rng.choice([1, 2, 1.5, 3, 0.7]) for _ in range(ncols)]
    info["data_shapes"] += reshape(rng, spec["df"], spec["body"], group_by=False,
                                   must=not info["data_shapes"])
    info["expect_error"] = expect_refusal(spec)
    info["gen"] = "datashapes"
    return spec, info


def gen_multi(rng, k):
    """multi-section document of the data-shape class: 1–4 sections, each from `gen_table` without attributes (the
    sections share one page), nested / default headers"""
    nsec = rng.choice([1, 2, 2, 3, 4])
    nrow = rng.randint(3, 12)
    secs = []
    for s in range(nsec):
        sspec, sinfo = gen_table(rng, k + s, attrs=False)
        secs.append((sspec, sinfo))
    base = secs[0][0]
    page = dict(base["page"])
    page["nrow"] = nrow
    mode = rng.choice(["nested", "nested", "default"])
    if mode == "nested":
        headers = []
        for sp, _ in secs:
            h = sp["headers"]
            headers.append([{}] if h == "default" else [None] if not h else list(h))
    else:
        headers = "default"
    spec = dict(kind="multi", df=[sp["df"] for sp, _ in secs], body=[sp["body"] for sp, _ in secs], headers=headers,
                page=page)
    for key in ("title", "subline", "footnote", "source", "page_header", "page_footer"):
        spec[key] = base.get(key)
    info = dict(strategy="multi", header_mode="multi", gen="datashapes", n=sum(si["n"] for _, si in secs),
                page_by=None, subline_by=None, strategies=[si["strategy"] for _, si in secs],
                data_shapes=[x for _, si in secs for x in si["data_shapes"]])
    info["expect_error"] = expect_refusal(spec)
    return spec, info


def gen_corr_doc(rng, stage: int, k: int):
    """document of the data-shape class for the byte-exact encoder correspondence (`encodecorr`), stages as there:
    1 plain, 2 page_by / subline_by, 3 group_by.  Built like `encodecorr.gen_doc` (laygen skeleton, cell kinds,
    decorated attributes in every shape), with shaped group_by keys and whole columns rewritten at the end"""
    from . import encodecorr as ec
    from .props import c02, c06, c09

    n, nrow = _rows_and_budget(rng)
    if stage == 1 or (stage == 3 and rng.random() < 0.5):
        strategy = "plain"
    else:
        strategy = rng.choice(laygen.STRATEGIES[1:])
    geo = c06.rand_geometry(rng)
    spec, info = laygen.gen_spec(rng, strategy=strategy, n=n, nrow=nrow, dividers=(k % 4 == 0), geometry=geo or None,
                                 page_headers=(rng.random() < 0.4), nulls=rng.choice([0.0, 0.0, 0.1]),
                                 levels=None if strategy == "plain" else rng.choice([None, 1, 2, 3]))
    info["gen"] = "laygen+shapes"
    info["data_shapes"] = []
    if strategy != "plain" and rng.random() < 0.5:
        c09.permute_columns(rng, spec, info)
    if rng.random() < 0.4:
        c02.mutate_cells(rng, spec, info, convert_off=False)
    late = False
    if stage == 3:
        if rng.random() < 0.7:
            add_group_by(rng, spec, info)
        else:
            ec.add_group_by(rng, spec, info)        # the ordinary keys; rewritten in place below (`regroup`)
            late = True
    ec.decorate(rng, spec, info, rich=rng.random() < 0.5)
    if late and n:
        info["data_shapes"] += regroup(rng, spec["df"], spec["body"])
    info["data_shapes"] += reshape(rng, spec["df"], spec["body"], group_by=False, must=not info["data_shapes"])
    ec.label_headers(spec, info)
    return spec, info
