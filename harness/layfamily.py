"""Common runner for the layout-family checks (C02 C03 C05 C06; C07/C09 build on it).

A property module supplies a `Family` subclass; the runner
  * generates documents (seeded) and runs the REAL rtflite on them in worker processes,
  * classifies the real output into role blocks (laygen.classify),
  * evaluates the property's own oracle on that observation inside the worker (independent of the model),
  * asks the Lean driver for `layout ldoc` and compares under the property's projection.
"""
from __future__ import annotations

import json

from . import common, laygen
from .common import sub_rng


class Family:
    prop = "C00"
    tag = "c00"

    def ndocs(self, tier):
        return 300 if tier == "quick" else 4000

    def gen(self, rng, k, tier):
        """→ (spec, info) inside the property's stated domain"""
        return laygen.gen_spec(rng)

    def oracle(self, spec, info, ob) -> list[str]:
        """property clauses evaluated on the observation of the implementation; runs in the worker;
        `ob` has pages (role blocks), _raw (reader objects per block), _doc (reader Doc), _rtf"""
        return []

    def project(self, pages, info):
        """what this property compares between model and implementation"""
        return pages

    def nontrivial(self, spec, info, ob):
        return None

    def extra_model_check(self, spec, info, ob, drv) -> list[str]:
        return []

    def corpus(self):
        d = common.CORPUS / self.prop
        out = []
        if d.exists():
            for f in sorted(d.glob("*.json")):
                out.append(json.loads(f.read_text()))
        return out


_FAMILY = None


_HIST: list = []      # per worker process: the job numbers it has handled so far (a failure may depend on them)


def _worker(args):
    fam, seed, k, tier, fixed = args
    try:
        if fixed is not None:
            spec, info = fixed["spec"], fixed["info"]
            for h in fixed.get("history") or []:      # replay: what the same process encoded before this document
                laygen.observe(h["spec"], h["info"])
        else:
            spec, info = fam.gen(sub_rng(seed, fam.tag, k), k, tier)
        ob = laygen.observe(spec, info)
        out = dict(spec=spec, info=info, status=ob["status"], prev_k=list(_HIST[-3:]))
        _HIST.append(k)
        if ob["status"] != "ok":
            out["error"] = {k2: v for k2, v in ob.items() if not k2.startswith("_")}
            out["fails"] = fam.on_error(spec, info, ob)
            return out
        out["pages"] = ob["pages"]
        out["fails"] = fam.oracle(spec, info, ob)
        out["nt"] = fam.nontrivial(spec, info, ob)
        out["ldoc"] = laygen.ldoc_of(spec, info) if info.get("model", True) else None
        out["extra"] = fam.worker_extra(spec, info, ob)
        return out
    except Exception as e:  # noqa: BLE001 — machinery error inside a worker must not look like a violation
        import traceback

        return dict(machinery=traceback.format_exc()[-1500:])


def _in_pool(args):
    """one `_worker` call in a worker process — never in the parent: the parent must not import rtflite / polars
    (their thread pools do not survive a later fork: the next pool would hang)"""
    return common.pool_map(_worker, [args] * 4)[0]


def _on_error_default(self, spec, info, ob):
    return [f"rtf_encode failed or output unreadable: {ob.get('exc', '')} {ob.get('msg', '')}"]


Family.on_error = _on_error_default
Family.worker_extra = lambda self, spec, info, ob: None
# the second tie (harness/crosscorr.py): documents of the whole-encoder correspondence class, judged where the real
# text and the encoder model's text differ.  `cross_prepare` completes `info` with what the family's oracle needs
# (None = the document is outside the family's domain), `cross_extra` is an additional observation compared between
# the two texts.
Family.cross = True
Family.cross_prepare = lambda self, spec, info: info
Family.cross_extra = lambda self, spec, info, ob: None
Family.shrink_steps = lambda self, case: []      # simpler variants of a failing case (layfamily.shrink tries them)
Family.labels = lambda self, o: []        # extra input-distribution labels of one worker result (→ res.count)


def run_family(fam: Family, res: common.Result, build, rule, trusted, assume, explanation, known_fn=None):
    tier = res.tier
    jobs = [(fam, res.seed, -1 - i, tier, c) for i, c in enumerate(fam.corpus())]
    jobs += [(fam, res.seed, k, tier, None) for k in range(fam.ndocs(tier))]
    outs = common.pool_map(_worker, jobs, chunksize=4)
    for o in outs:
        if "machinery" in o:
            raise common.MachineryError("worker failed: " + o["machinery"])
    reqs, idx = [], []
    for i, o in enumerate(outs):
        if o.get("ldoc") is not None:
            reqs.append(dict(op="layout", doc=o["ldoc"]))
            idx.append(i)
    drv = dict(zip(idx, common.driver_batch(reqs)))
    known_lines = {}
    for i, o in enumerate(outs):
        case = dict(spec=o["spec"], info=o["info"])
        nt = o.get("nt")
        res.case(case, tuple(nt) if isinstance(nt, list) else nt)
        res.count("strategy:" + str(o["info"].get("strategy")))
        res.count("header:" + str(o["info"].get("header_mode")))
        for lab in o["info"].get("labels") or []:      # input classes a family's generator names itself
            res.count(str(lab))
        for lab in fam.labels(o):
            res.count(lab)
        if o["status"] == "ok":
            res.count(f"pages:{min(len(o['pages']), 9)}")
        fails = list(o.get("fails") or [])
        if known_fn is not None and fails:
            fails, hits = known_fn(o, fails)
            for kid, line in hits:
                res.known_hits[kid] = res.known_hits.get(kid, 0) + 1
                known_lines.setdefault(kid, line)
        for f in fails[:1]:
            if not res.failures and o.get("prev_k") and not case.get("history"):
                # does the failure need what the same worker process encoded before?  (a fresh subprocess decides)
                solo = common.pool_map(_worker, [(fam, 0, 0, "quick", dict(spec=case["spec"], info=case["info"]))] * 4)[0]
                sf = list(solo.get("fails") or [])
                if known_fn is not None and sf:
                    sf, _ = known_fn(solo, sf)
                if not sf:
                    by_k = {j[2]: n for n, j in enumerate(jobs)}
                    hist = [dict(spec=outs[by_k[pk]]["spec"], info=outs[by_k[pk]]["info"]) for pk in o["prev_k"] if pk in by_k]
                    case = dict(case, history=hist)
                    res.notes.append("the first failing document fails only after the documents the same process "
                                     "encoded before it (kept as `history` in the replay)")
            if not res.failures and not case.get("history"):
                try:
                    small = shrink(fam, case, known_fn)
                    if small is not case:
                        o2 = _in_pool((fam, 0, 0, "quick", dict(spec=small["spec"], info=small["info"])))
                        f2 = list(o2.get("fails") or [])
                        if known_fn is not None and f2:
                            f2, _ = known_fn(o2, f2)
                        if f2:
                            case, f = small, f2[0]
                            res.notes.append("first failing document shrunk to %d rows" % (small["info"].get("n") or 0))
                except Exception as e:  # noqa: BLE001 — shrinking is best effort
                    res.notes.append(f"shrinking failed: {type(e).__name__}: {e}")
            res.fail(case, f)
        if i in drv and o["status"] == "ok":
            res.corr_checked += 1
            a = fam.project(o["pages"], o["info"])
            b = fam.project(drv[i]["pages"], o["info"])
            if a != b:
                res.disagree(case, _first_diff(a, b))
            else:
                for m in fam.extra_model_check(o["spec"], o["info"], o, drv[i]):
                    res.disagree(case, m)
    if getattr(fam, "extra_streams", None) is not None:
        fam.extra_streams(res)
    if fam.cross:
        from . import crosscorr

        crosscorr.run_cross(fam, res)
    return common.finish(res, build, rule, trusted, assume, explanation=explanation,
                         known_lines=[known_lines[k] for k in sorted(known_lines)])


def _truncate(case, m):
    """the same document with only its first m rows (info kept consistent)"""
    import copy

    c = copy.deepcopy(case)
    spec, info = c["spec"], c["info"]
    if spec.get("kind", "table") != "table" or not isinstance(spec.get("df"), dict):
        return None
    spec["df"]["rows"] = spec["df"]["rows"][:m]
    info["n"] = m
    if isinstance(info.get("expect"), list):
        info["expect"] = info["expect"][:m]
    return c


def _drop_component(case, key):
    import copy

    c = copy.deepcopy(case)
    spec, info = c["spec"], c["info"]
    if spec.get(key) is None:
        return None
    spec[key] = None
    if key == "title":
        info["has_title"] = False
    elif key == "subline":
        info["has_subline_txt"] = False
    elif key in ("footnote", "source"):
        info[key] = "absent"
    elif key == "page_header":
        info["has_ph"] = False
    elif key == "page_footer":
        info["has_pf"] = False
    return c


def _drop_spelling(case, key):
    """the same document with one container spelling (docgen "spelling") back to the plain one"""
    import copy

    if key not in (case["spec"].get("spelling") or {}):
        return None
    c = copy.deepcopy(case)
    del c["spec"]["spelling"][key]
    return c


def shrink(fam: Family, case, known_fn=None, budget=40):
    """smallest prefix of the table (binary search), fewest optional components and fewest non-plain container
    spellings on which the oracle still fails"""
    def fails(c):
        if c is None:
            return False
        o = _in_pool((fam, 0, 0, "quick", dict(spec=c["spec"], info=c["info"])))
        f = list(o.get("fails") or []) if "machinery" not in o else []
        if known_fn is not None and f:
            f, _ = known_fn(o, f)
        return bool(f)
    cur = case
    n = cur["info"].get("n") or 0
    lo, hi = 1, n            # invariant: prefix of length hi fails
    tries = 0
    while lo < hi and tries < budget:
        mid = (lo + hi) // 2
        tries += 1
        cand = _truncate(cur, mid)
        if fails(cand):
            hi = mid
        else:
            lo = mid + 1
    if hi < n:
        t = _truncate(cur, hi)
        if t is not None and fails(t):
            cur = t
    for key in ("title", "subline", "page_header", "page_footer", "footnote", "source"):
        if tries >= budget:
            break
        tries += 1
        cand = _drop_component(cur, key)
        if fails(cand):
            cur = cand
    # family-specific simplifications (e.g. an edge column name put back to its sentinel name), one at a time
    progress = True
    while progress and tries < budget:
        progress = False
        for cand in fam.shrink_steps(cur):
            if tries >= budget:
                break
            tries += 1
            if fails(cand):
                cur, progress = cand, True
                break
    if cur is case and cur["spec"].get("spelling"):
        import copy

        cur = copy.deepcopy(case)
    for key in sorted(cur["spec"].get("spelling") or {}):
        comp = key.split(".")[0]
        if comp != "headers" and comp != "sections" and cur["spec"].get(comp) is None:
            del cur["spec"]["spelling"][key]       # the spelling of a component that was dropped
            continue
        if tries >= budget:
            break
        tries += 1
        cand = _drop_spelling(cur, key)
        if fails(cand):
            cur = cand
    return cur


def _first_diff(a, b):
    if isinstance(a, list) and isinstance(b, list):
        if len(a) != len(b):
            return f"implementation has {len(a)} pages/items, model {len(b)}: impl={json.dumps(a)[:300]} model={json.dumps(b)[:300]}"
        for i, (x, y) in enumerate(zip(a, b)):
            if x != y:
                return f"item {i}: implementation {json.dumps(x)[:300]} vs model {json.dumps(y)[:300]}"
    return f"implementation {json.dumps(a)[:300]} vs model {json.dumps(b)[:300]}"


def replay_family(fam: Family, payload) -> int:
    case = payload.get("case") or {}
    if "spec" not in case:
        # an "unchecked" replay: the named theorem / correspondence no longer checks
        for b in payload.get("broken", []):
            print("no longer checks:", b.get("kind"), "-", (b.get("why") or b.get("log") or "")[:600])
            if b.get("kind") == "correspondence" and "case" in b:
                case = b["case"]
        if "spec" not in case:
            print(f"VIOLATION property={fam.prop} replay=<given> no-failing-input-found")
            return 1
    if case.get("cross"):
        from . import crosscorr

        return crosscorr.replay_cross(fam, case)
    o = common.pool_map(_worker, [(fam, 0, 0, "quick", dict(spec=case["spec"], info=case["info"],
                                                            history=case.get("history")))] * 4)[0]
    if "machinery" in o:
        print(o["machinery"])
        return 2
    if case.get("history"):
        print(f"(after {len(case['history'])} earlier document(s) encoded in the same process)")
    print("status:", o["status"])
    for i, p in enumerate(o.get("pages") or []):
        print(f" page {i + 1}: {json.dumps(p)[:400]}")
    bad = False
    for f in o.get("fails") or []:
        print("FAIL:", f)
        bad = True
    if o.get("ldoc") is not None and o["status"] == "ok":
        d = common.driver_batch([dict(op="layout", doc=o["ldoc"])])[0]
        a, b = fam.project(o["pages"], o["info"]), fam.project(d["pages"], o["info"])
        if a != b:
            print("MODEL DISAGREES:", _first_diff(a, b))
    if bad:
        print(f"VIOLATION property={fam.prop} replay=<given>")
        return 1
    print("property holds on this input")
    return 0


TRUSTED_COMMON = [
    "Lean 4.33 kernel; axioms ⊆ {propext, Classical.choice, Quot.sound} (audited per theorem on every run)",
    "Lean compiler for the driver executable (compiled evaluation agrees with kernel reduction)",
    "harness/rtfread.py + harness/laygen.py: Python RTF reader and sentinel-based block classification used to "
    "observe the real output",
    "harness/laygen.ldoc_of: the model's input (line estimates, keys, flags) is computed from the document by the "
    "harness with the real get_string_width",
]
ASSUME_COMMON = [
    "Pillow/FreeType string width, polars str()/row order/slicing and pydantic construction are parameters",
    "texts in generated documents stay ≥ 0.2 line away from line-band edges (float division not modelled)",
]
