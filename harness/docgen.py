"""Document specs (plain JSON) → real rtflite objects, plus seeded generators.

A *spec* is what replay files store.  Shape:
  {"kind": "table"|"multi"|"figure",
   "df": frame | [frame...]            frame = {"cols":[..], "rows":[[cell..]..]}  cells: str|int|float|None
                                       (optional "dtypes": {col: polars dtype name} — see pyvalue)
   "page": {kwargs}, "title": {kwargs}|None, "subline": ..., "page_header": ..., "page_footer": ...,
   "headers": "default" | [] | [{kwargs}...] | [[{kwargs}|None ...] ...],
   "body": {kwargs} | [{kwargs}...], "footnote": {kwargs}|None, "source": {kwargs}|None,
   "figure": {"files":[{"name":..,"hex":..}], ...kwargs}}
             one entry per POSITION of `figures`.  "name" may have directories; an entry without "hex" names a file
             another entry writes (the same file listed again, possibly spelled differently: "spell" is one of
             FIG_SPELLINGS; "name" may contain `..`); {"name":.., "symlink_to": target} makes a symbolic link.
   "share": {"body": [j…], "headers": [j…]}   kind="multi" only, optional: section i is handed the VERY SAME RTFBody /
             header-list object as section j = share[..][i] ≤ i (see `_shared_objects`); the per-section specs stay
Tuples (per-row attribute vectors) are written {"__tuple__": [...]}.
Other spellings of an attribute value that the constructors accept (array-likes) are written with a marker too:
  {"__ndarray__": x}    numpy.array(x)         x a scalar (0-d array), a flat list (1-D) or a nested list (2-D)
  {"__npscalar__": x}   the numpy scalar numpy.array([x])[0]   (numpy.str_ / int64 / float64 / bool_)
  {"__series__": [..]}  polars.Series([..])
  {"__frame__": [[..]]} polars.DataFrame(rows, orient="row")
`plain(v)` gives the plain scalar / list / nested list that binds to the cells in the same way.

Container spellings of the COMPONENT ARGUMENTS (optional key "spelling"; the spec itself stays in the plain shape above,
so every reader of spec["headers"], spec["title"]["text"] … is unaffected).  `build` spells the Python containers it
hands to the constructors accordingly (`SPELLINGS` lists what the constructors accept, `gen_spelling` draws from it):
  "headers":        "list" (what `build` does without the key) | "tuple" | "single" (exactly one row: the
                    RTFColumnHeader object itself); for nested (per-section) headers the OUTER container, "list" | "tuple"
  "headers.inner":  nested headers only: every section's container, "list" | "tuple"
                    (a tuple is refused at construction with AttributeError: recorded domain decision)
  "sections":       "list": a kind="table" document handed over as a one-section list, df=[frame], rtf_body=[RTFBody]
  "<comp>.text":    comp ∈ title subline page_header page_footer footnote source: "str" (one line only) | "list" | "tuple"
  "headers.text":   the cell texts of every header row: "list" | "tuple" | "frame" (a one-row polars frame) |
                    "str" (applies to one-cell rows)
  "body.<opt>":     opt ∈ group_by page_by subline_by (the column-name arguments of RTFBody; every body of a multi
                    document): "list" | "tuple" | "str" (applies to exactly one column name: the bare string)
  "body.<opt>@<i>": kind="multi": the same for the body of section i only (overrides "body.<opt>"), so that the
                    sections of one document — and the arguments of one body — mix spellings
  "page.margin":    "list" | "tuple"
  "<comp>.col_rel_width":  comp ∈ body headers footnote source: "list" | "tuple" | "ndarray" (a flat list of numbers)
  "figure.figures": the `figures=` list of paths: "list" | "tuple";  "figure.fig_width" / "figure.fig_height":
                    "list" | "tuple" | "ndarray" (applies to a list value)
`gen_spelling(..., args=True)` draws all of them (`ARG_SPELLINGS`).
"""
from __future__ import annotations

import io
import contextlib
import os
import tempfile
from pathlib import Path


MARKERS = ("__tuple__", "__ndarray__", "__npscalar__", "__series__", "__frame__")


def _numbers(x):
    """numeric payload of an array-like with one element type: if any number is a float, every number is (what
    numpy does by itself; polars refuses mixed int / float input)"""
    def flat(y):
        if isinstance(y, list):
            for z in y:
                yield from flat(z)
        else:
            yield y

    def conv(y):
        if isinstance(y, list):
            return [conv(z) for z in y]
        return float(y) if isinstance(y, int) and not isinstance(y, bool) else y
    return conv(x) if any(isinstance(y, float) for y in flat(x)) else x


def _arraylike(v):
    """the array-like object a spelling marker stands for (None: `v` carries no such marker)"""
    if "__ndarray__" in v:
        import numpy as np
        return np.array(_numbers(v["__ndarray__"]))
    if "__npscalar__" in v:
        import numpy as np
        return np.array([v["__npscalar__"]])[0]
    if "__series__" in v:
        import polars as pl
        return pl.Series(_numbers(v["__series__"]))
    if "__frame__" in v:
        import polars as pl
        return pl.DataFrame(_numbers(v["__frame__"]), orient="row")
    return None


def plain(v):
    """the attribute value spelled with Python scalars and lists only, binding to the cells as the spelling `v`
    does: a scalar (also a numpy scalar / 0-d array) applies to every cell, a flat list (also a 1-D array / Series)
    is one value per column, a tuple one value per row ([[x], …]), a nested list (2-D array, frame) a matrix"""
    if not isinstance(v, dict):
        return v
    if "__tuple__" in v:
        return [[x] for x in v["__tuple__"]]
    for k in ("__ndarray__", "__npscalar__", "__series__", "__frame__"):
        if k in v:
            return v[k]
    return v


def _untuple(v):
    if isinstance(v, dict) and "__tuple__" in v:
        return tuple(_untuple(x) for x in v["__tuple__"])
    if isinstance(v, dict) and len(v) == 1:
        a = _arraylike(v)
        if a is not None:
            return a
    if isinstance(v, list):
        return [_untuple(x) for x in v]
    if isinstance(v, dict):
        return {k: _untuple(x) for k, x in v.items()}
    return v


def pyvalue(v, dt):
    """python value that polars hands out (`series[i]`) for JSON cell `v` of a column with explicit dtype `dt`
    (frame key "dtypes": {column: name}).  JSON forms: Date 'YYYY-MM-DD', Datetime ISO, Time 'HH:MM:SS[.ffffff]',
    Decimal:<scale> a decimal string, Float32 a float (rounded to binary32 here), integer types ints, Boolean bools,
    Categorical / String strings; "Null" (polars' untyped all-null column: every cell None) and "Object" (python
    values as they are: str / int / float / bool / None side by side) — see harness/datashapes.py."""
    if v is None:
        return None
    if dt == "Date":
        import datetime
        return datetime.date.fromisoformat(v)
    if dt == "Datetime":
        import datetime
        return datetime.datetime.fromisoformat(v)
    if dt == "Time":
        import datetime
        return datetime.time.fromisoformat(v)
    if dt.startswith("Decimal"):
        import decimal
        scale = int(dt.split(":")[1])
        return decimal.Decimal(v).quantize(decimal.Decimal(1).scaleb(-scale))
    if dt == "Float32":
        import struct
        return struct.unpack("f", struct.pack("f", float(v)))[0]
    if dt == "Float64":
        return float(v)
    return v


def cell_str(fr, j, v) -> str:
    """`str(df[col][i])` of cell `v` in column index j of frame spec `fr` — what calculate_row_metadata measures and
    (for non-null values) what the renderer shows; identical to str(v) when the frame declares no dtypes"""
    dts = fr.get("dtypes")
    if dts and fr["cols"][j] in dts:
        return str(pyvalue(v, dts[fr["cols"][j]]))
    return str(v)


def _typed_series(c, vals, dt):
    import polars as pl

    if dt.startswith("Decimal"):
        pdt = pl.Decimal(precision=38, scale=int(dt.split(":")[1]))
    elif dt == "Datetime":
        pdt = pl.Datetime("us")
    else:
        pdt = getattr(pl, dt)
    pv = [pyvalue(v, dt) for v in vals]
    if dt == "Categorical":
        return pl.Series(c, pv, dtype=pl.Utf8).cast(pl.Categorical)
    return pl.Series(c, pv, dtype=pdt)


def make_frame(fr):
    import polars as pl

    cols = fr["cols"]
    rows = fr["rows"]
    dts = fr.get("dtypes") or {}
    data = {}
    for j, c in enumerate(cols):
        vals = [r[j] for r in rows]
        if c in dts:
            data[c] = _typed_series(c, vals, dts[c])
            continue
        nn = [v for v in vals if v is not None]
        if nn and all(isinstance(v, bool) for v in nn):
            dt = pl.Boolean
        elif nn and all(isinstance(v, int) and not isinstance(v, bool) for v in nn):
            dt = pl.Int64
        elif nn and all(isinstance(v, (int, float)) and not isinstance(v, bool) for v in nn):
            dt = pl.Float64
            vals = [None if v is None else float(v) for v in vals]
        else:
            dt = pl.Utf8
            vals = [None if v is None else str(v) for v in vals]
        data[c] = pl.Series(c, vals, dtype=dt)
    return pl.DataFrame(data)


def display(v) -> str:
    """display text of a frame value as the renderer shows it (str(value); null → '')"""
    if v is None:
        return ""
    return str(v)


def _kw(d):
    return {k: _untuple(v) for k, v in (d or {}).items()}


FIG_SPELLINGS = ("str", "path", "rel", "relpath", "dot", "dotdot")


def spell_path(p: Path, how=None):
    """one file, several ways of naming it to `RTFFigure(figures=…)`: absolute str (default) / Path object, relative
    to the current directory (str / Path), with a `.` or a `..` component (str: pathlib would fold the `.`)"""
    if how in (None, "str"):
        return str(p)
    if how == "path":
        return p
    if how == "rel":
        return os.path.relpath(p)
    if how == "relpath":
        return Path(os.path.relpath(p))
    if how == "dot":
        return os.path.join(str(p.parent), ".", p.name)
    if how == "dotdot":
        return os.path.join(str(p.parent), "..", p.parent.name, p.name)
    raise ValueError(f"unknown path spelling {how!r}")


# ----------------------------------------------------------------------------- container spellings

TEXT_COMPONENTS = ("title", "subline", "page_header", "page_footer", "footnote", "source")
SPELLINGS = {
    "headers": ("list", "tuple", "single"),
    "headers.inner": ("list", "tuple"),
    "sections": ("list",),
    "headers.text": ("list", "tuple", "frame", "str"),
    **{f"{c}.text": ("str", "list", "tuple") for c in TEXT_COMPONENTS},
    **{f"body.{c}": ("list", "tuple", "str") for c in ("group_by", "page_by", "subline_by")},
}
BODY_NAME_ARGS = ("group_by", "page_by", "subline_by")
WIDTH_COMPONENTS = ("body", "headers", "footnote", "source")
# the other container-typed constructor arguments (what the constructors accept was probed on the real classes: a
# polars Series / numpy array is refused for the Sequence[...] fields — names, texts, margin —, taken for the widths)
ARG_SPELLINGS = {
    "page.margin": ("list", "tuple"),
    **{f"{c}.col_rel_width": ("list", "tuple", "ndarray") for c in WIDTH_COMPONENTS},
    "figure.figures": ("list", "tuple"),
    "figure.fig_width": ("list", "tuple", "ndarray"),
    "figure.fig_height": ("list", "tuple", "ndarray"),
}
SPELLINGS.update(ARG_SPELLINGS)


def _known_spelling(k, v):
    if "@" in k:                                   # "body.<opt>@<i>": one section's body
        base, _, i = k.partition("@")
        return base in SPELLINGS and base.startswith("body.") and base[5:] in BODY_NAME_ARGS and i.isdigit() \
            and v in SPELLINGS[base]
    return k in SPELLINGS and v in SPELLINGS[k]


def spell_seq(v, how):
    """a flat list value `v` in the container spelling `how` (any other value — a scalar, a marker dict, a nested
    list — is left as it is)"""
    if how is None or not isinstance(v, list) or any(isinstance(x, (list, dict)) for x in v):
        return v
    if how == "tuple":
        return tuple(v)
    if how == "ndarray":
        if not v or not all(isinstance(x, (int, float)) and not isinstance(x, bool) for x in v):
            return v
        import numpy as np
        return np.array([float(x) for x in v])
    return list(v)


def _body_kw(d, sp, i=None):
    """constructor kwargs of one RTFBody (of section `i` of a multi document); the column-name arguments in the
    container spelling sp["body.<opt>@<i>"] / sp["body.<opt>"]"""
    kw = _kw(d)
    if "col_rel_width" in kw:
        kw["col_rel_width"] = spell_seq(kw["col_rel_width"], (sp or {}).get("body.col_rel_width"))
    for c in BODY_NAME_ARGS:
        how = (sp or {}).get(f"body.{c}@{i}") or (sp or {}).get(f"body.{c}")
        v = (d or {}).get(c)
        if how is None or not isinstance(v, list):
            continue
        if how == "tuple":
            kw[c] = tuple(v)
        elif how == "str" and len(v) == 1:
            kw[c] = v[0]
        else:
            kw[c] = list(v)
    return kw


def _lines(v):
    """the lines of a `text=` value written as a string or a list of strings (None: any other value — a marker
    dict, null, numbers — which no spelling touches)"""
    if isinstance(v, str):
        return [v]
    if isinstance(v, list) and all(isinstance(x, str) for x in v):
        return list(v)
    return None


def spell_text(v, how):
    """the `text=` value `v` (string | list of strings) in the container spelling `how`: the same lines as a string
    (one line only), a list, a tuple or a one-row polars frame"""
    lines = _lines(v)
    if lines is None or how is None:
        return v
    if how == "str":
        return lines[0] if len(lines) == 1 else v
    if how == "list":
        return lines
    if how == "tuple":
        return tuple(lines)
    if how == "frame":
        if not lines:
            return v
        import polars as pl
        return pl.DataFrame([lines], orient="row")
    raise ValueError(f"unknown text spelling {how!r}")


def _spelled_kw(d, how, widths=None):
    kw = _kw(d)
    if how is not None and "text" in (d or {}):
        kw["text"] = spell_text(d["text"], how)
    if widths is not None and "col_rel_width" in kw:
        kw["col_rel_width"] = spell_seq(kw["col_rel_width"], widths)
    return kw


def _container(items, how):
    if how in (None, "list"):
        return list(items)
    if how == "tuple":
        return tuple(items)
    raise ValueError(f"unknown container spelling {how!r}")


def own_widths_class(h):
    """do the explicit header rows carry their own col_rel_width: 'none' | 'all' | 'mixed' ('-' without rows)"""
    if h == "default" or not h:
        return "-"
    rows = [x for sec in h for x in sec] if isinstance(h[0], list) else list(h)
    own = [isinstance(x, dict) and x.get("col_rel_width") is not None for x in rows if x is not None]
    if not own:
        return "-"
    return "all" if all(own) else "none" if not any(own) else "mixed"


def gen_spelling(rng, spec, *, p=0.6, force=None, args=False):
    """Draw a container spelling for every component argument of `spec` the constructors accept one for (each with
    probability `p`, otherwise the spelling `build` uses by itself); `force` fixes some keys.  Only spellings that
    mean the same document are drawn (a tuple of sections' tuples is left to the callers that want the refusal).
    `args=True` (drawn AFTER the keys above, whose draws are unaffected) adds every other container-typed constructor
    argument: the column-name arguments of every body (`body.<opt>`, per section `body.<opt>@<i>` in a multi document,
    each argument on its own so that list / tuple / str are mixed on one body), the page margin, the col_rel_width of
    body / headers / footnote / source, the figure list and its size lists.
    Returns the dict to store as spec["spelling"]."""
    sp = {}
    kind = spec.get("kind", "table")
    h = spec.get("headers", "default")
    if kind != "figure" and h != "default":
        nested = bool(h) and isinstance(h[0], list)
        if rng.random() < p:
            pool = ["tuple"] if nested else ["tuple", "tuple", "single"] if len(h) == 1 else ["tuple"]
            sp["headers"] = rng.choice(pool)
        rows = [x for sec in h for x in sec] if nested else list(h)
        if any(isinstance(x, dict) and _lines(x.get("text")) for x in rows) and rng.random() < p:
            one = all(len(_lines(x["text"]) or []) == 1 for x in rows if isinstance(x, dict) and _lines(x.get("text")))
            sp["headers.text"] = rng.choice(["tuple", "tuple", "frame"] + (["str"] if one else []))
    if kind == "table" and rng.random() < p / 2:
        sp["sections"] = "list"
    for c in TEXT_COMPONENTS:
        d = spec.get(c)
        if isinstance(d, dict) and _lines(d.get("text")) is not None and rng.random() < p:
            lines = _lines(d["text"])
            cur = "str" if isinstance(d["text"], str) else "list"
            pool = [x for x in (["str"] if len(lines) == 1 else []) + ["list", "tuple", "tuple"] if x != cur]
            sp[f"{c}.text"] = rng.choice(pool)
    if args:
        sp.update(gen_arg_spelling(rng, spec, p=p))
    sp.update(force or {})
    return sp


def gen_arg_spelling(rng, spec, *, p=0.6):
    """container spellings of the constructor arguments other than texts and header containers (see `gen_spelling`)"""
    sp = {}
    kind = spec.get("kind", "table")

    def names(b, suffix):
        for c in BODY_NAME_ARGS:
            v = (b or {}).get(c)
            if isinstance(v, list) and v and rng.random() < max(p, 0.75):
                sp[f"body.{c}{suffix}"] = rng.choice(["tuple", "tuple", "tuple", "str"] if len(v) == 1 else ["tuple"])

    def flat(v):
        return isinstance(v, list) and bool(v) and not any(isinstance(x, (list, dict)) for x in v)
    if kind == "multi":
        for i, b in enumerate(spec.get("body") or []):
            names(b, f"@{i}")
        bodies = list(spec.get("body") or [])
    elif kind == "table":
        names(spec.get("body"), "")
        bodies = [spec.get("body") or {}]
    else:
        bodies = [spec.get("body") or {}] if isinstance(spec.get("body"), dict) else []
    if flat((spec.get("page") or {}).get("margin")) and rng.random() < p:
        sp["page.margin"] = "tuple"
    h = spec.get("headers", "default")
    hrows = [] if h == "default" or not h else [x for sec in h for x in sec] if isinstance(h[0], list) else list(h)
    for comp, items in (("body", bodies), ("headers", hrows), ("footnote", [spec.get("footnote")]),
                        ("source", [spec.get("source")])):
        if any(isinstance(x, dict) and flat(x.get("col_rel_width")) for x in items) and rng.random() < p:
            sp[f"{comp}.col_rel_width"] = rng.choice(["tuple", "tuple", "ndarray"])
    if kind == "figure":
        fig = spec.get("figure") or {}
        if len(fig.get("files") or []) != 1 or fig.get("_as_list"):
            if rng.random() < p:
                sp["figure.figures"] = "tuple"
        for a in ("fig_width", "fig_height"):
            if flat(fig.get(a)) and rng.random() < p:
                sp[f"figure.{a}"] = rng.choice(["tuple", "ndarray"])
    return sp


def spelling_labels(spec):
    """input-distribution labels of a spec's container spellings (for res.count)"""
    sp = spec.get("spelling") or {}
    out = sorted({f"spell:{k.partition('@')[0]}={v}" for k, v in sp.items()})
    mix = set()
    named = [k for k in sp if k.startswith("body.") and k[5:].partition("@")[0] in BODY_NAME_ARGS]
    for i in sorted({k.partition("@")[2] for k in named}):       # per body: do its name arguments mix containers?
        bodies = spec.get("body") if i else [spec.get("body")]
        b = (bodies[int(i)] if i and isinstance(bodies, list) and int(i) < len(bodies) else bodies[0]) or {}
        kinds = {("list" if (sp.get(f"body.{c}@{i}") or sp.get(f"body.{c}") or "list") == "str" else
                  sp.get(f"body.{c}@{i}") or sp.get(f"body.{c}") or "list")
                 for c in BODY_NAME_ARGS if isinstance(b, dict) and b.get(c)}
        if kinds:
            mix.add("spell:body-names=" + "+".join(sorted(kinds)))
    out += sorted(mix)
    if sp.get("headers") in ("tuple", "single") or sp.get("sections"):
        out.append(f"spell:headers={sp.get('headers', 'list')}/own-widths={own_widths_class(spec.get('headers', 'default'))}")
    return out


def _shared_objects(items, share, make, what, indexed=False):
    """one constructed object per entry of `items` — or, with `share` (optional spec key "share": {"body": [...],
    "headers": [...]}, kind="multi" only), the VERY SAME object for several sections: share[i] = j ≤ i hands section i
    the object built for section j (j = i: its own object).  The components of a document are held by reference, and a
    caller may give one RTFBody (one header list with its RTFColumnHeader objects) for several sections of a list
    document.  The spec stays in the plain per-section shape (items[i] must equal items[j]), so every reader of
    spec["body"][i] / spec["headers"][i] is unaffected."""
    if indexed:
        made, make = make, (lambda x: made(x, len(out)))
    out = []
    if share is None:
        for x in items:
            out.append(make(x))
        return out
    if len(share) != len(items):
        raise ValueError(f"share.{what}: one entry per section expected")
    for i, x in enumerate(items):
        j = share[i]
        if not isinstance(j, int) or j < 0 or j > i or share[j] != j:
            raise ValueError(f"share.{what}[{i}] = {j!r}: the index of an earlier section that owns its object expected")
        if j != i and items[j] != x:
            raise ValueError(f"share.{what}[{i}] = {j}: the two sections' specs differ")
        out.append(make(x) if j == i else out[j])
    return out


def share_labels(spec):
    """input-distribution labels of a multi-section spec's shared objects (for res.count)"""
    out = []
    for what, sh in sorted((spec.get("share") or {}).items()):
        if sh is None:
            continue
        users = [sum(1 for j in sh if j == i) for i in sorted(set(sh))]
        out.append(f"shared-{what}:{'none' if max(users, default=1) < 2 else 'x%d' % min(max(users), 4)}")
    return out


def build(spec, workdir: str | None = None):
    """Construct the RTFDocument described by spec (raises what the constructors raise)."""
    import rtflite as rtf

    kw = {}
    kind = spec.get("kind", "table")
    sp = spec.get("spelling") or {}
    for k, v in sp.items():
        if not _known_spelling(k, v):
            raise ValueError(f"unknown container spelling {k}={v!r}")
    if kind == "figure":
        fig = dict(spec["figure"])
        files = fig.pop("files")
        wd = Path(workdir or tempfile.mkdtemp(prefix="rtfv_fig_"))
        paths = []
        for i, f in enumerate(files):          # every file is on disk before any path is handed over
            p = wd / f["name"]
            if "hex" in f or "symlink_to" in f:
                p.parent.mkdir(parents=True, exist_ok=True)
                if p.is_symlink():             # a link left by an earlier document: never write through it
                    p.unlink()
            if "hex" in f:
                p.write_bytes(bytes.fromhex(f["hex"]))
            elif "symlink_to" in f:
                os.symlink(f["symlink_to"], p)  # target relative to the link's directory
        for i, f in enumerate(files):
            paths.append(spell_path(wd / f["name"], f.get("spell")))
        figs = paths if len(paths) != 1 or fig.pop("_as_list", False) else paths[0]
        fkw = _kw(fig)
        for a in ("fig_width", "fig_height"):
            if a in fkw:
                fkw[a] = spell_seq(fkw[a], sp.get(f"figure.{a}"))
        kw["rtf_figure"] = rtf.RTFFigure(figures=spell_seq(figs, sp.get("figure.figures")), **fkw)
    elif kind == "multi":
        kw["df"] = [make_frame(f) for f in spec["df"]]
        kw["rtf_body"] = _shared_objects(spec["body"], (spec.get("share") or {}).get("body"),
                                         lambda b, i: rtf.RTFBody(**_body_kw(b, sp, i)), "body", indexed=True)
    else:
        kw["df"] = make_frame(spec["df"])
        if spec.get("body") is not None:
            kw["rtf_body"] = rtf.RTFBody(**_body_kw(spec["body"], sp))
        if sp.get("sections") == "list":
            # the same table handed over as a one-section list (rtf_body must then be a list too)
            kw["df"] = [kw["df"]]
            kw["rtf_body"] = [kw["rtf_body"] if "rtf_body" in kw else rtf.RTFBody()]
    if spec.get("page") is not None:
        pkw = _kw(spec["page"])
        if "margin" in pkw:
            pkw["margin"] = spell_seq(pkw["margin"], sp.get("page.margin"))
        kw["rtf_page"] = rtf.RTFPage(**pkw)
    for key, cls, arg in (("title", rtf.RTFTitle, "rtf_title"), ("subline", rtf.RTFSubline, "rtf_subline"),
                          ("page_header", rtf.RTFPageHeader, "rtf_page_header"),
                          ("page_footer", rtf.RTFPageFooter, "rtf_page_footer"),
                          ("footnote", rtf.RTFFootnote, "rtf_footnote"), ("source", rtf.RTFSource, "rtf_source")):
        if spec.get(key) is not None:
            kw[arg] = cls(**_spelled_kw(spec[key], sp.get(f"{key}.text"), sp.get(f"{key}.col_rel_width")))
    h = spec.get("headers", "default")
    if h != "default" and kind != "figure":
        def mk(x):
            return None if x is None else rtf.RTFColumnHeader(**_spelled_kw(x, sp.get("headers.text"),
                                                                            sp.get("headers.col_rel_width")))
        if h and isinstance(h[0], list):
            inner = _shared_objects(h, (spec.get("share") or {}).get("headers") if kind == "multi" else None,
                                    lambda sec: _container([mk(x) for x in sec], sp.get("headers.inner")), "headers")
            kw["rtf_column_header"] = _container(inner, sp.get("headers"))
        elif sp.get("headers") == "single":
            if len(h) != 1:
                raise ValueError("spelling headers=single needs exactly one header row")
            kw["rtf_column_header"] = mk(h[0])
        else:
            kw["rtf_column_header"] = _container([mk(x) for x in h], sp.get("headers"))
    return rtf.RTFDocument(**kw)


def classify_exc(e: BaseException) -> str:
    import pydantic

    if isinstance(e, pydantic.ValidationError):
        return "ValidationError"
    return type(e).__name__


def encode(spec, workdir=None):
    """('ok', rtf string) | ('construct-error'|'encode-error', ExcClass, message)"""
    try:
        with contextlib.redirect_stdout(io.StringIO()):
            doc = build(spec, workdir)
    except Exception as e:  # noqa: BLE001
        return ("construct-error", classify_exc(e), str(e)[:300])
    try:
        with contextlib.redirect_stdout(io.StringIO()):
            s = _encode_with_deadline(doc)
    except Exception as e:  # noqa: BLE001
        return ("encode-error", classify_exc(e), str(e)[:300])
    return ("ok", s)


ENCODE_DEADLINE_S = 180


def _encode_with_deadline(doc):
    """rtf_encode() under a deadline where one can be armed (main thread of the process): an encoder that does not
    return is reported as an encode error of class `Hang`, which every check treats like any other refusal of an
    accepted configuration — instead of a check that never ends"""
    import threading

    from . import common

    if threading.current_thread() is not threading.main_thread():
        return doc.rtf_encode()
    with common.deadline(ENCODE_DEADLINE_S):
        return doc.rtf_encode()


# ----------------------------------------------------------------------------- generators

def tagged_frame(rng, nrows, ncols, tag="r", nulls=0.0, pad=0.0, kinds=("tag",), colnames=None):
    """Frame whose every cell carries a unique sentinel `r{i}c{j}` (so rows can be identified in
    the output without trusting the layout).  kinds may add ints/floats columns (still unique)."""
    cols = colnames or [f"c{j}" for j in range(ncols)]
    rows = []
    for i in range(nrows):
        row = []
        for j in range(ncols):
            if rng.random() < nulls:
                row.append(None)
                continue
            s = f"{tag}{i}c{j}"
            if rng.random() < pad:
                s = " " * rng.randint(1, 2) + s + " " * rng.randint(0, 2)
            row.append(s)
        rows.append(row)
    return {"cols": cols, "rows": rows}


def run_keys(rng, n, alphabet, min_run=1, max_run=6):
    """sorted-by-runs key column: consecutive runs of distinct values (contiguous groups)"""
    out = []
    pool = list(alphabet)
    rng.shuffle(pool)
    k = 0
    while len(out) < n:
        v = pool[k % len(pool)] if k < len(pool) else f"{pool[k % len(pool)]}{k // len(pool)}"
        out += [v] * rng.randint(min_run, max_run)
        k += 1
    return out[:n]
