"""Unit-level byte correspondence of the emitter core (used by C01):
real `Row(...)._as_rtf()`, `TextContent._as_rtf("paragraph")`, `TextAttributes._encode_text(..., "line")`
versus `Model/Emit.lean` printed by the driver.

The harness computes the *resolved* integers the model takes from the raw attribute values with its own
re-implementation of the documented formulas (half-points, colour index, code-table look-ups, twips); any slip in
that glue shows as a byte mismatch (fail-safe).
"""
from __future__ import annotations

from . import common
from .props.c01 import parse_nodes

COLORS = ["", "black", "red", "blue", "gold", "gray50", "navy"]
FORMATS = ["", "b", "i", "bi", "ub", "s^", "_", "ibu", "bb"]
JUST = ["l", "c", "r", "j", "d", ""]
BORDERS = ["single", "double", "dotted", "dashed", "thick", "", "wavy", "triple"]
VALIGN = ["top", "center", "bottom", "merge_first", "merge_rest", ""]
TEXTS = ["x", "", "a b  c", " lead", "trail ", "café", "α≥β", "😀", "m^2", "x_1", "a>=b", "line1\nline2",
         "\\alpha + \\beta", "Page \\pagenumber of \\totalpage", "\\pagefield", "1.5", "-", "--", "(n=5)", "5"]


def rnd_text_kw(rng):
    return dict(
        text=rng.choice(TEXTS), font=rng.randint(1, 10), size=rng.choice([6, 8, 9, 9.5, 10.5, 12, 24]),
        format=rng.choice(FORMATS) or None, color=rng.choice(COLORS) or None,
        background_color=rng.choice(COLORS) or None, justification=rng.choice(JUST),
        indent_first=rng.choice([0, 120, -360]), indent_left=rng.choice([0, 100]), indent_right=rng.choice([0, 90]),
        space=rng.choice([1, 1, 2, 3]), space_before=rng.choice([15, 0, 180]), space_after=rng.choice([15, 7]),
        convert=rng.random() < 0.7, hyphenation=rng.random() < 0.5)


def _master_index(name):
    from rtflite.dictionary.color_table import name_to_type

    return name_to_type[name]


def resolve_text(kw, converted: str):
    """(TextFmt JSON, body nodes) from TextContent kwargs and the implementation's converted text"""
    from rtflite.core.constants import RTFConstants as K

    def col(c):
        if not c:
            return None                    # falsy colour: no control word at all
        return 0 if c == "black" else _master_index(c)
    fmt = kw.get("format")
    words = []
    if fmt:
        for ch in sorted(set(fmt)):
            w = K.FORMAT_CODES[ch].lstrip("\\")
            if w:
                words.append(w)
    sp = kw["space"]
    t = dict(hyph=bool(kw["hyphenation"]), sb=kw["space_before"], sa=kw["space_after"],
             sl=None if sp == 1 else int(sp * 240),
             fi=round((kw["indent_first"] / 1440) * 1440), li=round((kw["indent_left"] / 1440) * 1440),
             ri=round((kw["indent_right"] / 1440) * 1440),
             just=K.TEXT_JUSTIFICATION_CODES[kw["justification"]].lstrip("\\"),
             halfPts=int(kw["size"] * 2), fontIdx=kw["font"] - 1, color=col(kw.get("color")),
             bg=col(kw.get("background_color")), formats=words)
    return t, parse_nodes(converted)


def resolve_border(style, width=15, color=None):
    from rtflite.core.constants import RTFConstants as K

    return dict(style=K.BORDER_CODES[style].lstrip("\\"), width=width,
                color=None if color is None else (0 if color in ("", "black") else _master_index(color)))


def _row_worker(args):
    seed, k = args
    try:
        from rtflite.row import Border, Cell, Row, TextContent
        from rtflite.core.constants import RTFConstants as K

        rng = common.sub_rng(seed, "emitrow", k)
        ncell = rng.randint(1, 5)
        cells, jcells = [], []
        x = 0.0
        for j in range(ncell):
            kw = rnd_text_kw(rng)
            tc = TextContent(**kw)
            conv = tc._convert_special_chars()
            x += rng.choice([0.5, 1.0, 1.25, 2.3])
            sides = {}
            jb = {}
            for side in ("left", "top", "right", "bottom"):
                if rng.random() < 0.2:
                    sides["border_" + side] = None
                    jb[side] = None
                else:
                    st = rng.choice(BORDERS)
                    w = rng.choice([15, 10, 30])
                    c = rng.choice([None, "red", "blue", ""])
                    sides["border_" + side] = Border(style=st, width=w, color=c)
                    jb[side] = resolve_border(st, w, c)
            va = rng.choice(VALIGN + [None])
            cells.append(Cell(text=tc, width=x, vertical_justification=va, **sides))
            t, body = resolve_text(kw, conv)
            vwords = [] if va is None else [w for w in K.VERTICAL_ALIGNMENT_CODES[va].split("\\") if w]
            jcells.append(dict(left=jb["left"], top=jb["top"], right=jb["right"], bottom=jb["bottom"], valign=vwords,
                               cellx=round(x * 1440), text=t, body=body))
        h = rng.choice([0.15, 0.2, 0.3, 0.05])
        rj = rng.choice(["l", "c", "r", ""])
        row = Row(row_cells=cells, justification=rj, height=h)
        real = "\n".join(row._as_rtf())
        jrow = dict(gaph=int(round(h * 1440) / 2), just=K.ROW_JUSTIFICATION_CODES[rj].lstrip("\\"), cells=jcells)
        return dict(kind="row", real=real, req=dict(op="emit_row", row=jrow))
    except (ImportError, AttributeError, TypeError) as e:
        return dict(unavailable=f"{type(e).__name__}: {e}")


def _para_worker(args):
    seed, k = args
    try:
        from rtflite.row import TextContent
        from rtflite.attributes import TextAttributes

        rng = common.sub_rng(seed, "emitpara", k)
        if k % 2 == 0:
            kw = rnd_text_kw(rng)
            tc = TextContent(**kw)
            real = tc._as_rtf("paragraph")
            t, body = resolve_text(kw, tc._convert_special_chars())
            return dict(kind="para", real=real, req=dict(op="emit_para", mode="paragraph", fmt=t, body=body))
        n = rng.randint(1, 3)
        kws = [rnd_text_kw(rng) for _ in range(n)]
        import rtflite as rtf

        ta = rtf.RTFTitle(
            text=[k_["text"] for k_ in kws],
            text_font=[k_["font"] for k_ in kws], text_format=[k_["format"] or "" for k_ in kws],
            text_font_size=[k_["size"] for k_ in kws], text_color=[k_["color"] or "" for k_ in kws],
            text_background_color=[k_["background_color"] or "" for k_ in kws],
            text_justification=[k_["justification"] for k_ in kws],
            text_indent_first=[k_["indent_first"] for k_ in kws], text_indent_left=[k_["indent_left"] for k_ in kws],
            text_indent_right=[k_["indent_right"] for k_ in kws], text_space=[k_["space"] for k_ in kws],
            text_space_before=[k_["space_before"] for k_ in kws], text_space_after=[k_["space_after"] for k_ in kws],
            text_hyphenation=[k_["hyphenation"] for k_ in kws], text_convert=[k_["convert"] for k_ in kws])
        real = ta._encode_text(text=ta.text, method="line")
        lines = []
        for k_ in kws:
            k2 = dict(k_)
            k2["format"] = k_["format"] or None
            k2["color"] = k_["color"] or None
            k2["background_color"] = k_["background_color"] or None
            tc = TextContent(**k2)
            t, body = resolve_text(k2, tc._convert_special_chars())
            lines.append(dict(fmt=t, body=body))
        return dict(kind="lines", real=real, req=dict(op="emit_para", mode="line", lines=lines))
    except (ImportError, AttributeError, TypeError) as e:
        return dict(unavailable=f"{type(e).__name__}: {e}")


def run(res: common.Result, tier: str):
    nrow = 600 if tier == "quick" else 12000
    npara = 400 if tier == "quick" else 8000
    outs = common.pool_map(_row_worker, [(res.seed, k) for k in range(nrow)], chunksize=32)
    outs += common.pool_map(_para_worker, [(res.seed, k) for k in range(npara)], chunksize=32)
    un = [o for o in outs if "unavailable" in o]
    if un:
        res.notes.append("emitter unit correspondence unavailable: " + un[0]["unavailable"])
        res.count("emit_unit_unavailable", len(un))
    live = [o for o in outs if "unavailable" not in o]
    drv = common.driver_batch([o["req"] for o in live])
    for o, d in zip(live, drv):
        res.count("emit_unit:" + o["kind"])
        res.corr_checked += 1
        res.evaluations += 1
        case = dict(level="emit-unit", kind=o["kind"], request=o["req"], real=o["real"])
        if d["text"] != o["real"]:
            a, b = d["text"], o["real"]
            i = next((j for j in range(min(len(a), len(b))) if a[j] != b[j]), min(len(a), len(b)))
            res.disagree(case, f"emitter model prints {a[max(0, i - 25):i + 25]!r} where the real {o['kind']} emitter "
                               f"writes {b[max(0, i - 25):i + 25]!r} (offset {i})")
        elif o["kind"] == "row" and not (d["rowOk"] and d["uForm"]):
            res.disagree(case, f"side condition of the emitter theorems fails on a real row: rowOk={d['rowOk']} "
                               f"uForm={d['uForm']}")
        elif o["kind"] != "row" and not d["ok"]:
            res.disagree(case, "side condition of the paragraph theorem fails on a real paragraph")
