"""Cell texts with characters at and around the range boundaries a text pipeline can have.

A writer that turns text into RTF decides per character: 7-bit or not (U+007F / U+0080), one byte or not
(U+00FF / U+0100), positive or negative as a signed 16-bit `\\uN` (U+7FFF / U+8000), below / above the surrogate block
(U+D7FF / U+E000), one UTF-16 unit or a surrogate pair (U+FFFF / U+10000), which high / low surrogate (U+103FF /
U+10400: the low surrogate wraps; U+10FC00: the last high surrogate), the last code point (U+10FFFF); an encoder in
between has its own (UTF-8 length: U+07FF / U+0800).  Every such decision has an off-by-one mutant that changes ONE
code point, so the pools below hold every boundary point with its neighbours, and `draw_text` puts them alone in a
cell, after / before / between ASCII, next to each other, and mixed with random BMP and astral characters.

No C0 controls and no surrogates (a polars string is valid UTF-8); nothing here contains \\ { } ^ _ >= <= or a LaTeX
command, so the texts are conversion-neutral and valid under text_convert on and off.

Pure Python: importable in a check's parent process.
"""
from __future__ import annotations

# (label, code points at and around the boundary)
BOUNDARIES = [
    ("7bit", [0x7E, 0x7F, 0x80, 0x81]),                 # last ASCII / DEL / first non-ASCII (first C1 control)
    ("c1-latin1", [0x9F, 0xA0, 0xA1, 0xAD, 0xB1]),      # last C1 control / NBSP; soft hyphen; 177 (r2rtf's special case)
    ("1byte", [0xFE, 0xFF, 0x100, 0x101]),              # last Latin-1 / first beyond one byte
    ("utf8-2to3", [0x7FF, 0x800]),                      # UTF-8 length changes
    ("signed16", [0x7FFE, 0x7FFF, 0x8000, 0x8001]),     # last positive / first negative signed 16-bit \uN
    ("surrogate-gap", [0xD7FE, 0xD7FF, 0xE000, 0xE001]),
    ("bmp-end", [0xFEFF, 0xFFFC, 0xFFFD, 0xFFFE, 0xFFFF]),
    ("astral-start", [0x10000, 0x10001, 0x10002]),      # first surrogate pair D800 DC00
    ("low-surrogate-wrap", [0x103FE, 0x103FF, 0x10400, 0x10401]),   # D800 DFFF / D801 DC00
    ("plane-edges", [0x1FFFF, 0x20000, 0xFFFFF, 0x100000]),
    ("last-high-surrogate", [0x10FBFF, 0x10FC00]),      # DBFE DFFF / DBFF DC00
    ("last", [0x10FFFD, 0x10FFFE, 0x10FFFF]),
]
BOUNDARY_POINTS = sorted({c for _, cs in BOUNDARIES for c in cs})
_LABEL_OF = {c: lab for lab, cs in BOUNDARIES for c in cs}

# ranges for random characters: (label, lo, hi) — printable-ish blocks and the whole planes
RANGES = [
    ("latin1", 0xA1, 0xFF), ("latin-ext", 0x100, 0x24F), ("greek-cyrillic", 0x370, 0x4FF), ("bmp-low", 0x500, 0x7FFF),
    ("bmp-high", 0x8000, 0xD7FF), ("private-compat", 0xE000, 0xFFFF), ("astral-1", 0x10000, 0x1FFFF),
    ("astral-2+", 0x20000, 0xEFFFF), ("astral-private", 0xF0000, 0x10FFFF),
]


def cp_class(c: int) -> str:
    """coarse class of a code point, for the input-distribution labels"""
    if c in _LABEL_OF:
        return "boundary:" + _LABEL_OF[c]
    if c < 0x80:
        return "ascii"
    if c < 0x100:
        return "latin1"
    if c < 0x8000:
        return "bmp<8000"
    if c < 0x10000:
        return "bmp>=8000"
    return "astral"


def random_char(rng) -> str:
    _, lo, hi = rng.choice(RANGES)
    return chr(rng.randint(lo, hi))


def boundary_char(rng) -> str:
    return chr(rng.choice(BOUNDARY_POINTS))


def draw_chars(rng, kmax=3) -> str:
    """1..kmax characters: boundary points (often two neighbours of the same boundary next to each other) and random
    BMP / astral characters"""
    r = rng.random()
    if r < 0.35:
        return boundary_char(rng)
    if r < 0.55 and kmax >= 2:
        _, cs = rng.choice(BOUNDARIES)
        i = rng.randrange(len(cs) - 1)
        pair = [cs[i], cs[i + 1]]
        if rng.random() < 0.5:
            pair.reverse()
        return "".join(map(chr, pair))
    if r < 0.7:
        return random_char(rng)
    k = rng.randint(1, kmax)
    return "".join(boundary_char(rng) if rng.random() < 0.5 else random_char(rng) for _ in range(k))


SHAPES = ["bare", "bare", "bare2", "x+y", "+x", "pad"]


def draw_text(rng, tag: str | None, *, bare_ok=True, kmax=3):
    """(shape, text): a cell text around `tag` (a sentinel that must stay the text's prefix — None = a cell that needs
    none).  With a tag the characters follow it (directly, after a blank, or with ASCII on both sides); without one the
    cell may hold the characters alone, ASCII after them, or blanks around them."""
    ch = draw_chars(rng, kmax)
    if tag is not None:
        shape = rng.choice(["tag+", "tag+", "tag +", "tag+x", "tag+ "])
        text = {"tag+": tag + ch, "tag +": tag + " " + ch, "tag+x": tag + ch + rng.choice("xyz09"),
                "tag+ ": tag + ch + " "}[shape]
        return shape, text
    shape = rng.choice(SHAPES if bare_ok else ["x+y", "+x", "pad"])
    if shape == "bare":
        ch = ch[0] if rng.random() < 0.6 else ch
        return shape, ch
    if shape == "bare2":
        return shape, ch + draw_chars(rng, 1)
    if shape == "x+y":
        return shape, rng.choice("xab1") + ch + rng.choice("yz9")
    if shape == "+x":
        return shape, ch + rng.choice(["x", "ab", " y"])
    return shape, " " * rng.randint(1, 2) + ch + " " * rng.randint(0, 2)       # "pad": surrounding blanks are kept


def classes(text: str) -> list[str]:
    """the code-point classes of the non-ASCII (and DEL) characters of a text"""
    return sorted({cp_class(ord(c)) for c in text if ord(c) >= 0x7F})
