"""Fault-injected execution of rtflite's export functions in a sandbox (used by C18).

One *run* = one call of `RTFDocument.write_rtf/docx/html/pdf` on a freshly built sandbox directory

    S/tmp    temp root (`tempfile.tempdir` points here; holds decoys so that residue is observable)
    S/work   where the target lives (bystander files, the prepared target state)
    S/bin    the fake `soffice` executable (outside the snapshot)

with
  * a snapshot (paths + bytes) of S/tmp and S/work before and after the call,
  * an exception injected at the n-th *library call*: `sys.settrace` on "call" events whose
    `co_filename` lies under the rtflite package directory; the local trace function returned for
    that frame raises `InjectedFault` at the frame's first event, i.e. the exception surfaces inside
    the library frame exactly as if its first statement had raised (no source hooks),
  * an effect log (completed effects, in order) obtained by wrapping the *standard library* entry
    points the exports use (`Path.mkdir`, `Path.write_text`, `tempfile.mkdtemp`, `shutil.move`,
    `shutil.rmtree`, `Path.unlink`, `print`) and from "return" events of `rtf_encode`,
    `LibreOfficeConverter.__init__` and `LibreOfficeConverter.convert`,
  * stub converters (objects defined here, hence not traced as library code) and a real
    `LibreOfficeConverter` driven by a fake `soffice` shell script whose conversion run is data (`proc_spec`:
    exit status or signal, what it writes before exiting - full / truncated / empty / misnamed output, resource
    folder, stray files -, noise); the script logs its conversion runs to S/bin/soffice.log, so that "the
    conversion failed" is known from the process, independently of what the library reports.
"""
from __future__ import annotations

import builtins
import os
import pathlib
import shutil
import stat
import sys
import tempfile
from pathlib import Path


class InjectedFault(Exception):
    """the injected exception (an ordinary Exception: library `except Exception` blocks may swallow it)"""


class StubFailure(RuntimeError):
    """raised by stub converters"""


# --------------------------------------------------------------------------- snapshots

def _lat(b: bytes) -> str:
    return b.decode("latin-1")


def snapshot(S: Path) -> list:
    """entries [[components...], "d"] | [[components...], "f", bytes-as-latin1] for S/tmp and S/work"""
    out = []
    for top in ("tmp", "work"):
        base = S / top
        if not base.exists():
            continue
        out.append([[top], "d"])
        for dirpath, dirnames, filenames in os.walk(base):
            dirnames.sort()
            rel = Path(dirpath).relative_to(S).parts
            for d in dirnames:
                p = Path(dirpath) / d
                if p.is_symlink():
                    out.append([list(rel) + [d], "f", "<symlink>"])
                else:
                    out.append([list(rel) + [d], "d"])
            for f in sorted(filenames):
                out.append([list(rel) + [f], "f", _lat((Path(dirpath) / f).read_bytes())])
    return out


# --------------------------------------------------------------------------- converters

RES_CONTENT = [[["r.txt"], "f", "resource"], [["sub"], "d"], [["sub", "s.txt"], "f", "nested"]]


def _write_res(folder: str):
    os.mkdir(folder)
    with open(os.path.join(folder, "r.txt"), "wb") as f:
        f.write(b"resource")
    os.mkdir(os.path.join(folder, "sub"))
    with open(os.path.join(folder, "sub", "s.txt"), "wb") as f:
        f.write(b"nested")


class StubConverter:
    """Behaviours: failBefore failAfter retList retOther retMissing okPlain okRes.
    Uses os-level calls only, so that its own writes do not appear in the effect log."""

    def __init__(self, beh: str, log: list):
        self.beh = beh
        self.log = log
        self.called = 0
        self.input = None      # bytes of the RTF it was given
        self.written = None    # bytes of its output file
        self.failed = False    # raised or returned a malformed result
        self.in_name = None    # file name of the RTF it was given
        self.out_name = None   # file name of the output it chose (named after its input, like LibreOffice)
        self.res_name = None   # name of the resource folder it created (okRes)

    def convert(self, *, input_files, output_dir, format, overwrite):
        self.called += 1
        inp = os.fspath(input_files)
        try:
            with open(inp, "rb") as f:
                self.input = f.read()
        except OSError:
            self.failed = True
            raise FileNotFoundError(f"Input file not found: {inp}")
        self.in_name = os.path.basename(inp)
        # the same rule as LibreOfficeConverter._convert_single_file: f"{input_file.stem}.{format}"
        stem = pathlib.PurePosixPath(self.in_name).stem
        self.out_name = f"{stem}.{format}"
        out = os.path.join(os.fspath(output_dir), self.out_name)
        data = format.encode() + b"<" + self.input + b">"
        beh = self.beh
        if beh == "failBefore":
            self.failed = True
            raise StubFailure("conversion failed before producing output")
        if beh == "failAfter":
            with open(out, "wb") as f:
                f.write(b"partial")
            self.failed = True
            raise StubFailure("conversion failed after producing partial output")
        if beh == "retMissing":
            self.log.append("convert")
            return Path(out)
        with open(out, "wb") as f:
            f.write(data)
        self.written = data
        if beh == "okRes":
            self.res_name = self.out_name + "_files"
            _write_res(out + "_files")
        self.log.append("convert")
        if beh == "retList":
            self.failed = True
            return [Path(out)]
        if beh == "retOther":
            self.failed = True
            return out  # a str, not a Path
        return Path(out)


FAKE_SOFFICE = r"""#!/bin/sh
# fake LibreOffice, driven through the REAL rtflite.convert.LibreOfficeConverter.  The version probe behaves
# normally; what a conversion run does is given by the environment (see `proc_spec`):
#   C18_SO_OUT   none | full | trunc (first C18_SO_N bytes) | empty | part (<stem>.<fmt>.part) | sub (nested_out/<stem>.<fmt>)
#   C18_SO_RES   1: also the resource folder <stem>.<fmt>_files      C18_SO_EXTRA 1: lock file, .tmp sibling, cache dir
#   C18_SO_NOISE small | big (100 kB on stdout and on stderr)
#   C18_SO_EXIT  exit status, or KILL / TERM / HUP (the process kills itself with that signal) - AFTER the writes
if [ "$1" = "--version" ]; then echo "LibreOffice 24.8.3.2 0bdf1299c94fe897b119f97f3c613e9dca6be583"; exit 0; fi
fmt=""; out=""; inp=""
while [ $# -gt 0 ]; do
  case "$1" in
    --convert-to) fmt="$2"; shift 2;;
    --outdir) out="$2"; shift 2;;
    --*) shift;;
    *) inp="$1"; shift;;
  esac
done
if [ -n "$C18_SO_LOG" ]; then echo "convert" >> "$C18_SO_LOG"; fi
base=$(basename "$inp" .rtf)
name="$base.$fmt"
doc() { printf '%s<' "$fmt"; cat "$inp"; printf '>'; }
case "$C18_SO_OUT" in
  full) doc > "$out/$name";;
  trunc) doc | head -c "$C18_SO_N" > "$out/$name";;
  empty) : > "$out/$name";;
  part) doc > "$out/$name.part";;
  sub) mkdir "$out/nested_out"; doc > "$out/nested_out/$name";;
esac
if [ "$C18_SO_RES" = 1 ]; then
  d="$out/$name""_files"
  mkdir "$d"; printf 'resource' > "$d/r.txt"; mkdir "$d/sub"; printf 'nested' > "$d/sub/s.txt"
fi
if [ "$C18_SO_EXTRA" = 1 ]; then
  printf 'lock' > "$out/.~lock.$name#"; printf 'tmp' > "$out/$name.tmp"
  mkdir "$out/lu_cache"; printf 'bin' > "$out/lu_cache/x.bin"
fi
case "$C18_SO_NOISE" in
  small) echo "boom" >&2;;
  big) head -c 100000 /dev/zero | tr '\000' 'x'; head -c 100000 /dev/zero | tr '\000' 'E' >&2;;
esac
case "$C18_SO_EXIT" in
  KILL|TERM|HUP) kill -"$C18_SO_EXIT" $$; sleep 5; exit 99;;
  *) exit "$C18_SO_EXIT";;
esac
"""

# behaviours of the fake process, by name:  x<exit>.<out>[.res][.extra][.noisy|.loud]
#   exit: a status (0, 1, 3, 77, ...) or KILL / TERM / HUP;  out: none full trunc<N> empty part sub
PROC_PRESETS = {"ok": "x0.full", "okres": "x0.full.res", "fail": "x3.none.noisy", "noout": "x0.none"}
PROC_SIGNALS = {"KILL": 137, "TERM": 143, "HUP": 129}
PROC_ENV = ("C18_SO_EXIT", "C18_SO_OUT", "C18_SO_N", "C18_SO_RES", "C18_SO_EXTRA", "C18_SO_NOISE", "C18_SO_LOG")


def proc_spec(beh: str) -> dict:
    """the fake process's behaviour as data: exit (as given to the script), code (exit status as a shell reports
    it; only zero / non-zero matters), out, n, res, extra, noise"""
    parts = PROC_PRESETS.get(beh, beh).split(".")
    if len(parts) < 2 or not parts[0].startswith("x"):
        raise ValueError(f"not a fake-soffice behaviour: {beh!r}")
    ex = parts[0][1:]
    out, n = parts[1], 0
    if out.startswith("trunc"):
        out, n = "trunc", int(parts[1][5:])
    if out not in ("none", "full", "trunc", "empty", "part", "sub"):
        raise ValueError(f"not a fake-soffice behaviour: {beh!r}")
    flags = set(parts[2:])
    if flags - {"res", "extra", "noisy", "loud"}:
        raise ValueError(f"not a fake-soffice behaviour: {beh!r}")
    return dict(exit=ex, code=PROC_SIGNALS[ex] if ex in PROC_SIGNALS else int(ex), out=out, n=n,
                res="res" in flags, extra="extra" in flags,
                noise="big" if "loud" in flags else ("small" if "noisy" in flags else ""))


def proc_failed(sp: dict) -> bool:
    """the conversion run failed: non-zero exit status (whatever it wrote), or no file <stem>.<fmt>"""
    return sp["code"] != 0 or sp["out"] in ("none", "part", "sub")


def proc_document(sp: dict, ext: str, rtf: bytes):
    """bytes of <stem>.<fmt> as the fake process leaves it (None: it does not write that file)"""
    doc = ext.encode() + b"<" + rtf + b">"
    return {"full": doc, "trunc": doc[:sp["n"]], "empty": b""}.get(sp["out"])


def install_fake_soffice(S: Path) -> Path:
    b = S / "bin"
    b.mkdir()
    p = b / "soffice"
    p.write_text(FAKE_SOFFICE)
    p.chmod(p.stat().st_mode | stat.S_IXUSR | stat.S_IXGRP | stat.S_IXOTH)
    return p


# --------------------------------------------------------------------------- effect log

class EffectLog:
    """wraps stdlib entry points; appends the names of *completed* effects to `self.events`"""

    def __init__(self, S: Path):
        self.S = str(S)
        self.tmp = str(S / "tmp")
        self.events: list = []
        self._depth = 0
        self._saved = []

    def _area(self, p) -> str | None:
        try:
            s = os.path.abspath(os.fspath(p))
        except TypeError:
            return None
        if s == self.tmp or s.startswith(self.tmp + os.sep):
            return "tmp"
        if s == self.S or s.startswith(self.S + os.sep):
            return "work"
        return None

    def __enter__(self):
        log = self

        def patch(obj, name, make):
            orig = getattr(obj, name)
            self._saved.append((obj, name, orig))
            setattr(obj, name, make(orig))

        def mk_mkdir(orig):
            def mkdir(self_, *a, **k):
                log._depth += 1
                try:
                    r = orig(self_, *a, **k)
                finally:
                    log._depth -= 1
                if log._depth == 0 and log._area(self_) == "work":
                    log.events.append("mkdir")
                return r
            return mkdir

        def mk_write_text(orig):
            def write_text(self_, *a, **k):
                r = orig(self_, *a, **k)
                ar = log._area(self_)
                if ar == "tmp":
                    log.events.append("writeRtf")
                elif ar == "work":
                    log.events.append("writeTarget")
                return r
            return write_text

        def mk_mkdtemp(orig):
            def mkdtemp(*a, **k):
                r = orig(*a, **k)
                log.events.append("mkdtemp")
                return r
            return mkdtemp

        def mk_move(orig):
            def move(src, dst, *a, **k):
                r = orig(src, dst, *a, **k)
                log.events.append("move")
                return r
            return move

        def mk_rmtree(orig):
            def rmtree(path, *a, **k):
                r = orig(path, *a, **k)
                if log._area(path) == "work":
                    log.events.append("rmtree")
                return r
            return rmtree

        def mk_unlink(orig):
            def unlink(self_, *a, **k):
                r = orig(self_, *a, **k)
                if log._area(self_) == "work":
                    log.events.append("unlink")
                return r
            return unlink

        def mk_print(orig):
            def print_(*a, **k):
                # only the confirmation print of the export method itself is an effect of the model;
                # diagnostics printed by other library code are swallowed silently
                if sys._getframe(1).f_code.co_name.startswith("write_"):
                    log.events.append("print")
            return print_

        patch(pathlib.Path, "mkdir", mk_mkdir)
        patch(pathlib.Path, "write_text", mk_write_text)
        patch(pathlib.Path, "unlink", mk_unlink)
        patch(tempfile, "mkdtemp", mk_mkdtemp)
        patch(shutil, "move", mk_move)
        patch(shutil, "rmtree", mk_rmtree)
        patch(builtins, "print", mk_print)
        return self

    def __exit__(self, *exc):
        for obj, name, orig in reversed(self._saved):
            setattr(obj, name, orig)
        self._saved = []
        return False


COMMIT_EVENTS = ("move", "rmtree", "unlink")


def with_resolve(events: list, entered: bool) -> list:
    """`LibreOfficeConverter()` inside write_* succeeded iff the first temporary directory was created
    afterwards (there is no statement in between that can fail); insert the effect where it happened"""
    if not entered or "mkdtemp" not in events:
        return list(events)
    i = events.index("mkdtemp")
    return events[:i] + ["resolve"] + events[i:]


def canonical_trace(events: list, fn: str, raised: bool) -> list:
    """the real effect log in the vocabulary of the model's trace"""
    out = []
    commit = False
    for e in events:
        if e in COMMIT_EVENTS:
            commit = True
            continue
        if e == "print" and fn != "rtf":
            continue
        out.append(e)
    if commit:
        out.append("commit" if not raised else "commit-partial")
    return out


# --------------------------------------------------------------------------- tracer

class Tracer:
    """Two hooks.
    * trace function (`sys.settrace`): counts library calls, records call sites and injects the fault at
      call number `fault_at` (1-based) by raising from the local trace function of that frame.  CPython
      switches tracing off once a trace function raises, therefore
    * profile function (`sys.setprofile`, unaffected by that): logs the completion of `rtf_encode`,
      `LibreOfficeConverter.__init__` and `LibreOfficeConverter.convert` from their "return" events
      (also after a fault that the library swallowed)."""

    WATCH = {("encode.py", "rtf_encode"): "encode", ("convert.py", "__init__"): "resolve",
             ("convert.py", "convert"): "convert"}

    def __init__(self, libdir: str, log: EffectLog, fault_at: int | None, record_sites: bool):
        self.libdir = libdir
        self.log = log
        self.fault_at = fault_at
        self.record_sites = record_sites
        self.n = 0
        self.sites: list = []
        self.fired = False
        self.fired_site = None
        self.events_at_fault = None
        self.rtf_return = None
        self.failed = {"encode": False, "resolve": False, "convert": False}
        self.depth_encode = 0
        self.resolve_entered = False
        self.conv_in_name = None    # file name of the RTF handed to LibreOfficeConverter.convert
        self.conv_out_name = None   # file name of the Path it returned

    # ---- profile side
    def profile(self, frame, event, arg):
        if event != "call" and event != "return":
            return
        co = frame.f_code
        if not co.co_filename.startswith(self.libdir):
            return
        what = self.WATCH.get((os.path.basename(co.co_filename), co.co_name))
        if what is None:
            return
        if event == "call":
            if what == "encode":
                self.depth_encode += 1
            elif what == "resolve":
                self.resolve_entered = True
            elif what == "convert":
                try:
                    self.conv_in_name = os.path.basename(os.fspath(frame.f_locals.get("input_files")))
                except TypeError:
                    pass
            return
        if what == "encode":
            self.depth_encode -= 1
            if self.depth_encode > 0:
                return
            if isinstance(arg, str):
                self.rtf_return = arg
                self.log.events.append("encode")
            else:
                self.failed["encode"] = True
        elif what == "convert":
            if arg is None:
                self.failed["convert"] = True
            else:
                self.log.events.append("convert")
                if isinstance(arg, pathlib.PurePath):
                    self.conv_out_name = arg.name
        # "resolve" (`LibreOfficeConverter()`): __init__ returns None either way; its success is inferred
        # from what follows (see `with_resolve`)

    def _raiser(self):
        def local(frame, event, arg):
            if not self.fired:
                self.fired = True
                raise InjectedFault("injected at library call %d" % self.fault_at)
            return None
        return local

    # ---- trace side
    def __call__(self, frame, event, arg):
        if event != "call":
            return None
        co = frame.f_code
        fname = co.co_filename
        if not fname.startswith(self.libdir):
            return None
        self.n += 1
        rel = fname[len(self.libdir):].lstrip(os.sep)
        if self.record_sites:
            self.sites.append((rel, co.co_name))
        if self.fault_at is not None and self.n == self.fault_at:
            self.fired_site = [rel, co.co_name]
            self.events_at_fault = list(self.log.events)
            return self._raiser()
        return None


# --------------------------------------------------------------------------- target states

EXT = {"rtf": "rtf", "docx": "docx", "pdf": "pdf", "html": "html"}
OLD = b"OLD CONTENT \xe9\n"
# what a pre-existing target file holds (case key `old`): unrelated bytes that are not UTF-8 (the default), unrelated
# text, nothing, or a *twin* of the document's own RTF code — byte-identical, with other line ends, behind a BOM,
# cut short, with trailing blanks, in another letter case, as UTF-16
OLDS = ["fixed", "text", "empty", "twin", "twin_crlf", "twin_cr", "twin_bom", "twin_trunc", "twin_trail", "twin_upper",
        "twin_utf16", "twin_nl"]


def old_content(kind: str, code: str | None) -> bytes:
    if kind == "fixed" or (code is None and kind.startswith("twin")):
        return OLD
    if kind == "text":
        return b"an earlier report\nof another table\n"
    if kind == "empty":
        return b""
    b = code.encode("utf-8")
    if kind == "twin":
        return b
    if kind == "twin_crlf":
        return b.replace(b"\n", b"\r\n")
    if kind == "twin_cr":
        return b.replace(b"\n", b"\r")
    if kind == "twin_bom":
        return b"\xef\xbb\xbf" + b
    if kind == "twin_trunc":
        return b[: max(1, len(b) * 2 // 3)]
    if kind == "twin_trail":
        return b + b"\n"
    if kind == "twin_upper":
        return b.upper()
    if kind == "twin_utf16":
        return code.encode("utf-16")
    if kind == "twin_nl":
        return b.replace(b"\n", b"\n\n")
    raise ValueError(kind)


def default_name(fn: str) -> str:
    return f"report.{EXT[fn]}"


def converted_name(fn: str, name: str) -> str:
    """the file name a converter that names its output after its input (LibreOffice, the stubs) produces for
    the target name `name`: the export hands it `<target stem>.rtf`, it answers `<stem of that>.<format>`"""
    rtf = f"{pathlib.PurePosixPath(name).stem}.rtf"
    return f"{pathlib.PurePosixPath(rtf).stem}.{EXT[fn]}"


FORMS = ("path", "str", "rel", "relpath", "dot", "updown", "dslash", "home")


def target_argument(S: Path, target: Path, form: str):
    """what is passed to write_*: the same file `target`, spelled differently.  Relative forms are relative to
    the working directory S/work (the call runs with cwd = S/work), "home" uses HOME = S/work."""
    rel = os.path.relpath(target, S / "work")
    if form == "path":
        return target
    if form == "str":
        return str(target)
    if form == "rel":
        return rel
    if form == "relpath":
        return Path(rel)
    if form == "dot":
        return "./" + rel
    if form == "updown":
        return os.path.join("..", "work", rel)
    if form == "dslash":
        return str(target.parent) + "//" + target.name
    if form == "home":
        return "~/" + rel
    raise ValueError(form)


def prepare(S: Path, fn: str, state: str, name: str | None = None) -> Path:
    """build S/tmp, S/work in the given target state; returns the target path.  `name` = the target's file name
    (default `report.<ext>`).  The *resource folder* of an HTML export is named after the converted file
    (`<stem>.html_files`), which differs from `<target name>_files` unless the target's suffix is `.html`."""
    (S / "tmp").mkdir()
    (S / "tmp" / "decoy.txt").write_bytes(b"decoy")
    (S / "tmp" / "keepdir").mkdir()
    (S / "tmp" / "keepdir" / "inner.txt").write_bytes(b"inner")
    w = S / "work"
    w.mkdir()
    (w / "bystander.txt").write_bytes(b"bystander")
    if name is None:
        name = default_name(fn)
    res_name = converted_name(fn, name) + "_files"
    if state in ("existing", "absent", "existing_res", "res_is_file", "target_is_dir", "named_files_dir"):
        d = w / "out"
        d.mkdir()
        (d / "other.txt").write_bytes(b"other")
        t = d / name
        if state in ("existing", "existing_res", "res_is_file", "named_files_dir"):
            t.write_bytes(OLD)
        if res_name == name and state in ("existing_res", "res_is_file"):
            state = "existing"   # the resource folder's path IS the target's path: nothing else to prepare
        if state == "existing_res":
            r = d / res_name
            r.mkdir()
            (r / "stale.txt").write_bytes(b"stale")
            (r / "r.txt").write_bytes(b"old resource")
        if state == "res_is_file":
            (d / res_name).write_bytes(b"I am a file")
        if state == "named_files_dir":
            # a folder called `<target name>_files` (a bystander unless that IS the resource folder's name)
            r = d / f"{name}_files"
            r.mkdir()
            (r / "mine.txt").write_bytes(b"mine")
            (r / "r.txt").write_bytes(b"not a resource")
        if state == "target_is_dir":
            t.mkdir()
            (t / "keep.txt").write_bytes(b"keep")
        return t
    if state == "missing_dirs":
        return w / "new" / "deep" / name
    if state == "parent_is_file":
        (w / "blk").write_bytes(b"not a directory")
        return w / "blk" / name
    if state == "grandparent_is_file":
        (w / "blk").write_bytes(b"not a directory")
        return w / "blk" / "sub" / name
    raise ValueError(state)


# --------------------------------------------------------------------------- one run

_WARM = {"done": False}


def _warm():
    if _WARM["done"]:
        return
    _WARM["done"] = True
    try:
        import io
        import contextlib
        from . import docgen
        with contextlib.redirect_stdout(io.StringIO()):
            docgen.build(dict(kind="table", df=dict(cols=["a", "b"], rows=[["1", "2"]]))).rtf_encode()
    except Exception:  # noqa: BLE001
        pass


def classify(e: BaseException | None, tr: Tracer, stub) -> str:
    if e is None:
        return "ok"
    if isinstance(e, InjectedFault):
        return "injected"
    if tr.failed["encode"]:
        return "encode"
    if isinstance(e, TypeError):
        return "typeError"
    if isinstance(e, StubFailure) or (isinstance(e, RuntimeError) and tr.failed["convert"]):
        return "converter"
    if isinstance(e, OSError):
        return "os"
    return "other:" + type(e).__name__


def run_export(case: dict) -> dict:
    """case: fn, doc (spec), state, conv {mode, beh?}, fault (int|None), sites (bool), twice (bool),
    tname (target file name, default report.<ext>), form (how the target is spelled, see FORMS)"""
    import rtflite
    from . import docgen

    _warm()
    libdir = os.path.dirname(os.path.abspath(rtflite.__file__))
    fn = case["fn"]
    S = Path(tempfile.mkdtemp(prefix="c18_"))
    saved_tempdir = tempfile.tempdir
    saved_env = {k: os.environ.get(k) for k in ("PATH", "HOME") + PROC_ENV}
    proc = None        # behaviour of the fake soffice process (real / path converters)
    proc_log = None
    saved_cwd = os.getcwd()
    out: dict = {}
    try:
        target = prepare(S, fn, case["state"], case.get("tname"))
        form = case.get("form") or "path"
        arg = target_argument(S, target, form)
        (S / "assets").mkdir()
        tempfile.tempdir = str(S / "tmp")
        import io
        import contextlib
        with contextlib.redirect_stdout(io.StringIO()):
            doc = docgen.build(case["doc"], workdir=str(S / "assets"))
        conv = case.get("conv") or {"mode": "none"}
        mode = conv["mode"]
        log = EffectLog(S)
        stub = None
        kwargs = {}
        if fn != "rtf":
            if mode == "stub":
                stub = StubConverter(conv["beh"], log.events)
                kwargs["converter"] = stub
            elif mode in ("real", "path"):
                exe = install_fake_soffice(S)
                proc = proc_spec(conv["beh"])
                proc_log = S / "bin" / "soffice.log"
                os.environ.update(C18_SO_EXIT=proc["exit"], C18_SO_OUT=proc["out"], C18_SO_N=str(proc["n"]),
                                  C18_SO_RES="1" if proc["res"] else "0", C18_SO_EXTRA="1" if proc["extra"] else "0",
                                  C18_SO_NOISE=proc["noise"], C18_SO_LOG=str(proc_log))
                if mode == "real":
                    from rtflite.convert import LibreOfficeConverter
                    kwargs["converter"] = LibreOfficeConverter(executable_path=str(exe))
                else:
                    os.environ["PATH"] = str(exe.parent) + os.pathsep + os.environ.get("PATH", "")
            elif mode == "lookup_fail":
                pass
        method = getattr(doc, "write_" + fn)
        old = case.get("old") or "fixed"
        if old != "fixed" and target.is_file():
            code = None
            if old.startswith("twin"):
                try:
                    with contextlib.redirect_stdout(io.StringIO()):
                        code = doc.rtf_encode()
                except Exception:  # noqa: BLE001  (a document that does not encode has no twin)
                    code = None
            target.write_bytes(old_content(old, code))
        os.environ["HOME"] = str(S / "work")
        os.chdir(S / "work")
        pre_exc = None
        if case.get("twice"):
            # an earlier, unobserved export to the same path (D23 scenario); what it raises is reported, not fatal
            with contextlib.redirect_stdout(io.StringIO()):
                pre = StubConverter("okRes", []) if fn != "rtf" else None
                try:
                    method(arg, **({"converter": pre} if pre else {}))
                except Exception as e:  # noqa: BLE001
                    pre_exc = type(e).__name__ + ": " + str(e)[:160]
        before = snapshot(S)
        tr = Tracer(libdir, log, case.get("fault"), bool(case.get("sites")))
        exc = None
        with log:
            saved_hook = sys.unraisablehook
            sys.unraisablehook = lambda *a: None   # a fault fired inside a generator being finalised
            sys.setprofile(tr.profile)
            sys.settrace(tr)
            try:
                method(arg, **kwargs)
            except BaseException as e:  # noqa: BLE001
                exc = e
            finally:
                sys.settrace(None)
                sys.setprofile(None)
                sys.unraisablehook = saved_hook
        os.chdir(saved_cwd)
        after = snapshot(S)
        raised = exc is not None
        # the injected exception was swallowed by the library iff the call went on: it returned, or it
        # completed further effects after the injection point (and then possibly failed for another reason)
        swallowed = bool(tr.fired and not isinstance(exc, InjectedFault)
                         and (not raised or len(log.events) > len(tr.events_at_fault)))
        in_call_resolve = tr.resolve_entered
        events = with_resolve(log.events, in_call_resolve)
        if in_call_resolve and "mkdtemp" not in log.events:
            tr.failed["resolve"] = True
        ncalls = tr.n
        rtf_bytes = tr.rtf_return.encode("utf-8") if isinstance(tr.rtf_return, str) else None
        conv_failed = bool(stub and stub.failed) or tr.failed["convert"] or tr.failed["resolve"]
        ext = EXT[fn]
        # conversion runs of the fake process, as the process itself logged them (independent of what the
        # library made of the run): a run that exits non-zero / leaves no <stem>.<fmt> is a failed conversion
        proc_runs = 0
        if proc is not None and proc_log.exists():
            proc_runs = proc_log.read_text().count("convert")
        if proc is not None and proc_runs and proc_failed(proc):
            conv_failed = True
        proc_ok = proc is not None and not proc_failed(proc)
        written = None
        if stub is not None:
            written = stub.written
        elif proc_ok and rtf_bytes is not None and "convert" in log.events:
            written = proc_document(proc, ext, rtf_bytes)
        has_res = (fn == "html" and "convert" in log.events and
                   ((stub is not None and stub.beh == "okRes") or (proc_ok and proc["res"])))
        # the name of the file the converter actually produced: the resource folder is its companion
        out_seen = stub.out_name if stub is not None else tr.conv_out_name
        if stub is not None and stub.res_name is not None and stub.res_name != (out_seen or "") + "_files":
            raise RuntimeError("stub converter: inconsistent resource folder name")
        out = dict(
            before=before, after=after, raised=raised,
            exc=(type(exc).__name__ + ": " + str(exc)[:160]) if exc else None,
            kind=classify(exc, tr, stub),
            events=events, trace=canonical_trace(events, fn, raised),
            fired=tr.fired, fired_site=tr.fired_site,
            k=(len(canonical_trace(with_resolve(tr.events_at_fault, in_call_resolve), fn, True)) if tr.fired else None),
            swallowed=swallowed,
            transformed=bool(tr.fired and raised and not isinstance(exc, InjectedFault) and not swallowed),
            ncalls=ncalls, sites=tr.sites if case.get("sites") else None,
            enc=_lat(rtf_bytes) if rtf_bytes is not None else None,
            enc_failed=tr.failed["encode"], conv_failed=conv_failed,
            conv_called=(stub.called if stub else None),
            conv_input=_lat(stub.input) if (stub and stub.input is not None) else None,
            written=_lat(written) if written is not None else None,
            has_res=has_res,
            dir=list(target.parent.relative_to(S).parts), tname=target.name,
            rtf_name=f"{target.stem}.rtf", out_name=out_seen or converted_name(fn, target.name),
            # names as observed at the converter (None when it was not reached / not observable)
            conv_in_name=(stub.in_name if stub is not None else tr.conv_in_name),
            conv_out_name=out_seen,
            res_name=((out_seen + "_files") if (has_res and out_seen) else None),
            form=form, arg=os.fspath(arg), pre_exc=pre_exc, old=old,
            proc=(dict(proc, runs=proc_runs) if proc is not None else None),
        )
    finally:
        os.chdir(saved_cwd)
        tempfile.tempdir = saved_tempdir
        for k, v in saved_env.items():
            if v is None:
                os.environ.pop(k, None)
            else:
                os.environ[k] = v
        shutil.rmtree(S, ignore_errors=True)
    return out
