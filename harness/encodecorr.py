"""Whole-encoder byte correspondence: `RTFDocument.rtf_encode()` versus `Model/Encode.lean` (driver op `encode_doc`).

`serialize(doc)` turns the post-construction state of a real `RTFDocument` into the model's JSON input:
every component's attributes exactly as its `__dict__` holds them (nested lists / tuples / None), texts as code-point
lists, the frame as rows of display strings (`None` = null), page geometry as exact rationals, and the string widths
the pagination measures (recorded from the real `get_string_width` while the real encoder runs: Pillow is a parameter
of the model).

`run(res, tier)` generates documents in three stages (plain / page_by+subline_by / group_by), encodes each with the
real rtflite and with the model and compares the two strings byte for byte.  Every stage also draws documents of the
header-variation class (`vary_headers`): 1–3 explicit header rows with any number of cells from 1 to the original
column count + 1, widths inherited from the body / per original column / per displayed column / per cell, written
without regard to the columns page_by / subline_by take out of the table (evidence labels `hdrcells:…`).

    python -m harness.encodecorr N SEED        # N documents per stage, agreement statistics
"""
from __future__ import annotations

import contextlib
import io
import json
import re
import subprocess
import sys
from fractions import Fraction

from . import common, docgen, laygen, optdraw

ATTR_TEXT = ["text_font", "text_format", "text_font_size", "text_color", "text_background_color",
             "text_justification", "text_indent_first", "text_indent_left", "text_indent_right", "text_space",
             "text_space_before", "text_space_after", "text_hyphenation", "text_convert"]
ATTR_TABLE = ATTR_TEXT + ["border_left", "border_right", "border_top", "border_bottom", "border_first", "border_last",
                          "border_color_left", "border_color_right", "border_color_top", "border_color_bottom",
                          "border_color_first", "border_color_last", "border_width", "cell_height",
                          "cell_justification", "cell_vertical_justification", "cell_nrow"]


# what `serialize` (and `encodecorr2`'s serialisers) transmit to the encoder model, per component class of
# `optdraw.CLASSES`.  Every OTHER constructor option (today: RTFPage.use_color, RTFBody.last_row, the text components'
# text_indent_reference, RTFFigure.fig_pos) is invisible to the model; `_worker` draws those over their documented value
# sets too (`optdraw.draw_unread`, a random stream of its own), so that wiring one of them — or any option added to a
# class later — shows as a byte difference instead of going unseen.
_PAGE_READ = {"width", "height", "margin", "nrow", "orientation", "border_first", "border_last", "col_width",
              "page_title", "page_footnote", "page_source"}
SERIALIZED = dict(
    page=_PAGE_READ,
    **{c: set(ATTR_TEXT) | {"text"} for c in ("title", "subline", "page_header", "page_footer")},
    header=set(ATTR_TABLE) | {"text", "col_rel_width"},
    **{c: set(ATTR_TABLE) | {"text", "as_table", "col_rel_width"} for c in ("footnote", "source")},
    body=set(ATTR_TABLE) | {"col_rel_width", "as_colheader", "group_by", "page_by", "subline_by", "new_page",
                            "pageby_header", "pageby_row"},
    figure={"figures", "fig_width", "fig_height", "fig_align"})


def draw_unserialized(seed, spec, info, *tags):
    """options outside the encoder model's input (see SERIALIZED), from a stream that leaves the generators' alone"""
    labels = optdraw.draw_unread(common.sub_rng(seed, "encodecorr", "options", *tags), spec, SERIALIZED)
    if labels:
        info["unserialized_options"] = labels


# border colours drawn for column headers / footnote / source: some are used by no other generator of this file
BORDER_COLORS = ["red", "blue", "gold", "tomato", "steelblue", "darkgreen", "plum", "black", ""]


# ----------------------------------------------------------------------------- serialisation

def rat(x) -> str:
    if isinstance(x, bool):
        return str(int(x))
    if isinstance(x, int):
        return str(x)
    f = Fraction(x)
    return f"{f.numerator}/{f.denominator}"


def cps(s: str) -> list[int]:
    return [ord(c) for c in s]


def ser_val(v):
    if v is None or isinstance(v, (bool, str)):
        return v
    if isinstance(v, int):
        return int(v)
    if isinstance(v, float):
        return {"f": rat(v)}
    raise TypeError(f"attribute scalar of type {type(v).__name__}")


def ser_attr(v):
    if isinstance(v, tuple):
        return {"t": [ser_val(x) for x in v]}
    if isinstance(v, list):
        if v and all(isinstance(x, list) for x in v):
            return [[ser_val(y) for y in x] for x in v]
        return [ser_val(x) for x in v]
    return ser_val(v)


def ser_attrs(obj, names):
    d = obj.__dict__
    return {n: ser_attr(d.get(n)) for n in names}


def ser_widths(v):
    return None if v is None else [rat(x) for x in v]


def ser_text_comp(c):
    if c is None:
        return None
    t = c.__dict__.get("text")
    return dict(text=None if t is None else [cps(str(x)) for x in t], attrs=ser_attrs(c, ATTR_TEXT))


def ser_header(h):
    if h is None:
        return None
    t = h.__dict__.get("text")
    return dict(text=None if t is None else [cps(str(x)) for x in t], col_rel_width=ser_widths(h.col_rel_width),
                attrs=ser_attrs(h, ATTR_TABLE))


def ser_foot(f):
    if f is None:
        return None
    t = f.__dict__.get("text")
    if isinstance(t, (list, tuple)):
        if len(t):
            raise TypeError("footnote text is a non-empty sequence after construction")
        t = ""
    return dict(text=None if t is None else cps(t), as_table=bool(f.as_table), col_rel_width=ser_widths(f.col_rel_width),
                attrs=ser_attrs(f, ATTR_TABLE))


def ser_names(v):
    return None if v is None else [cps(x) for x in v]


def serialize(doc) -> dict:
    """post-construction state of a single-section table document (no widths).

    `headers` is the LIST of the entries of `doc.rtf_column_header` whatever Python sequence holds them: the encoder
    model (`Model.Encode.Doc.headers : List (Option Header)`) renders every entry.  That the renderer does the same
    for the container construction leaves behind (its type guards dispatch on the container's Python type) is part of
    the correspondence: it is exercised by the documents whose component arguments are handed over in the other
    container spellings (`spelled` below, docgen "spelling"); the container step itself is Model/HeaderInput.lean."""
    import polars as pl

    if not isinstance(doc.df, pl.DataFrame):
        raise TypeError("single-section table documents only")
    hs = doc.rtf_column_header
    if hs is None:
        hs = []
    if any(isinstance(h, (list, tuple)) for h in hs):
        raise TypeError("nested column headers are out of scope")
    pg = doc.rtf_page
    b = doc.rtf_body
    return dict(
        cols=[cps(c) for c in doc.df.columns],
        rows=[[None if v is None else cps(str(v)) for v in row] for row in doc.df.rows()],
        page=dict(width=rat(pg.width), height=rat(pg.height), margin=[rat(m) for m in pg.margin], nrow=int(pg.nrow),
                  landscape=pg.orientation == "landscape", border_first=pg.border_first or "",
                  border_last=pg.border_last or "", col_width=rat(pg.col_width), page_title=pg.page_title,
                  page_footnote=pg.page_footnote, page_source=pg.page_source),
        page_header=ser_text_comp(doc.rtf_page_header), page_footer=ser_text_comp(doc.rtf_page_footer),
        title=ser_text_comp(doc.rtf_title), subline=ser_text_comp(doc.rtf_subline),
        headers=[ser_header(h) for h in hs],
        body=dict(attrs=ser_attrs(b, ATTR_TABLE), col_rel_width=ser_widths(b.col_rel_width),
                  as_colheader=bool(b.as_colheader), group_by=ser_names(b.group_by), page_by=ser_names(b.page_by),
                  subline_by=ser_names(b.subline_by), new_page=bool(b.new_page), pageby_header=bool(b.pageby_header),
                  pageby_row=b.pageby_row),
        footnote=ser_foot(doc.rtf_footnote), source=ser_foot(doc.rtf_source))


@contextlib.contextmanager
def recording_widths(table: dict):
    """record every `get_string_width` call of the pagination: (text, font, size) → exact rational of the result"""
    import rtflite.pagination.core as core

    real = core.get_string_width

    def spy(text, font="Times New Roman", font_size=12, *a, **kw):
        w = real(text, font, font_size, *a, **kw)
        if isinstance(font, int) and not a and not kw:
            table[(text, font, rat(font_size))] = rat(w)
        return w
    core.get_string_width = spy
    try:
        yield
    finally:
        core.get_string_width = real


def encode_real(doc):
    """(state, widths, ('ok', text) | ('error', ExcClass, message)); the state is taken BEFORE the encode"""
    state = serialize(doc)
    table: dict = {}
    try:
        with recording_widths(table), contextlib.redirect_stdout(io.StringIO()):
            out = ("ok", doc.rtf_encode())
    except Exception as e:  # noqa: BLE001
        out = ("error", docgen.classify_exc(e), str(e)[:200])
    widths = [[cps(t), f, s, w] for (t, f, s), w in table.items()]
    return state, widths, out


def request(state, widths, check=False):
    r = dict(op="encode_doc", doc=state, widths=widths)
    if check:
        r["check"] = True
    return r


def model_batch(requests, procs=None):
    """run the driver on the requests (several driver processes); model errors come back as {"error": kind}"""
    if not requests:
        return []
    if not common.DRIVER.exists():
        raise common.MachineryError("driver binary missing")
    procs = max(1, min(procs or common.NCPU, len(requests)))
    chunks = [requests[i::procs] for i in range(procs)]
    ps = []
    for ch in chunks:
        data = "\n".join(json.dumps(r, ensure_ascii=True, separators=(",", ":")) for r in ch) + "\n"
        p = subprocess.Popen([str(common.DRIVER)], stdin=subprocess.PIPE, stdout=subprocess.PIPE, stderr=subprocess.PIPE)
        ps.append((p, data.encode("ascii")))
    import threading

    outs = [None] * len(ps)

    def feed(i):
        p, data = ps[i]
        outs[i] = p.communicate(data)
    ths = [threading.Thread(target=feed, args=(i,)) for i in range(len(ps))]
    for t in ths:
        t.start()
    for t in ths:
        t.join()
    res = [None] * len(requests)
    for i, ((p, _), (so, se)) in enumerate(zip(ps, outs)):
        if p.returncode != 0:
            raise common.MachineryError(f"driver exited {p.returncode}: {se.decode()[-400:]}")
        lines = so.decode("utf-8").splitlines()
        if len(lines) != len(chunks[i]):
            raise common.MachineryError(f"driver answered {len(lines)} lines for {len(chunks[i])} requests")
        for k, l in enumerate(lines):
            r = json.loads(l)
            if "error" in r and "text" not in r and not _is_model_error(r["error"]):
                raise common.MachineryError(f"driver error {r['error']}")
            res[i + k * procs] = r
    return res


_PYERR = {"ValueError", "IndexError", "ZeroDivisionError", "ValidationError", "TypeError", "KeyError",
          "UnboundLocalError"}


def _is_model_error(e: str) -> bool:
    return e in _PYERR or e.startswith("model:")


def first_diff(a: str, b: str) -> int:
    n = min(len(a), len(b))
    for i in range(n):
        if a[i] != b[i]:
            return i
    return n if len(a) != len(b) else -1


def describe_diff(model: str, real: str) -> str:
    i = first_diff(model, real)
    return (f"first difference at offset {i} (model {len(model)} chars, real {len(real)} chars): model "
            f"{model[max(0, i - 60):i + 40]!r} vs real {real[max(0, i - 60):i + 40]!r}")


# ----------------------------------------------------------------------------- generation

SPECIAL_TEXTS = ["café", "αβγ", "naïve ±", "😀 ok", "€5", "x ≥ y", "m^2", "x_1", "a>=b", "a<=b", "\\alpha + \\beta",
                 "p\\pm q", "\\mathbb{R}", "two\nlines", "(n=5)", "", " lead", "trail ", "{braces}", "back\\slash",
                 "\\pagenumber", "100%", "tab\there", "~tilde", "semi;colon"]
STYLES = ["single", "double", "dotted", "dashed", "thick", "", "wavy", "triple"]


def _shape_value(rng, a, g, n, ncols):
    sh = rng.choice(["scalar", "percol", "matrix", "pattern", "perrow", "tuple"])
    if a in ("cell_height", "cell_justification") and sh in ("percol", "matrix", "pattern"):
        sh = rng.choice(["scalar", "perrow", "tuple"])
    if n == 0 and sh in ("matrix", "perrow", "tuple", "pattern"):
        sh = "percol"
    if sh == "scalar":
        return sh, g(rng)
    if sh == "percol":
        return sh, [g(rng) for _ in range(ncols)]
    if sh == "matrix":
        return sh, [[g(rng) for _ in range(ncols)] for _ in range(n)]
    if sh == "pattern":
        nr = rng.randint(2, max(2, min(5, n - 1))) if n > 2 else max(n, 1)
        nc = rng.choice([ncols, ncols, max(1, ncols - 1), 1])
        return sh, [[g(rng) for _ in range(nc)] for _ in range(nr)]
    if sh == "perrow":
        return sh, [[g(rng)] for _ in range(n)]
    return sh, {"__tuple__": [g(rng) for _ in range(rng.choice([n, max(1, n // 2), 2]))]}


def decorate(rng, spec, info, *, rich=True):
    """body / header / title / footnote attributes in every shape, special texts, borders, widths"""
    from .props import c09

    body = spec["body"]
    cols = spec["df"]["cols"]
    ncols = len(cols)
    n = len(spec["df"]["rows"])
    shapes = {}
    for a in rng.sample(sorted(c09.ATTRS), rng.randint(0, 7 if rich else 3)):
        sh, v = _shape_value(rng, a, c09.ATTRS[a], n, ncols)
        body[a] = v
        shapes[a] = sh
    if rng.random() < 0.3:
        body["text_convert"] = rng.choice([False, [[rng.random() < 0.5 for _ in range(ncols)]]])
    if rng.random() < 0.3:
        body["col_rel_width"] = [rng.choice([1, 2, 1.5, 3, 0.7]) for _ in range(ncols)]
    if rng.random() < 0.3:
        body["border_first"] = rng.choice([rng.choice(STYLES), [rng.choice(STYLES) for _ in range(rng.choice([ncols, 2]))]])
    if rng.random() < 0.3:
        body["border_last"] = rng.choice([rng.choice(STYLES), [rng.choice(STYLES) for _ in range(ncols)]])
    if rng.random() < 0.15:
        # colours whose alphabetical order differs from their order in the colour table; quarter-point sizes
        pool = ["white", "gray9", "gray10", "gray100", "gray99", "aliceblue", "red"]
        body["text_color"] = [rng.choice(pool) for _ in range(ncols)]
        body["text_background_color"] = [[rng.choice(pool + [""]) for _ in range(ncols)] for _ in range(2)]
    if rng.random() < 0.12:
        body["text_font_size"] = rng.choice([8.25, 10.75, [8.25] + [10.75] * (ncols - 1)])
    if rng.random() < 0.15:
        body["border_top"] = [rng.choice(STYLES) for _ in range(rng.choice([ncols, 2]))]
    page = spec["page"]
    if rng.random() < 0.4:
        page["border_first"] = rng.choice(STYLES)
    if rng.random() < 0.4:
        page["border_last"] = rng.choice(STYLES)
    if rng.random() < 0.15:
        page["col_width"] = rng.choice([5.0, 6.5, 7.25, 4.8])
    # special texts in data cells (never in key columns)
    datacols = [j for j, c in enumerate(cols) if c.startswith("COL") and c != "COL0"]
    if n and rng.random() < 0.4:
        for r in spec["df"]["rows"]:
            for j in datacols:
                if isinstance(r[j], str) and rng.random() < 0.25:
                    r[j] = rng.choice(SPECIAL_TEXTS)
    # headers
    hs = spec["headers"]
    if isinstance(hs, list):
        for h in hs:
            nc = len(h.get("text") or [])
            if rng.random() < 0.4:
                h["text_format"] = rng.choice(["b", "i", ["b"] + [""] * max(0, nc - 1)])
            if rng.random() < 0.25:
                h["text_color"] = rng.choice(c09.COLORS)
            if rng.random() < 0.25:
                h["text_background_color"] = [rng.choice(c09.COLORS + [""]) for _ in range(max(1, nc))]
            if rng.random() < 0.3:
                h["border_bottom"] = rng.choice(STYLES)
            if rng.random() < 0.2:
                h["border_top"] = [rng.choice(STYLES) for _ in range(max(1, nc))]
            if rng.random() < 0.2:
                h["text_justification"] = [rng.choice(["l", "c", "r"]) for _ in range(max(1, nc))]
            if rng.random() < 0.2:
                h["cell_height"] = rng.choice([0.2, 0.3])
            if rng.random() < 0.2:
                h["text_font_size"] = rng.choice([8, 10.5, 12])
            if rng.random() < 0.2 and "col_rel_width" not in h and nc:
                h["col_rel_width"] = [rng.choice([1, 2, 1.5]) for _ in range(nc + rng.choice([0, 0, 1]))]
            if rng.random() < 0.15 and nc:
                h["text"] = [rng.choice(SPECIAL_TEXTS[:12]) if rng.random() < 0.3 else t for t in h["text"]]
            if rng.random() < 0.15:
                h["text_convert"] = False
    # title / subline / page header / footer
    t = spec.get("title")
    if t is not None:
        k = rng.choice([1, 2, 3])
        t["text"] = [f"TTL{i}" + rng.choice(["", " é", " \\alpha", " x_1", " a>=b"]) for i in range(k)]
        if rng.random() < 0.4:
            t["text_format"] = [rng.choice(["", "b", "i", "bi"]) for _ in range(rng.choice([1, k, 2]))]
        if rng.random() < 0.3:
            t["text_font_size"] = [rng.choice([10, 12, 14.5]) for _ in range(rng.choice([1, k]))]
        if rng.random() < 0.3:
            t["text_color"] = [rng.choice(c09.COLORS + ["", "black"]) for _ in range(rng.choice([1, k]))]
        if rng.random() < 0.2:
            t["text_justification"] = rng.choice(["l", "c", "r"])
        if rng.random() < 0.2:
            t["text_convert"] = False
        if rng.random() < 0.2:
            t["text_space"] = rng.choice([1, 2])
        if rng.random() < 0.2:
            t["text_indent_left"] = rng.choice([0, 300])
    s = spec.get("subline")
    if s is not None:
        if rng.random() < 0.3:
            s["text"] = ["SUBLN a", "SUBLN b é"]
        if rng.random() < 0.3:
            s["text_format"] = "i"
        if rng.random() < 0.3:
            s["text_background_color"] = rng.choice(c09.COLORS)
    for key in ("page_header", "page_footer"):
        c = spec.get(key)
        if c is not None and c and rng.random() < 0.5:
            c["text"] = rng.choice([["PGHDR x", "Page \\pagenumber of \\totalpage"], "PG \\pagefield", "Plain é"])
            c["text_convert"] = rng.random() < 0.6
            if rng.random() < 0.4:
                c["text_font_size"] = rng.choice([8, 9.5, 12])
            if rng.random() < 0.3:
                c["text_color"] = rng.choice(c09.COLORS)
    for key, tag in (("footnote", "FTNOTE"), ("source", "SRCTXT")):
        c = spec.get(key)
        if c is None:
            continue
        if rng.random() < 0.4:
            c["text"] = [tag + rng.choice(["", " \\beta", " x^2"]), "second line é", "a<=b"][:rng.choice([1, 2, 3])]
        if rng.random() < 0.3:
            c["text_justification"] = rng.choice(["l", "c", "r"])
        if rng.random() < 0.3:
            c["text_format"] = rng.choice(["b", "i"])
        if rng.random() < 0.25:
            c["text_color"] = rng.choice(c09.COLORS)
        if rng.random() < 0.25:
            c["border_bottom"] = rng.choice(STYLES)
        if rng.random() < 0.2:
            c["border_left"] = rng.choice(STYLES)
        if rng.random() < 0.15:
            # the component's own relative widths: one cell whatever their number
            c["col_rel_width"] = [rng.choice([1, 2, 1.5, 0.7]) for _ in range(rng.randint(1, 3))]
        if rng.random() < 0.2:
            c["text_font_size"] = rng.choice([7.5, 8, 10])
        if rng.random() < 0.15:
            c["text_convert"] = False
        if rng.random() < 0.15:
            c["cell_height"] = rng.choice([0.2, 0.25])
        if rng.random() < 0.15:
            c["border_color_top"] = rng.choice(c09.COLORS)
    info["shapes"] = shapes
    # enum values outside the C09 pools
    if rng.random() < 0.1:
        body["text_justification"] = rng.choice(["", ["l", ""]])
    if rng.random() < 0.1:
        body["cell_vertical_justification"] = rng.choice(["", "merge_first", "merge_rest"])
    if rng.random() < 0.08:
        body["col_rel_width"] = rng.choice([[2], [1] * (ncols + 1), 1.5, [1] * max(1, ncols - 1)])
    # a default (auto-text) header with its own formatting, or several of them
    if spec["headers"] == "default" and rng.random() < 0.3:
        spec["headers"] = [dict(text_format="b", text_color=rng.choice(c09.COLORS))] * rng.choice([1, 1, 2])
    # a first header object without text in front of one with text
    if isinstance(spec["headers"], list) and spec["headers"] and spec["headers"][0].get("text") and rng.random() < 0.1:
        spec["headers"] = [dict(text_format="i", border_bottom="double")] + spec["headers"]
        if rng.random() < 0.5:
            body["as_colheader"] = False
    # key columns: a null group, integer keys
    keycols = [j for j, c in enumerate(cols) if c.startswith("PB") or c.startswith("SL")]
    for j in keycols:
        vals = [r[j] for r in spec["df"]["rows"]]
        if not vals:
            continue
        r0 = rng.random()
        if r0 < 0.12:
            x = rng.choice(vals)
            for r in spec["df"]["rows"]:
                if r[j] == x:
                    r[j] = None
        elif r0 < 0.34:
            # numeric keys (ints, or floats for a part of them): headings show str(value)
            code = {}
            off = 0.5 if r0 > 0.28 else 0
            for v in vals:
                code.setdefault(v, len(code) + 1 + off)
            for r in spec["df"]["rows"]:
                r[j] = code[r[j]] if r[j] != "-----" or "-----" not in code else r[j]
    # a boolean data column
    if n and len(datacols) > 1 and rng.random() < 0.08:
        j = datacols[-1]
        for r in spec["df"]["rows"]:
            r[j] = rng.choice([True, False, None])
    # a component whose text is empty
    if rng.random() < 0.04 and spec.get("footnote") is not None:
        spec["footnote"]["text"] = rng.choice(["", []])
    if rng.random() < 0.03 and spec.get("title") is not None:
        spec["title"]["text"] = []
    # border colours of column headers, footnote, source (collected since the repo fix of collect_document_colors):
    # a colour of the pool (possibly used nowhere else in the document), "black" (index 0), "" (no \brdrcf)
    hs = spec["headers"]
    if isinstance(hs, list):
        for h in hs:
            if h is not None and rng.random() < 0.25:
                nc = len(h.get("text") or [])
                for f in rng.sample(["border_color_left", "border_color_right", "border_color_top",
                                     "border_color_bottom", "border_color_first", "border_color_last"], rng.randint(1, 3)):
                    h[f] = (rng.choice(BORDER_COLORS) if rng.random() < 0.6
                            else [rng.choice(BORDER_COLORS) for _ in range(max(1, nc))])
    for key in ("footnote", "source"):
        c = spec.get(key)
        if c is not None and rng.random() < 0.2:
            for f in rng.sample(["border_color_left", "border_color_right", "border_color_bottom",
                                 "border_color_first", "border_color_last"], rng.randint(1, 2)):
                c[f] = rng.choice(BORDER_COLORS)


def add_group_by(rng, spec, info):
    """group_by over 1..3 new data columns with hierarchical, contiguous run keys (some nulls)"""
    n = len(spec["df"]["rows"])
    levels = rng.choice([1, 1, 2, 3])
    names = [f"GB{l}" for l in range(levels)]
    outer = None
    cols_vals = []
    for l in range(levels):
        alpha = [f"g{l}{x}" for x in "abcdef"]
        if outer is None:
            vals = docgen.run_keys(rng, n, alpha, 1, 6)
        else:
            vals = []
            i = 0
            while i < n:
                j = i
                while j < n and outer[j] == outer[i]:
                    j += 1
                vals += docgen.run_keys(rng, j - i, alpha, 1, 4)
                i = j
        cols_vals.append(vals)
        outer = vals if outer is None else [a + "|" + b for a, b in zip(outer, vals)]
    if n and rng.random() < 0.15:
        # a null run in the innermost level
        v = cols_vals[-1]
        i = rng.randrange(n)
        x = v[i]
        j = i
        while j < n and v[j] == x and (levels == 1 or cols_vals[-2][j] == cols_vals[-2][i]):
            v[j] = None
            j += 1
    if n >= 3 and rng.random() < 0.12:
        # non-contiguous keys at some level (within one parent group for the deeper levels): the one refusal C01 allows,
        # ValueError — whatever the type of the key values
        l = rng.randrange(levels)
        v = cols_vals[l]
        parent = (lambda i: tuple(cols_vals[m][i] for m in range(l)))
        cand = [(i, j) for i in range(n) for j in range(i + 2, n)
                if parent(i) == parent(j) and v[i] != v[j] and any(v[m] != v[i] for m in range(i + 1, j))
                and all(parent(m) == parent(i) for m in range(i, j + 1))]
        if cand:
            i, j = rng.choice(cand)
            v[j] = v[i]
    if n and rng.random() < 0.25:
        # a level whose keys are integers (codes of the string values)
        l = rng.randrange(levels)
        code = {}
        for x in cols_vals[l]:
            if x is not None:
                code.setdefault(x, len(code) + 1)
        cols_vals[l] = [None if x is None else code[x] for x in cols_vals[l]]
    spec["df"]["cols"] = spec["df"]["cols"] + names
    for i, r in enumerate(spec["df"]["rows"]):
        for l in range(levels):
            r.append(cols_vals[l][i])
    spec["body"]["group_by"] = names if rng.random() < 0.85 else names[0]
    hs = spec["headers"]
    if isinstance(hs, list):
        for h in hs:
            if h.get("text") and len(h["text"]) == len(info["displayed"]) and "col_rel_width" not in h:
                h["text"] = h["text"] + [f"HDGB{l}" for l in range(levels)]
    info["group_by"] = names
    info["displayed"] = info["displayed"] + names


def body_width_count(spec) -> int:
    """number of entries of the body's `col_rel_width` after construction (`_resolve_body_widths`): what a header
    without widths of its own inherits"""
    ncols = len(spec["df"]["cols"])
    w = (spec.get("body") or {}).get("col_rel_width")
    if w is None:
        return ncols
    if not isinstance(w, list):
        w = [w]
    return ncols if len(w) == 1 and ncols > 1 else len(w)


def cell_class(n: int, nd: int, ncols: int) -> str:
    """where the number of cells of a header row sits between the displayed (`nd`) and the original (`ncols`) columns"""
    if n > ncols:
        return "over"
    if n == nd:
        return "displayed"
    if n == ncols:
        return "original"
    if n > nd:
        return "between"
    return "span" if n == 1 else "fewer"


HEADER_WIDTH_MODES = ["inherit", "inherit", "inherit", "per-original", "per-original", "per-displayed", "per-cell",
                      "per-cell+1", "one"]


def vary_headers(rng, spec, info, *, in_domain=False):
    """Explicit column header rows written WITHOUT regard to which columns the table ends up displaying.

    1–3 header rows; each row has any number of cells from 1 to (original column count + 1) — a spanning cell, fewer
    than / exactly / more than the displayed columns, one cell per ORIGINAL column (the row still names the page_by /
    subline_by / page_by-as-spanning-row columns that are taken out of the table), one more than that — and its
    `col_rel_width` is absent (inherited from the body: one entry per original column), or given per original column,
    per displayed column, per cell, per cell + 1, or as a single entry.  Rows with more cells than width entries raise
    IndexError in the unchanged encoder (listed domain decision, DESIGN §8; the encoder model raises the same):
    `in_domain=True` never writes them, otherwise they are kept rare.  Attributes already on the header objects stay."""
    cols = spec["df"]["cols"]
    ncols = len(cols)
    removed = set(info.get("removed") or [])
    nd = len([c for c in cols if c not in removed])
    mbody = body_width_count(spec)
    old = spec["headers"] if isinstance(spec["headers"], list) else []
    old = [h for h in old if isinstance(h, dict)]
    nrows = rng.choice([1, 1, 2, 2, 3])
    rows = []
    for r in range(nrows):
        last = r == nrows - 1
        pool = [1, nd, ncols, ncols, rng.randint(1, ncols), rng.randint(1, ncols + 1), ncols + 1]
        if last:
            pool += [nd, ncols, ncols]            # the row right above the data usually names columns
        else:
            pool += [1, 1, max(1, nd // 2)]       # upper rows usually span
        n = rng.choice(pool)
        wmode = rng.choice(HEADER_WIDTH_MODES)
        m = {"inherit": mbody, "per-original": ncols, "per-displayed": nd, "per-cell": n, "per-cell+1": n + 1,
             "one": 1}[wmode]
        if n > m and (in_domain or rng.random() < 0.85):
            if rng.random() < 0.5:
                n = rng.randint(1, m)
            else:
                wmode, m = rng.choice([("per-cell", n), ("per-cell+1", n + 1)])
        h = dict(old[r]) if r < len(old) else {}
        h["text"] = [f"HD{r}c{j}" for j in range(n)]
        h.pop("col_rel_width", None)
        if wmode != "inherit":
            h["col_rel_width"] = [rng.choice([1, 1, 2, 1.5, 3, 0.7]) for _ in range(m)]
        rows.append(h)
    spec["headers"] = rows
    info["header_mode"] = "varied"


def label_headers(spec, info):
    """`info["header_rows"]` = per explicit header row of the final spec [cells, cell-count class, width mode,
    widths cover the cells]; `info["n_removed"]` = columns taken out of the table"""
    cols = spec["df"]["cols"]
    ncols = len(cols)
    removed = set(info.get("removed") or [])
    nd = len([c for c in cols if c not in removed])
    mbody = body_width_count(spec)
    labels = []
    hs = spec.get("headers")
    for h in (hs if isinstance(hs, list) else []):
        if not isinstance(h, dict) or not isinstance(h.get("text"), list) or not h["text"]:
            continue
        n = len(h["text"])
        w = h.get("col_rel_width")
        if w is None:
            wmode, m = "inherit", mbody
        else:
            m = len(w) if isinstance(w, list) else 1
            wmode = ("per-original" if m == ncols and ncols > nd else "per-displayed" if m == nd else
                     "per-cell" if m == n else "per-cell+1" if m == n + 1 else "one" if m == 1 else "other")
        labels.append([n, cell_class(n, nd, ncols), wmode, n <= m])
    info["header_rows"] = labels
    info["n_removed"] = ncols - nd


def count_header_rows(res, info, prefix="hdrcells"):
    """evidence labels for the explicit header rows of a document: cell-count class / width mode per row, and the
    number of columns the table loses to page_by / subline_by"""
    rows = info.get("header_rows")
    if not rows:
        return
    nr = int(info.get("n_removed", 0))
    for n, cls, wmode, covered in rows:
        res.count(f"{prefix}:{'removal' if nr else 'no-removal'}:{cls}/{wmode}" +
                  ("" if covered else ":more-cells-than-widths"))
    if info.get("header_mode") == "varied":
        res.count(f"{prefix}:varied:removed-columns={min(nr, 3)}{'+' if nr > 3 else ''}")
        res.count(f"{prefix}:varied:rows={len(rows)}")


HV_STRATEGIES = ["page_by", "page_by", "page_by_np_first", "page_by_np_first", "subline", "subline",
                 "subline_page_by", "subline_page_by", "page_by_np"]


def gen_doc(rng, stage: int, k: int, vary: bool = False):
    """`vary`: documents of the header-variation class (`vary_headers`) — same stages; stage 2 prefers the strategies
    that take columns out of the table"""
    from .props import c01, c02, c06, c09

    if vary:
        geo = c06.rand_geometry(rng)
        strategy = "plain" if stage == 1 or (stage == 3 and rng.random() < 0.4) else rng.choice(HV_STRATEGIES)
        n = 0 if rng.random() < 0.04 else rng.randint(1, 30)
        spec, info = laygen.gen_spec(rng, strategy=strategy, n=n, dividers=(k % 4 == 0), geometry=geo or None,
                                     header_mode="explicit", page_headers=(rng.random() < 0.3),
                                     nulls=rng.choice([0.0, 0.0, 0.1]), ndata=rng.choice([1, 2, 2, 3, 4]),
                                     levels=None if strategy == "plain" else rng.choice([None, 1, 2, 3]))
        info["gen"] = "laygen+headers"
        if strategy != "plain" and rng.random() < 0.5:
            c09.permute_columns(rng, spec, info)
        if stage == 3:
            add_group_by(rng, spec, info)
        if rng.random() < 0.4:
            ncols = len(spec["df"]["cols"])
            spec["body"]["col_rel_width"] = [rng.choice([1, 2, 1.5, 3, 0.7]) for _ in range(ncols)]
        vary_headers(rng, spec, info)
        if rng.random() < 0.5:
            decorate(rng, spec, info, rich=False)
        label_headers(spec, info)
        return spec, info
    if k % 7 == 6:
        # the mixed generator of C01 (single-section table documents only)
        kk = k
        while kk % 12 in (10, 11):
            kk += 1
        spec, info = c01.gen_case(rng, kk)
        want = 3 if spec["body"].get("group_by") else 2 if (info["page_by"] or info["subline_by"]) else 1
        if want == stage:
            info["gen"] = "c01"
            return spec, info
    geo = c06.rand_geometry(rng)
    if stage == 1 or (stage == 3 and rng.random() < 0.6):
        strategy = "plain"
    else:
        strategy = rng.choice(laygen.STRATEGIES[1:])
    n = None
    if rng.random() < 0.06:
        n = 0
    elif rng.random() < 0.1:
        n = rng.randint(41, 60)
    spec, info = laygen.gen_spec(rng, strategy=strategy, n=n, dividers=(k % 4 == 0), geometry=geo or None,
                                 page_headers=(rng.random() < 0.5), nulls=rng.choice([0.0, 0.0, 0.1]),
                                 levels=None if strategy == "plain" else rng.choice([None, 1, 2, 3]))
    info["gen"] = "laygen"
    if info["page_by"] and len(info["page_by"]) >= 2 and rng.random() < 0.35:
        # short runs over tiny alphabets with dividers at every level (page_by needs no sorted data): the same inner
        # value recurs under different outer groups, separated by divider groups
        info["gen"] = "laygen+dividers"
        if rng.random() < 0.5:
            spec["page"]["nrow"] = 60
        cols0 = spec["df"]["cols"]
        combo = None
        left = 0
        for r in spec["df"]["rows"]:
            if left == 0:
                combo = [rng.choice([f"G{l}a", f"G{l}b", "-----"]) for l in range(len(info["page_by"]))]
                left = rng.randint(1, 3)
            left -= 1
            for l, c in enumerate(info["page_by"]):
                r[cols0.index(c)] = combo[l]
    if rng.random() < 0.3:
        spec["page_header"] = {}
    if strategy != "plain" and rng.random() < 0.5:
        c09.permute_columns(rng, spec, info)
    if rng.random() < 0.5:
        c02.mutate_cells(rng, spec, info, convert_off=False)
    if stage == 3:
        add_group_by(rng, spec, info)
    decorate(rng, spec, info)
    return spec, info


_PLAIN_DATA_COL = re.compile(r"^COL\d+$")


def unicode_cells(rng, spec, info, p_doc=0.25, p_cell=0.4):
    """rewrite string cells of the plain data columns (not COL0: its sentinel identifies the row; not the key columns)
    of one document in four with texts of the boundary family: the characters after the cell's text, or alone"""
    from . import unitext

    if rng.random() >= p_doc or not isinstance(spec.get("df"), dict):
        return
    cols = spec["df"]["cols"]
    idx = [j for j, c in enumerate(cols) if _PLAIN_DATA_COL.match(str(c)) and c != "COL0"]
    grouped = set((spec.get("body") or {}).get("group_by") or [])
    cells = 0
    for r in spec["df"]["rows"]:
        for j in idx:
            v = r[j]
            if not isinstance(v, str) or " " in v.strip() or "\\" in v or rng.random() >= p_cell:
                continue
            bare = cols[j] not in grouped and rng.random() < 0.3
            r[j] = unitext.draw_text(rng, None if bare else v, kmax=2)[1]
            cells += 1
    if cells:
        info["unicode_cells"] = cells


def stage_of(spec) -> int:
    b = spec.get("body") or {}
    if b.get("group_by"):
        return 3
    if b.get("page_by") or b.get("subline_by"):
        return 2
    return 1


# ----------------------------------------------------------------------------- correspondence

def _worker(args):
    seed, stage, k, fixed, *rest = args
    try:
        if fixed is not None:
            spec, info = fixed["spec"], fixed.get("info", {})
        elif rest and rest[0] == "shapes":
            # the data-shape class (`harness/datashapes.py`): whole columns untyped-null / typed-null / null but one
            # value / Object / zero rows, in every role; its own random stream
            from . import datashapes

            spec, info = datashapes.gen_corr_doc(common.sub_rng(seed, "encodecorr", "shapes", stage, k), stage, k)
        elif rest and rest[0]:
            # the header-variation class (`vary_headers`): its own random stream, the stages' streams stay as they were
            spec, info = gen_doc(common.sub_rng(seed, "encodecorr", "headers", stage, k), stage, k, vary=True)
            if len(rest) > 1 and rest[1] is True:
                # the same document with its component arguments in other container spellings (docgen "spelling":
                # headers as a tuple / a single object, texts as str / list / tuple / frame); single frames only
                srng = common.sub_rng(seed, "encodecorr", "spelling", stage, k)
                force = {"headers": "tuple"} if spec["headers"] and k % 3 != 2 else {}
                spec["spelling"] = docgen.gen_spelling(srng, spec, p=0.6, force=force)
                spec["spelling"].pop("sections", None)
                info["spelling_labels"] = docgen.spelling_labels(spec)
        else:
            spec, info = gen_doc(common.sub_rng(seed, "encodecorr", stage, k), stage, k)
            label_headers(spec, info)
            # one document in four: data cells with characters at and around the range boundaries of the text writer
            # (harness/unitext.py); its own random stream, the stages' streams stay as they were
            unicode_cells(common.sub_rng(seed, "encodecorr", "unitext", stage, k), spec, info)
        if fixed is None and len(rest) > 1 and rest[1] == "args":
            # the argument-spelling class: the document of any of the three classes above with EVERY container-typed
            # constructor argument in another container the constructors accept (docgen `gen_spelling(args=True)`:
            # column-name arguments as tuple / bare str, each on its own; margin, col_rel_width, texts, header list);
            # the encoder model reads the constructed state's entries, whatever sequence holds them
            respell(common.sub_rng(seed, "encodecorr", "argspelling", stage, k, str(rest[0])), spec, info,
                    drop=("sections",))
        if fixed is None and len(rest) > 1 and rest[1] == "zerow":
            # the zero-width-column class (`harness/zerowidth.py`): tiny relative widths on displayed columns other than
            # the first (body; header rows with their own widths) — equal adjacent cumulative boundaries, which the
            # model computes exactly and the encoder in floating point
            from . import zerowidth

            zerowidth.apply(common.sub_rng(seed, "encodecorr", "zerowidth", stage, k, str(rest[0])), spec, info)
            if rest[0]:
                label_headers(spec, info)
        if fixed is None:
            draw_unserialized(seed, spec, info, stage, k, *map(str, rest))
        out = dict(spec=spec, info=info, stage=stage)
        try:
            with contextlib.redirect_stdout(io.StringIO()):
                doc = docgen.build(spec)
        except Exception as e:  # noqa: BLE001
            out.update(status="construct-error", exc=docgen.classify_exc(e), msg=str(e)[:200])
            return out
        try:
            state, widths, real = encode_real(doc)
        except TypeError as e:
            # what construction left behind is outside the encoder model's input domain (`serialize` refuses it):
            # no model text to compare with — a broken correspondence, not a failure of the machinery
            out.update(status="unserializable", exc="TypeError", msg=str(e)[:200])
            return out
        out.update(status=real[0], req=request(state, widths, check=True))
        if real[0] == "ok":
            out["real"] = real[1]
        else:
            out["exc"], out["msg"] = real[1], real[2]
        return out
    except Exception:  # noqa: BLE001
        import traceback

        return dict(machinery=traceback.format_exc()[-1500:])


STAGE_NAMES = {1: "plain", 2: "page_by/subline_by", 3: "group_by"}


def respell(rng, spec, info, drop=(), p=0.6):
    """hand every container-typed constructor argument of `spec` over in a drawn container spelling (the spec stays in
    its plain shape: key "spelling"); `drop` = spelling keys the caller's serialiser cannot follow"""
    force = {}
    h = spec.get("headers", "default")
    if spec.get("kind", "table") != "figure" and isinstance(h, list) and h and "headers" not in drop \
            and rng.random() < 0.5:
        force["headers"] = "tuple"
    sp = docgen.gen_spelling(rng, spec, p=p, force=force, args=True)
    for k in drop:
        sp.pop(k, None)
    spec["spelling"] = sp
    info["spelling_labels"] = ["argspelled-doc"] + docgen.spelling_labels(spec)


def count_spelling(res, info, prefix):
    for lab in info.get("spelling_labels") or []:
        res.count(f"{prefix}:{lab}")


def compare(outs):
    """adds `verdict` ∈ {agree, differ, near, model-error, both-error, real-error, construct-error} and `why`"""
    live = [o for o in outs if "req" in o]
    drv = model_batch([o["req"] for o in live])
    for o, d in zip(live, drv):
        o["model"] = d
    for o in outs:
        if o.get("status") == "construct-error":
            o["verdict"], o["why"] = "construct-error", f"{o['exc']}: {o['msg']}"
            continue
        if o.get("status") == "unserializable":
            o["verdict"] = "state-outside-model"
            o["why"] = f"the document state after construction is outside the encoder model's input domain: {o['msg']}"
            continue
        d = o["model"]
        if o["status"] == "ok":
            if "text" not in d:
                o["verdict"], o["why"] = "model-error", f"the model says the encoder raises {d['error']}, it does not"
            elif d["text"] == o["real"]:
                o["verdict"], o["why"] = "agree", ""
            elif d.get("near", 0) > 0:
                o["verdict"] = "near"
                o["why"] = f"{d['near']} value(s) within 2^-30 of a rounding boundary; " + describe_diff(d["text"], o["real"])
            else:
                o["verdict"], o["why"] = "differ", describe_diff(d["text"], o["real"])
        else:
            if "text" in d:
                o["verdict"] = "real-error"
                o["why"] = f"rtf_encode() raises {o['exc']}: {o['msg']}; the model returns a document"
            else:
                same = d["error"] == o["exc"] or (d["error"] in ("ValueError", "ValidationError") and
                                                  o["exc"] in ("ValueError", "ValidationError"))
                o["verdict"] = "both-error" if same else "error-kind"
                o["why"] = f"rtf_encode() raises {o['exc']} ({o['msg']}); model: {d['error']}"
    return outs


HEADER_SHARE = {1: 6, 2: 2, 3: 4}      # header-variation documents per stage: n_per_stage // share
SHAPE_SHARE = {1: 6, 2: 4, 3: 2}       # data-shape documents per stage (`harness/datashapes.py`)
ARGSPELL_SHARE = {1: 8, 2: 3, 3: 4}    # argument-spelling documents per stage (`respell`)


def generate_and_compare(seed: int, n_per_stage: int, stages=(1, 2, 3), headers: bool = False, shapes: bool = False,
                         spelled: int = 0, argspelled: bool = False, zerowidth: int = 0):
    """`headers=True` adds the documents of the header-variation class (`vary_headers`) to every stage, `shapes=True`
    those of the data-shape class (`datashapes.gen_corr_doc`); `spelled` adds that many documents of the header class per
    stage with their component arguments in other container spellings"""
    jobs = [(seed, st, k, None) for st in stages for k in range(n_per_stage)]
    if headers:
        jobs += [(seed, st, k, None, True) for st in stages for k in range(n_per_stage // HEADER_SHARE[st])]
    if shapes:
        jobs += [(seed, st, k, None, "shapes") for st in stages for k in range(n_per_stage // SHAPE_SHARE[st])]
    jobs += [(seed, st, k, None, True, True) for st in stages for k in range(spelled)]
    if argspelled:
        # the argument-spelling class over the three document classes in turn (plain stream / header class / data shapes)
        jobs += [(seed, st, k, None, (False, True, "shapes")[k % 3], "args") for st in stages
                 for k in range(n_per_stage // ARGSPELL_SHARE[st])]
    # the zero-width-column class (`harness/zerowidth.py`): that many documents per stage, plain stream / header class
    jobs += [(seed, st, k, None, (False, True)[k % 2], "zerow") for st in stages for k in range(zerowidth)]
    outs = common.pool_map(_worker, jobs, chunksize=8)
    for o in outs:
        if "machinery" in o:
            raise common.MachineryError("worker failed: " + o["machinery"])
    return compare(outs)


def run(res, tier):
    """per-stage byte agreement of the encoder model with the implementation; returns the list of outcomes"""
    n = 150 if tier == "quick" else 1200
    from . import datashapes

    from . import zerowidth

    outs = generate_and_compare(res.seed, n, headers=True, shapes=True, argspelled=True, zerowidth=n // 4)
    for o in outs:
        st = STAGE_NAMES[stage_of(o["spec"])]
        zerowidth.count(res, o["info"], f"zerowidth:encode:{o['verdict']}")
        count_spelling(res, o["info"], f"spell:encode:{o['verdict']}")
        case = dict(level="encode-doc", spec=o["spec"], info={k: v for k, v in o["info"].items() if k != "expect"})
        res.count(f"encode:{st}:{o['verdict']}")
        count_header_rows(res, o["info"])
        datashapes.count(res, o["info"], prefix="datashape:encode")
        if o["verdict"] in ("agree", "both-error"):
            res.corr_checked += 1
        elif o["verdict"] in ("near", "construct-error"):
            pass
        elif o["verdict"] == "error-kind" and o["model"].get("error") == "ValueError":
            # the model refuses with the ValueError C01 allows (non-contiguous group_by keys); the encoder refuses with
            # another exception class
            res.corr_checked += 1
            res.fail(case, f"rtf_encode() raises {o['exc']}: {o['msg'][:300]} — the only refusal allowed is ValueError "
                           f"(non-contiguous group_by keys); {st}")
        elif o["verdict"] == "real-error":
            # the model (which reproduces every refusal of the unchanged encoder) returns a document and the encoder
            # raises on a configuration accepted at construction: C01's first clause fails on this very input
            res.corr_checked += 1
            res.fail(case, f"rtf_encode() raises {o['exc']}: {o['msg'][:300]} — an accepted configuration must encode "
                           f"({st}; the encoder model returns a document for it)")
        else:
            res.corr_checked += 1
            res.disagree(case, f"encoder model vs rtf_encode() ({st}): {o['why']}")
    return outs


def main(argv):
    n = int(argv[1]) if len(argv) > 1 else 200
    seed = int(argv[2]) if len(argv) > 2 else 0
    import time

    t0 = time.time()
    outs = generate_and_compare(seed, n, headers=True, shapes=True)
    stats: dict = {}
    for o in outs:
        st = stage_of(o["spec"])
        stats.setdefault(st, {}).setdefault(o["verdict"], []).append(o)
    for st in sorted(stats):
        tot = sum(len(v) for v in stats[st].values())
        print(f"stage {st} ({STAGE_NAMES[st]}): {tot} documents")
        for v, lst in sorted(stats[st].items(), key=lambda kv: -len(kv[1])):
            print(f"   {v:16s} {len(lst):6d}  ({100.0 * len(lst) / tot:.2f} %)")
    bad = [o for o in outs if o["verdict"] in ("differ", "model-error", "real-error", "error-kind")]
    for o in bad[:int(argv[3]) if len(argv) > 3 else 5]:
        print("---", o["verdict"], "stage", stage_of(o["spec"]), o["info"].get("strategy"), o["info"].get("gen"))
        print("   ", o["why"][:900])
    if len(argv) > 4:
        with open(argv[4], "w") as f:
            json.dump([dict(spec=o["spec"], info=o["info"], verdict=o["verdict"], why=o["why"]) for o in bad], f,
                      default=str)
    okdocs = [o for o in outs if o["verdict"] == "agree"]
    print(f"agreeing documents whose model tree satisfies docOkFast: {sum(1 for o in okdocs if o['model'].get('docOk'))}"
          f" / {len(okdocs)}; Lean wellFormed of the model text: {sum(1 for o in okdocs if o['model'].get('wf'))}")
    nn = sum(1 for o in outs if o.get("model", {}).get("near", 0) > 0)
    print(f"documents with a value within 2^-30 of a rounding boundary: {nn} (of which differing: "
          f"{sum(1 for o in outs if o['verdict'] == 'near')})")
    pages = [o["real"].count("\\page{") + 1 for o in outs if o.get("status") == "ok"]
    if pages:
        print(f"pages per document: mean {sum(pages) / len(pages):.1f}, max {max(pages)}; "
              f"mean size {sum(len(o['real']) for o in outs if o.get('status') == 'ok') // len(pages)} chars")
    print(f"wall {time.time() - t0:.1f}s")
    return 1 if bad else 0


if __name__ == "__main__":
    sys.exit(main(sys.argv))
