"""Python → Lean translator for a small imperative subset (the *translator tie*).

For a handful of pure functions of rtflite whose logic carries a property (the page-assignment loop, the
placement rule, the non-ASCII escaper, …) the Lean definition is **regenerated from the function's source on
every run**: `generate()` parses the function with `ast`, translates it statement by statement into a
state-passing Lean term and writes `lean/Generated/Py<Name>.lean`.  `lean/Props/C..py.lean` then proves that the
generated definition equals the hand-written model the property theorems are about, for all inputs.  A change of
the code inside the subset changes the generated definition and breaks that proof (or leaves it intact when the
change is an equivalent rewrite the proof script can see through); a change that leaves the subset makes the
function untranslatable, which is recorded (`status.json`) and leaves the correspondence check as the only tie.

Subset (everything else → `Untranslatable`):
  statements   x = e | x += e | x -= e | if/elif/else | for v in e | for i, v in enumerate(e) | continue (last
               statement of an `if` body directly inside a loop body) | return e (function level, or last statement
               of a function-level `if` body) | d[k] = e on a configured record list (an output column) | docstrings
  expressions  int / bool / str constants, names, + - * // % (// and % by a positive literal), >> k, & (2^k - 1),
               and / or / not on booleans, comparisons, `a if c else b`, max, min, len, ord, list displays,
               f-strings of str / int pieces, `{...}.get(k, default)` on a dict display, configured attribute
               paths and record fields
  types        Int (Python int, unbounded), Bool, Str = List Nat (code points), List Int, configured records

Python semantics relied on: ints are unbounded (Lean `Int`); `//` and `%` by a positive literal are floor division
and its remainder (= Lean's `/` and `%` on `Int` for a positive divisor); `x >> k` = ⌊x / 2^k⌋ and `x & (2^k-1)` =
x mod 2^k for every int; `and`/`or`/`not` are only accepted on expressions typed Bool, so truthiness never enters;
every variable is assigned before it is read on every path (checked), so the defaults of the state record are
never observed.
"""
from __future__ import annotations

import ast
import json
import textwrap
from pathlib import Path

def repo_src() -> Path:
    """the source tree of the rtflite that the checks import (= /repo/src/rtflite unless PYTHONPATH points a run at a
    scratch copy, as tools/seedcheck.py does)"""
    import importlib.util

    spec = importlib.util.find_spec("rtflite")
    return Path(spec.origin).parent

OUT = Path(__file__).resolve().parent.parent / "lean" / "Generated"


class Untranslatable(Exception):
    pass


# ----------------------------------------------------------------------------------------- configuration

TARGETS = [
    dict(
        name="AssignPages", file="pagination/core.py", cls="PageBreakCalculator", func="_assign_pages",
        doc="PageBreakCalculator._assign_pages: the page number of every row",
        records={}, records_from={"Row": ("pagination/core.py", "RowMetadata")},   # fields read off the class
        params=[("nrow", "Int"), ("additional_rows_per_page", "Int"), ("new_page", "Bool"), ("rows", "List Row")],
        skip_params=["self", "meta_df"],
        # source expressions (ast.unparse form) that denote inputs
        env={"self.pagination.nrow": ("nrow", "Int"), "meta_df.height": ("(Int.ofNat rows.length)", "Int"),
             "meta_df.to_dicts()": ("rows", "List Row")},
        alias={"rows": "rows"},                 # `rows = meta_df.to_dicts()` binds a name to an input
        outputs={"page": "Int"},                # row["page"] = e  → appended to the output column `page`
        returns={"meta_df": "([] : List Int)", "pl.DataFrame(rows)": "s.out_page"},
        ret_type="List Int",
    ),
    dict(
        name="ShouldShow", file="pagination/processor.py", cls="PageFeatureProcessor", func="_should_show_element",
        doc="PageFeatureProcessor._should_show_element: is a 'first' / 'last' / 'all' component shown on this page",
        records={},
        params=[("element_location", "Str"), ("is_first_page", "Bool"), ("is_last_page", "Bool")],
        skip_params=["self", "page"],
        env={"page.is_first_page": ("is_first_page", "Bool"), "page.is_last_page": ("is_last_page", "Bool")},
        alias={}, outputs={}, returns={}, ret_type="Bool",
    ),
    dict(
        name="ShouldShowRenderer", file="encoding/renderer.py", cls="PageRenderer", func="_should_show",
        doc="PageRenderer._should_show: the renderer's own copy of the placement rule",
        records={},
        params=[("location", "Str"), ("is_first_page", "Bool"), ("is_last_page", "Bool")],
        skip_params=["self", "page"],
        env={"page.is_first_page": ("is_first_page", "Bool"), "page.is_last_page": ("is_last_page", "Bool")},
        alias={}, outputs={}, returns={}, ret_type="Bool",
    ),
    dict(
        name="EscapeNonAscii", file="row.py", cls="TextContent", func="_escape_non_ascii",
        doc="TextContent._escape_non_ascii: 7-bit characters as they are, everything else as \\uc1\\uN* per UTF-16 unit",
        records={}, params=[("text", "Str")], skip_params=[], env={}, alias={}, outputs={}, returns={},
        ret_type="Str",
    ),
]


# ----------------------------------------------------------------------------------------- translator

def lean_str(s: str) -> str:
    return "[" + ", ".join(str(ord(c)) for c in s) + "]"


DEFAULT = {"Int": "0", "Bool": "false", "Str": "[]", "List Int": "[]", "Char": "0"}


class Fn:
    def __init__(self, cfg, node: ast.FunctionDef):
        self.cfg = cfg
        self.node = node
        self.vars: dict[str, str] = {}           # local name → type (state record fields)
        self.bound: dict[str, tuple[str, str]] = {}   # loop variables / aliases → (lean term, type)
        self.params = dict(cfg["params"])
        self.fresh = 0
        self.loops: list[str] = []               # emitted loop-body definitions, innermost first
        self.loopvars: list[tuple[str, str]] = []     # enclosing loop variables (lean name, lean type)
        for out, ty in cfg["outputs"].items():
            self.vars["out_" + out] = f"List {ty}"

    # ---- expressions: returns (lean, type)
    def expr(self, e, defined) -> tuple[str, str]:
        src = ast.unparse(e)
        if src in self.cfg["env"]:
            return self.cfg["env"][src]
        if isinstance(e, ast.Constant):
            if isinstance(e.value, bool):
                return ("true" if e.value else "false"), "Bool"
            if isinstance(e.value, int):
                return f"({e.value} : Int)", "Int"
            if isinstance(e.value, str):
                return f"({lean_str(e.value)} : List Nat)", "Str"
            raise Untranslatable(f"constant {src}")
        if isinstance(e, ast.Name):
            if e.id in self.bound:
                return self.bound[e.id]
            if e.id in self.vars:
                if e.id not in defined:
                    raise Untranslatable(f"variable {e.id} may be read before it is assigned")
                return f"s.{e.id}", self.vars[e.id]
            if e.id in self.params:
                return e.id, self.params[e.id]
            raise Untranslatable(f"unknown name {e.id}")
        if isinstance(e, ast.BinOp):
            a, ta = self.expr(e.left, defined)
            if isinstance(e.op, (ast.RShift, ast.BitAnd, ast.FloorDiv, ast.Mod)):
                if not (isinstance(e.right, ast.Constant) and isinstance(e.right.value, int) and ta == "Int"):
                    raise Untranslatable(f"operator in {src} needs an int literal on the right")
                k = e.right.value
                if isinstance(e.op, ast.RShift) and k >= 0:
                    return f"({a} / ({2 ** k} : Int))", "Int"
                if isinstance(e.op, ast.BitAnd) and k > 0 and (k + 1) & k == 0:
                    return f"({a} % ({k + 1} : Int))", "Int"
                if isinstance(e.op, ast.FloorDiv) and k > 0:
                    return f"({a} / ({k} : Int))", "Int"
                if isinstance(e.op, ast.Mod) and k > 0:
                    return f"({a} % ({k} : Int))", "Int"
                raise Untranslatable(f"operator in {src}")
            b, tb = self.expr(e.right, defined)
            if isinstance(e.op, (ast.Add, ast.Sub, ast.Mult)) and ta == tb == "Int":
                op = {ast.Add: "+", ast.Sub: "-", ast.Mult: "*"}[type(e.op)]
                return f"({a} {op} {b})", "Int"
            if isinstance(e.op, ast.Add) and ta == tb and (ta == "Str" or ta.startswith("List ")):
                return f"({a} ++ {b})", ta
            if isinstance(e.op, ast.Add) and ta == "Str" and tb == "Char":
                return f"({a} ++ [{b}])", "Str"
            raise Untranslatable(f"binary operation {src} on {ta}, {tb}")
        if isinstance(e, ast.BoolOp):
            parts = [self.expr(v, defined) for v in e.values]
            if any(t != "Bool" for _, t in parts):
                raise Untranslatable(f"and/or on non-boolean operands in {src}")
            op = " && " if isinstance(e.op, ast.And) else " || "
            return "(" + op.join(p for p, _ in parts) + ")", "Bool"
        if isinstance(e, ast.UnaryOp) and isinstance(e.op, ast.Not):
            a, ta = self.expr(e.operand, defined)
            if ta != "Bool":
                raise Untranslatable(f"not on a non-boolean in {src}")
            return f"(!{a})", "Bool"
        if isinstance(e, ast.UnaryOp) and isinstance(e.op, ast.USub):
            a, ta = self.expr(e.operand, defined)
            if ta != "Int":
                raise Untranslatable(src)
            return f"(-{a})", "Int"
        if isinstance(e, ast.Compare):
            if len(e.ops) != 1:
                raise Untranslatable(f"chained comparison {src}")
            a, ta = self.expr(e.left, defined)
            b, tb = self.expr(e.comparators[0], defined)
            ta, tb = ("Int" if t == "Char" else t for t in (ta, tb))
            if ta != tb:
                raise Untranslatable(f"comparison of {ta} with {tb} in {src}")
            ops = {ast.Lt: "<", ast.LtE: "≤", ast.Gt: ">", ast.GtE: "≥", ast.Eq: "=", ast.NotEq: "≠"}
            if type(e.ops[0]) not in ops or (ta not in ("Int", "Str", "Bool")):
                raise Untranslatable(f"comparison {src}")
            if ta != "Int" and type(e.ops[0]) not in (ast.Eq, ast.NotEq):
                raise Untranslatable(f"ordering on {ta} in {src}")
            return f"(decide ({a} {ops[type(e.ops[0])]} {b}))", "Bool"
        if isinstance(e, ast.IfExp):
            c, tc = self.expr(e.test, defined)
            a, ta = self.expr(e.body, defined)
            b, tb = self.expr(e.orelse, defined)
            if tc != "Bool" or ta != tb:
                raise Untranslatable(f"conditional expression {src}")
            return f"(if {c} then {a} else {b})", ta
        if isinstance(e, ast.List):
            parts = [self.expr(v, defined) for v in e.elts]
            if not parts or any(t != "Int" for _, t in parts):
                raise Untranslatable(f"list display {src}")
            return "[" + ", ".join(p for p, _ in parts) + "]", "List Int"
        if isinstance(e, ast.JoinedStr):
            out = []
            for v in e.values:
                if isinstance(v, ast.Constant):
                    out.append(f"({lean_str(v.value)} : List Nat)")
                elif isinstance(v, ast.FormattedValue) and v.conversion == -1 and v.format_spec is None:
                    a, ta = self.expr(v.value, defined)
                    if ta == "Int":
                        out.append(f"(Generated.Py.strOfInt {a})")
                    elif ta == "Str":
                        out.append(a)
                    elif ta == "Char":
                        out.append(f"[{a}]")
                    else:
                        raise Untranslatable(f"f-string piece of type {ta} in {src}")
                else:
                    raise Untranslatable(f"f-string piece {ast.unparse(v)}")
            return "(" + " ++ ".join(out) + ")", "Str"
        if isinstance(e, ast.Call):
            f = e.func
            if isinstance(f, ast.Name) and f.id in ("max", "min") and len(e.args) == 2 and not e.keywords:
                a, ta = self.expr(e.args[0], defined)
                b, tb = self.expr(e.args[1], defined)
                if ta == tb == "Int":
                    return f"({f.id} {a} {b})", "Int"
            if isinstance(f, ast.Name) and f.id == "ord" and len(e.args) == 1:
                a, ta = self.expr(e.args[0], defined)
                if ta == "Char":
                    return f"(Int.ofNat {a})", "Int"
            if isinstance(f, ast.Name) and f.id == "len" and len(e.args) == 1:
                a, ta = self.expr(e.args[0], defined)
                if ta == "Str" or ta.startswith("List "):
                    return f"(Int.ofNat {a}.length)", "Int"
            if isinstance(f, ast.Attribute) and f.attr == "get" and isinstance(f.value, ast.Name) and len(e.args) == 2:
                # d.get(k, default) where d is a local bound to a dict display
                d = self.bound.get("dict:" + f.value.id)
                if d is not None:
                    return self.dict_get(d, e.args[0], e.args[1], defined)
            raise Untranslatable(f"call {src}")
        if isinstance(e, ast.Subscript) and isinstance(e.slice, ast.Constant) and isinstance(e.slice.value, str):
            a, ta = self.expr(e.value, defined)
            fields = dict(self.cfg["records"].get(ta, []))
            if e.slice.value in fields:
                return f"{a}.{e.slice.value}", fields[e.slice.value]
        raise Untranslatable(f"expression {src}")

    def dict_get(self, d: ast.Dict, key, default, defined):
        k, tk = self.expr(key, defined)
        dflt, td = self.expr(default, defined)
        term = dflt
        for kk, vv in reversed(list(zip(d.keys, d.values))):
            kl, tkk = self.expr(kk, defined)
            vl, tv = self.expr(vv, defined)
            if tkk != tk or tv != td:
                raise Untranslatable("dict display with mixed key or value types")
            term = f"(if {k} = {kl} then {vl} else {term})"
        # a dict display keeps the LAST value of a repeated key; the chain above returns the FIRST match
        keys = [ast.unparse(x) for x in d.keys]
        if len(set(keys)) != len(keys):
            raise Untranslatable("dict display with a repeated key")
        return term, td

    # ---- statements.  `block` returns a Lean term of the function's *state* type with `s` free;
    # `defined` is the set of variables assigned on every path so far.  `k` is the continuation (python statements
    # that follow); `final` builds the term that closes the block (returns `s` inside loops).
    def declare(self, name, ty):
        old = self.vars.get(name)
        if old is not None and old != ty:
            raise Untranslatable(f"variable {name} used at types {old} and {ty}")
        self.vars[name] = ty

    def block(self, stmts, defined: set, in_loop: bool, ind: str):
        """→ (term, defined_after, kind) with kind ∈ {fall, return}; at function level a `return` closes the term with
        a value of the return type, otherwise the term is the state."""
        if not stmts:
            return f"{ind}s", set(defined), "fall"
        st, rest = stmts[0], stmts[1:]
        if isinstance(st, ast.Expr) and isinstance(st.value, ast.Constant) and isinstance(st.value.value, str):
            return self.block(rest, defined, in_loop, ind)          # docstring
        if isinstance(st, ast.Assign) and len(st.targets) == 1:
            tgt = st.targets[0]
            src = ast.unparse(st.value)
            if isinstance(tgt, ast.Name) and isinstance(st.value, ast.Dict):
                self.bound["dict:" + tgt.id] = st.value
                return self.block(rest, defined, in_loop, ind)
            if isinstance(tgt, ast.Name) and tgt.id in self.cfg["alias"] and src in self.cfg["env"]:
                self.bound[tgt.id] = self.cfg["env"][src]
                return self.block(rest, defined, in_loop, ind)
            if isinstance(tgt, ast.Name):
                v, ty = self.expr(st.value, defined)
                self.declare(tgt.id, ty)
                term, d2, kind = self.block(rest, defined | {tgt.id}, in_loop, ind)
                return f"{ind}let s := {{ s with {tgt.id} := {v} }}\n{term}", d2, kind
            if isinstance(tgt, ast.Subscript) and isinstance(tgt.slice, ast.Constant) and \
                    tgt.slice.value in self.cfg["outputs"] and in_loop:
                v, ty = self.expr(st.value, defined)
                if ty != self.cfg["outputs"][tgt.slice.value]:
                    raise Untranslatable(f"output column {tgt.slice.value} written at type {ty}")
                col = "out_" + tgt.slice.value
                term, d2, kind = self.block(rest, defined, in_loop, ind)
                return f"{ind}let s := {{ s with {col} := s.{col} ++ [{v}] }}\n{term}", d2, kind
            raise Untranslatable(f"assignment {ast.unparse(st)}")
        if isinstance(st, ast.AugAssign) and isinstance(st.target, ast.Name) and isinstance(st.op, (ast.Add, ast.Sub)):
            new = ast.Assign(targets=[st.target], value=ast.BinOp(left=ast.Name(id=st.target.id, ctx=ast.Load()),
                                                                   op=st.op, right=st.value), lineno=st.lineno)
            return self.block([new] + rest, defined, in_loop, ind)
        if isinstance(st, ast.If):
            c, tc = self.expr(st.test, defined)
            if tc != "Bool":
                raise Untranslatable(f"condition {ast.unparse(st.test)} is not boolean (truthiness is not translated)")
            body, orelse = list(st.body), list(st.orelse)
            ends_continue = in_loop and body and isinstance(body[-1], ast.Continue)
            ends_return = (not in_loop) and body and isinstance(body[-1], ast.Return)
            if ends_continue:
                a, _, _ = self.block(body[:-1], defined, in_loop, ind + "    ")
                b, d2, kind = self.block(orelse + rest, defined, in_loop, ind + "    ")
                return f"{ind}if {c} then\n{a}\n{ind}else\n{b}", d2, kind
            if ends_return:
                a, _, _ = self.block(body, defined, in_loop, ind + "    ")
                b, d2, kind = self.block(orelse + rest, defined, in_loop, ind + "    ")
                if kind != "return":
                    raise Untranslatable("a path reaches the end of the function without a return")
                return f"{ind}if {c} then\n{a}\n{ind}else\n{b}", d2, "return"
            a, da, ka = self.block(body, defined, in_loop, ind + "    ")
            b, db, kb = self.block(orelse, defined, in_loop, ind + "    ")
            if ka != "fall" or kb != "fall":
                raise Untranslatable("return / continue in the middle of a branch")
            term, d2, kind = self.block(rest, da & db, in_loop, ind)
            return f"{ind}let s :=\n{ind}  if {c} then\n{a}\n{ind}  else\n{b}\n{term}", d2, kind
        if isinstance(st, ast.For) and not st.orelse:
            it = st.iter
            self.fresh += 1
            n = self.fresh
            x = f"x{n}"
            saved = dict(self.bound)
            if isinstance(it, ast.Call) and isinstance(it.func, ast.Name) and it.func.id == "enumerate" and \
                    len(it.args) == 1 and isinstance(st.target, ast.Tuple) and len(st.target.elts) == 2:
                xs, txs = self.expr(it.args[0], defined)
                if not txs.startswith("List "):
                    raise Untranslatable(f"enumerate over {txs}")
                elt = txs[5:]
                i, v = (t.id for t in st.target.elts)
                self.bound[i] = (f"(Int.ofNat {x}.2)", "Int")
                self.bound[v] = (f"{x}.1", elt)
                xty = f"{lean_type(elt)} × Nat"
                xs = f"{xs}.zipIdx"
            elif isinstance(st.target, ast.Name):
                xs, txs = self.expr(it, defined)
                if txs == "Str":
                    elt = "Char"
                elif txs.startswith("List "):
                    elt = txs[5:]
                else:
                    raise Untranslatable(f"loop over {txs}")
                self.bound[st.target.id] = (x, elt)
                xty = lean_type(elt)
            else:
                raise Untranslatable(f"loop header {ast.unparse(st.target)} in {ast.unparse(it)}")
            outer = list(self.loopvars)
            self.loopvars.append((x, xty))
            body, dbody, kind = self.block(list(st.body), defined, True, "  ")
            self.loopvars.pop()
            if kind != "fall":
                raise Untranslatable("return inside a loop")
            self.bound = saved
            params = " ".join(f"({p} : {lean_type(t)})" for p, t in self.cfg["params"])
            outer_decl = " ".join(f"({a} : {t})" for a, t in outer)
            self.loops.append(f"/-- body of loop {n}: `{ast.unparse(st).splitlines()[0]}` -/\n"
                              f"def loop{n} {params} {outer_decl} (s : St) ({x} : {xty}) : St :=\n{body}\n")
            args = " ".join([p for p, _ in self.cfg["params"]] + [a for a, _ in outer])
            # variables first assigned inside the loop are not definitely assigned after it
            term, d2, kind = self.block(rest, defined, in_loop, ind)
            return f"{ind}let s := {xs}.foldl (loop{n} {args}) s\n{term}", d2, kind
        if isinstance(st, ast.Return) and not in_loop:
            if rest:
                raise Untranslatable("statements after return")
            src = ast.unparse(st.value) if st.value is not None else "None"
            if src in self.cfg["returns"]:
                return f"{ind}{self.cfg['returns'][src]}", defined, "return"
            v, ty = self.expr(st.value, defined)
            if ty != self.cfg["ret_type"]:
                raise Untranslatable(f"return of type {ty}, expected {self.cfg['ret_type']}")
            return f"{ind}{v}", defined, "return"
        raise Untranslatable(f"statement {ast.unparse(st).splitlines()[0]}")


def lean_type(t: str) -> str:
    return {"Str": "List Nat", "Char": "Nat"}.get(t, t)


def find_function(cfg) -> ast.FunctionDef:
    tree = ast.parse((repo_src() / cfg["file"]).read_text())
    for n in tree.body:
        if isinstance(n, ast.ClassDef) and n.name == cfg["cls"]:
            for m in n.body:
                if isinstance(m, ast.FunctionDef) and m.name == cfg["func"]:
                    return m
    raise Untranslatable(f"{cfg['cls']}.{cfg['func']} not found in {cfg['file']}")


def record_fields(file: str, cls: str):
    """int / bool fields of a pydantic model class, in declaration order"""
    tree = ast.parse((repo_src() / file).read_text())
    for n in tree.body:
        if isinstance(n, ast.ClassDef) and n.name == cls:
            out = []
            for m in n.body:
                if isinstance(m, ast.AnnAssign) and isinstance(m.target, ast.Name) and isinstance(m.annotation, ast.Name) \
                        and m.annotation.id in ("int", "bool"):
                    out.append((m.target.id, "Int" if m.annotation.id == "int" else "Bool"))
            if out:
                return out
    raise Untranslatable(f"class {cls} with int / bool fields not found in {file}")


def translate(cfg) -> str:
    cfg = dict(cfg, records=dict(cfg["records"]))
    for rn, (file, cls) in (cfg.get("records_from") or {}).items():
        cfg["records"][rn] = record_fields(file, cls)
    node = find_function(cfg)
    got = [a.arg for a in node.args.args]
    want = cfg["skip_params"] + [p for p, _ in cfg["params"] if p in got]
    if sorted(got) != sorted(set(want)) or node.args.vararg or node.args.kwarg or node.args.kwonlyargs:
        raise Untranslatable(f"signature changed: {got}")
    fn = Fn(cfg, node)
    body, _, kind = fn.block(list(node.body), set(), False, "  ")
    if kind != "return":
        raise Untranslatable("a path reaches the end of the function without a return")
    lines = [f"import Generated.PyPrelude",
             "/-! GENERATED by harness/pytranslate.py from",
             f"`/repo/src/rtflite/{cfg['file']}` — `{cfg['cls']}.{cfg['func']}`.  Do not edit.",
             "",
             cfg["doc"],
             "",
             "Source translated:",
             "```python",
             textwrap.indent(ast.unparse(node), "  "),
             "```",
             "-/",
             "set_option linter.unusedVariables false",
             f"namespace Generated.Py.{cfg['name']}", ""]
    for rn, fields in cfg["records"].items():
        lines.append(f"structure {rn} where")
        lines += [f"  {f} : {lean_type(t)}" for f, t in fields]
        lines += ["  deriving Repr, Inhabited, DecidableEq", ""]
    lines.append("/-- the function's local variables (defaults are never read: definite assignment is checked) -/")
    lines.append("structure St where")
    if not fn.vars:
        lines.append("  unit : Unit := ()")
    for v, t in fn.vars.items():
        lt = lean_type(t)
        lines.append(f"  {v} : {lt} := {DEFAULT.get(t, '[]')}")
    lines += ["  deriving Repr, Inhabited", ""]
    lines += fn.loops
    params = " ".join(f"({p} : {lean_type(t)})" for p, t in cfg["params"])
    lines.append(f"def run {params} : {lean_type(cfg['ret_type'])} :=")
    lines.append("  let s : St := {}")
    lines.append(body)
    lines += ["", f"end Generated.Py.{cfg['name']}", ""]
    return "\n".join(lines)


PRELUDE = '''import Model.Escape
/-! GENERATED by harness/pytranslate.py (fixed text): the few Python built-ins the translated functions use. -/
namespace Generated.Py

/-- `str(i)` / `f"{i}"` for an `int`, as code points (checked against Python by C10's correspondence) -/
def strOfInt (i : Int) : List Nat := Model.Escape.intRepr i

end Generated.Py
'''


def generate(out_dir: Path = OUT) -> dict:
    out_dir.mkdir(parents=True, exist_ok=True)
    (out_dir / "PyPrelude.lean").write_text(PRELUDE)
    status = {}
    for cfg in TARGETS:
        path = out_dir / f"Py{cfg['name']}.lean"
        try:
            text = translate(cfg)
            status[cfg["name"]] = dict(ok=True, func=f"{cfg['cls']}.{cfg['func']}", file=cfg["file"])
        except Untranslatable as e:
            text = (f"/-! GENERATED by harness/pytranslate.py: `{cfg['cls']}.{cfg['func']}` is outside the translated "
                    f"subset:\n{e}\n-/\nnamespace Generated.Py.{cfg['name']}\ndef untranslatable : Bool := true\n"
                    f"end Generated.Py.{cfg['name']}\n")
            status[cfg["name"]] = dict(ok=False, func=f"{cfg['cls']}.{cfg['func']}", file=cfg["file"], why=str(e))
        if not path.exists() or path.read_text() != text:
            path.write_text(text)
    (out_dir / "py_status.json").write_text(json.dumps(status, indent=1))
    return status


if __name__ == "__main__":
    print(json.dumps(generate(), indent=1))
