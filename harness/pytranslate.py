"""Python → Lean translator for a small imperative subset (the *translator tie*).

For a handful of pure functions of rtflite whose logic carries a property (the page-assignment loop, the
placement rule, the non-ASCII escaper, …) the Lean definition is **regenerated from the function's source on
every run**: `generate()` parses the function with `ast`, translates it statement by statement into a
state-passing Lean term and writes `lean/Generated/Py<Name>.lean`.  `lean/Props/C..py.lean` then proves that the
generated definition equals the hand-written model the property theorems are about, for all inputs.  A change of
the code inside the subset changes the generated definition and breaks that proof (or leaves it intact when the
change is an equivalent rewrite the proof script can see through); a change that leaves the subset makes the
function untranslatable, which is recorded (`status.json`) and leaves the correspondence check as the only tie.

Subset (everything else → `Untranslatable`):
  statements   x = e | x += e | x -= e | if/elif/else | for v in e | for i, v in enumerate(e) | continue (last
               statement of an `if` body directly inside a loop body) | return e (function level, or last statement
               of a function-level `if` body) | d[k] = e on a configured record list (an output column) | docstrings
  expressions  int / bool / str constants, names, + - * // % (// and % by a positive literal), >> k, & (2^k - 1),
               and / or on booleans (value context), not, comparisons, `x is None`, `x is not None`,
               `a if c else b`, max, min, len, ord, list displays, f-strings of str / int pieces,
               `{...}.get(k, default)` on a dict display, configured attribute paths, record fields (`r["f"]`,
               `obj.f`), `isinstance(x, list)` decided by the static type of `x`
  conditions   (`if` / conditional-expression tests, operand of `not`): truthiness BY STATIC TYPE, `and` / `or` / `not`
               of conditions, narrowing of `Option` paths
  types        Int (Python int, unbounded), Bool, Str = List Nat (code points), List T, Option T (a value that may be
               `None`), configured records (objects of configured classes)

Python semantics relied on: ints are unbounded (Lean `Int`); `//` and `%` by a positive literal are floor division
and its remainder (= Lean's `/` and `%` on `Int` for a positive divisor); `x >> k` = ⌊x / 2^k⌋ and `x & (2^k-1)` =
x mod 2^k for every int; every variable is assigned before it is read on every path (checked), so the defaults of the
state record are never observed.

Truthiness.  In VALUE context `a and b` / `a or b` return one of their operands, so they are only accepted on
expressions typed Bool.  In CONDITION context only `bool(e)` matters, and it is determined by the static type of `e`:
`bool(b) = b` for a bool; `bool(i) = (i != 0)` for an int; `bool(s) = (len(s) > 0)` for a str / list / any sequence;
`bool(None) = False`; `bool(obj) = True` for an instance of a class that defines neither `__bool__` nor `__len__`
(configured record classes are imported and checked for that on every run, `classes=` in the configuration, together
with the declared type of every field the translation reads); an `Option T` is `None` or a `T`.  `bool(a and b) =
bool(a) and bool(b)`, `bool(a or b) = bool(a) or bool(b)`, `bool(not a) = not bool(a)`; `b` is evaluated only when
needed, which cannot be observed because every translated expression is total and free of effects — with ONE
exception, attribute access on `None`, excluded by narrowing:

Narrowing.  A *path* is an expression whose value cannot change during the call: a configured input path, a parameter
or loop variable (assignment to one is rejected), a field of a path.  A field `P.f` of a path `P : Option T` is only
translatable where `P` is known not to be `None`: in `b` of `P and b` / `P is not None and b` (→ `match P with | none
=> false | some v => …b[P := v]`), in the body of `if P:` / `if P is not None:`, in the `else` branch and — when the body
ends in `continue` / `return` — in the statements after `if not P:` / `if P is None:` (→ a `match` whose `some v` arm
is the narrowed branch).  `if P:` on a list path whose body reads `P[0]` becomes `match P with | [] => … | v :: _ => …`
with `P[0] := v` (no other subscript by a number is translated, so `IndexError` cannot arise).  Narrowing facts are
dropped at loop boundaries.

`isinstance(x, list)` is decided statically: `x : List _` is a Python `list` → True; an int, bool, str, `None`, or a
record object is not → False.  An `if` (or `if not`) on such a test is translated as its live branch only — the other
branch is dead for every input of the declared type and need not be typeable.  A union-typed input (`rtf_column_header`:
flat list or list of lists) is handled by translating the function once per alternative (two `TARGETS` entries).
"""
from __future__ import annotations

import ast
import json
import textwrap
from pathlib import Path

def repo_src() -> Path:
    """the source tree of the rtflite that the checks import (= /repo/src/rtflite unless PYTHONPATH points a run at a
    scratch copy, as tools/seedcheck.py does)"""
    import importlib.util

    spec = importlib.util.find_spec("rtflite")
    return Path(spec.origin).parent

OUT = Path(__file__).resolve().parent.parent / "lean" / "Generated"


class Untranslatable(Exception):
    pass


# ----------------------------------------------------------------------------------------- configuration

def _additional_rows(name: str, header_type: str, what: str) -> dict:
    """`calculate_additional_rows_per_page` reads four facts of the (per-section) document.  `rtf_column_header` has a
    union type — a flat list `[header | None, …]` or a nested list `[[header | None, …], …]` — and the function tells
    them apart with `isinstance(document.rtf_column_header[0], list)`; it is translated once per alternative, the
    `isinstance` being decided by the declared element type (DESIGN 4.1a)."""
    return dict(
        name=name, file="services/document_service.py", cls="RTFDocumentService",
        func="calculate_additional_rows_per_page",
        doc="RTFDocumentService.calculate_additional_rows_per_page: the rows reserved on every page, for a document "
            f"whose `rtf_column_header` is {what}.\n"
            "Inputs (the only things the function reads): `document.rtf_body.subline_by` (`Sequence[str] | None`),\n"
            "`document.rtf_column_header`, `document.rtf_footnote`, `document.rtf_source` (`None` or a component whose\n"
            "`text` is `Sequence[str] | None`; a `str` is a sequence of its characters, only its emptiness is read).",
        records={"Comp": [("text", "Option (List Str)")]},
        # the Python classes the record stands for: `text` must be declared `Sequence[str] | None` and instances must
        # be truthy (no `__bool__` / `__len__`) — checked against the imported classes on every run
        classes=[("rtflite.input", c, {"text": "collections.abc.Sequence[str] | None"})
                 for c in ("RTFColumnHeader", "RTFFootnote", "RTFSource")],
        params=[("subline_by", "Option (List Str)"), ("rtf_column_header", header_type),
                ("rtf_footnote", "Option Comp"), ("rtf_source", "Option Comp")],
        skip_params=["self", "document"],
        env={"document.rtf_body.subline_by": ("subline_by", "Option (List Str)"),
             "document.rtf_column_header": ("rtf_column_header", header_type),
             "document.rtf_footnote": ("rtf_footnote", "Option Comp"),
             "document.rtf_source": ("rtf_source", "Option Comp")},
        alias={}, outputs={}, returns={}, ret_type="Int",
    )


TARGETS = [
    dict(
        name="AssignPages", file="pagination/core.py", cls="PageBreakCalculator", func="_assign_pages",
        doc="PageBreakCalculator._assign_pages: the page number of every row",
        records={}, records_from={"Row": ("pagination/core.py", "RowMetadata")},   # fields read off the class
        params=[("nrow", "Int"), ("additional_rows_per_page", "Int"), ("new_page", "Bool"), ("rows", "List Row")],
        skip_params=["self", "meta_df"],
        # source expressions (ast.unparse form) that denote inputs
        env={"self.pagination.nrow": ("nrow", "Int"), "meta_df.height": ("(Int.ofNat rows.length)", "Int"),
             "meta_df.to_dicts()": ("rows", "List Row")},
        alias={"rows": "rows"},                 # `rows = meta_df.to_dicts()` binds a name to an input
        outputs={"page": "Int"},                # row["page"] = e  → appended to the output column `page`
        returns={"meta_df": "([] : List Int)", "pl.DataFrame(rows)": "s.out_page"},
        ret_type="List Int",
    ),
    dict(
        name="ShouldShow", file="pagination/processor.py", cls="PageFeatureProcessor", func="_should_show_element",
        doc="PageFeatureProcessor._should_show_element: is a 'first' / 'last' / 'all' component shown on this page",
        records={},
        params=[("element_location", "Str"), ("is_first_page", "Bool"), ("is_last_page", "Bool")],
        skip_params=["self", "page"],
        env={"page.is_first_page": ("is_first_page", "Bool"), "page.is_last_page": ("is_last_page", "Bool")},
        alias={}, outputs={}, returns={}, ret_type="Bool",
    ),
    dict(
        name="ShouldShowRenderer", file="encoding/renderer.py", cls="PageRenderer", func="_should_show",
        doc="PageRenderer._should_show: the renderer's own copy of the placement rule",
        records={},
        params=[("location", "Str"), ("is_first_page", "Bool"), ("is_last_page", "Bool")],
        skip_params=["self", "page"],
        env={"page.is_first_page": ("is_first_page", "Bool"), "page.is_last_page": ("is_last_page", "Bool")},
        alias={}, outputs={}, returns={}, ret_type="Bool",
    ),
    dict(
        name="EscapeNonAscii", file="row.py", cls="TextContent", func="_escape_non_ascii",
        doc="TextContent._escape_non_ascii: 7-bit characters as they are, everything else as \\uc1\\uN* per UTF-16 unit",
        records={}, params=[("text", "Str")], skip_params=[], env={}, alias={}, outputs={}, returns={},
        ret_type="Str",
    ),
    _additional_rows("AdditionalRowsFlat", "List (Option Comp)", "a flat list `[header | None, …]`"),
    _additional_rows("AdditionalRowsNested", "List (List (Option Comp))",
                     "a nested list `[[header | None, …], …]` (one Python list per section)"),
]


# ----------------------------------------------------------------------------------------- translator

def lean_str(s: str) -> str:
    return "[" + ", ".join(str(ord(c)) for c in s) + "]"


DEFAULT = {"Int": "0", "Bool": "false", "Str": "[]", "List Int": "[]", "Char": "0"}


class Fn:
    def __init__(self, cfg, node: ast.FunctionDef):
        self.cfg = cfg
        self.node = node
        self.vars: dict[str, str] = {}           # local name → type (state record fields)
        self.bound: dict[str, tuple[str, str]] = {}   # loop variables / aliases → (lean term, type)
        self.params = dict(cfg["params"])
        self.fresh = 0
        self.loops: list[str] = []               # emitted loop-body definitions, innermost first
        self.loopvars: list[tuple[str, str]] = []     # enclosing loop variables (lean name, lean type)
        self.narrow: dict[str, tuple[str, str]] = {}  # source path → (lean term, type) known on the current path
        for out, ty in cfg["outputs"].items():
            self.vars["out_" + out] = f"List {ty}"

    # ---- expressions: returns (lean, type)
    def expr(self, e, defined) -> tuple[str, str]:
        src = ast.unparse(e)
        if src in self.narrow:
            return self.narrow[src]
        if src in self.cfg["env"]:
            return self.cfg["env"][src]
        if isinstance(e, ast.Constant):
            if isinstance(e.value, bool):
                return ("true" if e.value else "false"), "Bool"
            if isinstance(e.value, int):
                return f"({e.value} : Int)", "Int"
            if isinstance(e.value, str):
                return f"({lean_str(e.value)} : List Nat)", "Str"
            raise Untranslatable(f"constant {src}")
        if isinstance(e, ast.Name):
            if e.id in self.bound:
                return self.bound[e.id]
            if e.id in self.vars:
                if e.id not in defined:
                    raise Untranslatable(f"variable {e.id} may be read before it is assigned")
                return f"s.{e.id}", self.vars[e.id]
            if e.id in self.params:
                return e.id, self.params[e.id]
            raise Untranslatable(f"unknown name {e.id}")
        if isinstance(e, ast.BinOp):
            a, ta = self.expr(e.left, defined)
            if isinstance(e.op, (ast.RShift, ast.BitAnd, ast.FloorDiv, ast.Mod)):
                if not (isinstance(e.right, ast.Constant) and isinstance(e.right.value, int) and ta == "Int"):
                    raise Untranslatable(f"operator in {src} needs an int literal on the right")
                k = e.right.value
                if isinstance(e.op, ast.RShift) and k >= 0:
                    return f"({a} / ({2 ** k} : Int))", "Int"
                if isinstance(e.op, ast.BitAnd) and k > 0 and (k + 1) & k == 0:
                    return f"({a} % ({k + 1} : Int))", "Int"
                if isinstance(e.op, ast.FloorDiv) and k > 0:
                    return f"({a} / ({k} : Int))", "Int"
                if isinstance(e.op, ast.Mod) and k > 0:
                    return f"({a} % ({k} : Int))", "Int"
                raise Untranslatable(f"operator in {src}")
            b, tb = self.expr(e.right, defined)
            if isinstance(e.op, (ast.Add, ast.Sub, ast.Mult)) and ta == tb == "Int":
                op = {ast.Add: "+", ast.Sub: "-", ast.Mult: "*"}[type(e.op)]
                return f"({a} {op} {b})", "Int"
            if isinstance(e.op, ast.Add) and ta == tb and (ta == "Str" or ta.startswith("List ")):
                return f"({a} ++ {b})", ta
            if isinstance(e.op, ast.Add) and ta == "Str" and tb == "Char":
                return f"({a} ++ [{b}])", "Str"
            raise Untranslatable(f"binary operation {src} on {ta}, {tb}")
        if isinstance(e, ast.BoolOp):
            # value context: `a and b` / `a or b` return one of their operands, so they are only accepted when every
            # operand is a Bool (then the value is the conjunction / disjunction).  Condition context: `cond`.
            parts = [self.expr(v, defined) for v in e.values]
            if any(t != "Bool" for _, t in parts):
                raise Untranslatable(f"and/or on non-boolean operands in value context: {src}")
            op = " && " if isinstance(e.op, ast.And) else " || "
            return "(" + op.join(p for p, _ in parts) + ")", "Bool"
        if isinstance(e, ast.UnaryOp) and isinstance(e.op, ast.Not):
            return f"(!{self.cond(e.operand, defined)})", "Bool"
        if isinstance(e, ast.UnaryOp) and isinstance(e.op, ast.USub):
            a, ta = self.expr(e.operand, defined)
            if ta != "Int":
                raise Untranslatable(src)
            return f"(-{a})", "Int"
        if isinstance(e, ast.Compare):
            if len(e.ops) != 1:
                raise Untranslatable(f"chained comparison {src}")
            a, ta = self.expr(e.left, defined)
            if isinstance(e.ops[0], (ast.Is, ast.IsNot)):
                rhs = e.comparators[0]
                if not (isinstance(rhs, ast.Constant) and rhs.value is None):
                    raise Untranslatable(f"identity test {src} against something other than None")
                if t_arg(ta, "Option") is not None:
                    return f"({a}).{'isNone' if isinstance(e.ops[0], ast.Is) else 'isSome'}", "Bool"
                if ta in ("Int", "Bool", "Str", "Char") or t_arg(ta, "List") is not None or ta in self.cfg["records"]:
                    return ("false" if isinstance(e.ops[0], ast.Is) else "true"), "Bool"
                raise Untranslatable(f"identity test {src} on {ta}")
            b, tb = self.expr(e.comparators[0], defined)
            ta, tb = ("Int" if t == "Char" else t for t in (ta, tb))
            if ta != tb:
                raise Untranslatable(f"comparison of {ta} with {tb} in {src}")
            ops = {ast.Lt: "<", ast.LtE: "≤", ast.Gt: ">", ast.GtE: "≥", ast.Eq: "=", ast.NotEq: "≠"}
            if type(e.ops[0]) not in ops or (ta not in ("Int", "Str", "Bool")):
                raise Untranslatable(f"comparison {src}")
            if ta != "Int" and type(e.ops[0]) not in (ast.Eq, ast.NotEq):
                raise Untranslatable(f"ordering on {ta} in {src}")
            return f"(decide ({a} {ops[type(e.ops[0])]} {b}))", "Bool"
        if isinstance(e, ast.IfExp):
            c, tc = self.cond(e.test, defined), "Bool"
            a, ta = self.expr(e.body, defined)
            b, tb = self.expr(e.orelse, defined)
            if tc != "Bool" or ta != tb:
                raise Untranslatable(f"conditional expression {src}")
            return f"(if {c} then {a} else {b})", ta
        if isinstance(e, ast.List):
            parts = [self.expr(v, defined) for v in e.elts]
            if not parts or any(t != "Int" for _, t in parts):
                raise Untranslatable(f"list display {src}")
            return "[" + ", ".join(p for p, _ in parts) + "]", "List Int"
        if isinstance(e, ast.JoinedStr):
            out = []
            for v in e.values:
                if isinstance(v, ast.Constant):
                    out.append(f"({lean_str(v.value)} : List Nat)")
                elif isinstance(v, ast.FormattedValue) and v.conversion == -1 and v.format_spec is None:
                    a, ta = self.expr(v.value, defined)
                    if ta == "Int":
                        out.append(f"(Generated.Py.strOfInt {a})")
                    elif ta == "Str":
                        out.append(a)
                    elif ta == "Char":
                        out.append(f"[{a}]")
                    else:
                        raise Untranslatable(f"f-string piece of type {ta} in {src}")
                else:
                    raise Untranslatable(f"f-string piece {ast.unparse(v)}")
            return "(" + " ++ ".join(out) + ")", "Str"
        if isinstance(e, ast.Call):
            f = e.func
            if isinstance(f, ast.Name) and f.id in ("max", "min") and len(e.args) == 2 and not e.keywords:
                a, ta = self.expr(e.args[0], defined)
                b, tb = self.expr(e.args[1], defined)
                if ta == tb == "Int":
                    return f"({f.id} {a} {b})", "Int"
            if isinstance(f, ast.Name) and f.id == "ord" and len(e.args) == 1:
                a, ta = self.expr(e.args[0], defined)
                if ta == "Char":
                    return f"(Int.ofNat {a})", "Int"
            if isinstance(f, ast.Name) and f.id == "len" and len(e.args) == 1:
                a, ta = self.expr(e.args[0], defined)
                if ta == "Str" or t_arg(ta, "List") is not None:
                    return f"(Int.ofNat {a}.length)", "Int"
            if isinstance(f, ast.Name) and f.id == "isinstance" and len(e.args) == 2 and not e.keywords:
                return ("true" if self.static_isinstance(e, defined) else "false"), "Bool"
            if isinstance(f, ast.Attribute) and f.attr == "get" and isinstance(f.value, ast.Name) and len(e.args) == 2:
                # d.get(k, default) where d is a local bound to a dict display
                d = self.bound.get("dict:" + f.value.id)
                if d is not None:
                    return self.dict_get(d, e.args[0], e.args[1], defined)
            raise Untranslatable(f"call {src}")
        if isinstance(e, ast.Subscript) and isinstance(e.slice, ast.Constant) and isinstance(e.slice.value, str):
            a, ta = self.expr(e.value, defined)
            fields = dict(self.cfg["records"].get(ta, []))
            if e.slice.value in fields:
                return f"{a}.{e.slice.value}", fields[e.slice.value]
        if isinstance(e, ast.Attribute):
            # field of a configured record (an object attribute); `None.attr` cannot arise: an Option must have been
            # narrowed (`x and x.attr`, `if x:`, `x is not None and …`) before a field is read
            a, ta = self.expr(e.value, defined)
            fields = dict(self.cfg["records"].get(ta, []))
            if e.attr in fields:
                return f"{a}.{e.attr}", fields[e.attr]
            raise Untranslatable(f"attribute {e.attr} of a value of type {ta} in {src}")
        raise Untranslatable(f"expression {src}")

    # ---- conditions (`if` tests, operands of `not`, tests of conditional expressions): Python truthiness BY TYPE
    def truthy(self, term: str, ty: str) -> str:
        """`bool(v)` for a value of the given static type: a bool is itself, an int is `≠ 0`, a str / list is
        `len > 0`, `None` is false, an instance of a configured record class (no `__bool__`, no `__len__`: checked
        against the imported class) is true"""
        if ty == "Bool":
            return term
        if ty == "Int":
            return f"(decide ({term} ≠ (0 : Int)))"
        if ty == "Str" or t_arg(ty, "List") is not None:
            return f"(!({term}).isEmpty)"
        if ty in self.cfg["records"]:
            return "true"
        inner = t_arg(ty, "Option")
        if inner is not None:
            v = self.binder()
            return f"(match {term} with | none => false | some {v} => {self.truthy(v, inner)})"
        raise Untranslatable(f"truthiness of a value of type {ty}")

    def binder(self) -> str:
        self.nbind = getattr(self, "nbind", 0) + 1
        return f"v{self.nbind}"

    def path_key(self, e):
        """`ast.unparse(e)` when `e` is a *path*: an expression whose value cannot change while the function runs
        (a configured input path, a parameter or loop variable, a field of a path, or something already narrowed)"""
        src = ast.unparse(e)
        if src in self.narrow or src in self.cfg["env"]:
            return src
        if isinstance(e, ast.Name) and e.id not in self.vars and (e.id in self.bound or e.id in self.params):
            return src
        if isinstance(e, ast.Attribute) and self.path_key(e.value) is not None:
            return src
        return None

    def option_test(self, e, defined):
        """`P` or `P is not None` for a path `P` of type `Option T` → (scrutinee, T, key, tests_truthiness)"""
        bare = e
        only_none = False
        if isinstance(e, ast.Compare) and len(e.ops) == 1 and isinstance(e.ops[0], ast.IsNot) and \
                isinstance(e.comparators[0], ast.Constant) and e.comparators[0].value is None:
            bare, only_none = e.left, True
        key = self.path_key(bare)
        if key is None:
            return None
        term, ty = self.expr(bare, defined)
        inner = t_arg(ty, "Option")
        if inner is None:
            return None
        return term, inner, key, not only_none

    def cond(self, e, defined) -> str:
        """a Bool term equal to `bool(e)`.  `a and b`: `bool(a and b) = bool(a) && bool(b)`, `b` is evaluated only
        when `a` is truthy, and inside `b` a path that `a` has shown to be not-None has its narrowed type."""
        if isinstance(e, ast.BoolOp) and isinstance(e.op, ast.And):
            if not any(self.option_test(v, defined) for v in e.values[:-1]):
                try:
                    return self.expr(e, defined)[0]      # all operands Bool: the plain conjunction
                except Untranslatable:
                    pass
            return self.cond_and(list(e.values), defined)
        if isinstance(e, ast.BoolOp) and isinstance(e.op, ast.Or):
            return "(" + " || ".join(self.cond(v, defined) for v in e.values) + ")"
        if isinstance(e, ast.UnaryOp) and isinstance(e.op, ast.Not):
            return f"(!{self.cond(e.operand, defined)})"
        v, t = self.expr(e, defined)
        return self.truthy(v, t)

    def cond_and(self, values, defined) -> str:
        first, rest = values[0], values[1:]
        if not rest:
            return self.cond(first, defined)
        ot = self.option_test(first, defined)
        if ot is None:
            return f"({self.cond(first, defined)} && {self.cond_and(rest, defined)})"
        term, inner, key, truthiness = ot
        v = self.binder()
        saved = dict(self.narrow)
        self.narrow[key] = (v, inner)
        try:
            r = self.cond_and(rest, defined)
        finally:
            self.narrow = saved
        tv = self.truthy(v, inner) if truthiness else "true"
        body = r if tv == "true" else f"({tv} && {r})"
        return f"(match {term} with | none => false | some {v} => {body})"

    def static_isinstance(self, e: ast.Call, defined) -> bool:
        """`isinstance(x, list)` decided by the static type of `x` (`x` must be translatable, i.e. evaluating it
        cannot raise): a `List` is a Python list, nothing else is"""
        x, cls = e.args
        if not (isinstance(cls, ast.Name) and cls.id == "list"):
            raise Untranslatable(f"isinstance against {ast.unparse(cls)}")
        _, ty = self.expr(x, defined)
        while t_arg(ty, "Option") is not None:
            inner = t_arg(ty, "Option")
            if t_arg(inner, "List") is not None:
                raise Untranslatable(f"isinstance(…, list) on a value of type {ty} is not decided by its type")
            ty = inner
        if t_arg(ty, "List") is not None:
            return True
        if ty in ("Int", "Bool", "Str", "Char") or ty in self.cfg["records"]:
            return False
        raise Untranslatable(f"isinstance(…, list) on a value of type {ty}")

    def dict_get(self, d: ast.Dict, key, default, defined):
        k, tk = self.expr(key, defined)
        dflt, td = self.expr(default, defined)
        term = dflt
        for kk, vv in reversed(list(zip(d.keys, d.values))):
            kl, tkk = self.expr(kk, defined)
            vl, tv = self.expr(vv, defined)
            if tkk != tk or tv != td:
                raise Untranslatable("dict display with mixed key or value types")
            term = f"(if {k} = {kl} then {vl} else {term})"
        # a dict display keeps the LAST value of a repeated key; the chain above returns the FIRST match
        keys = [ast.unparse(x) for x in d.keys]
        if len(set(keys)) != len(keys):
            raise Untranslatable("dict display with a repeated key")
        return term, td

    def test(self, st: ast.If, defined) -> Test:
        e = st.test
        negated = False
        pos = e
        if isinstance(e, ast.UnaryOp) and isinstance(e.op, ast.Not):
            pos, negated = e.operand, True                       # `not P`
        elif isinstance(e, ast.Compare) and len(e.ops) == 1 and isinstance(e.ops[0], ast.Is):
            pos, negated = ast.Compare(left=e.left, ops=[ast.IsNot()], comparators=e.comparators), True   # `P is None`
        ot = self.option_test(pos, defined)
        if ot is not None:
            term, inner, key, truthiness = ot
            v = self.binder()
            tv = self.truthy(v, inner) if truthiness else "true"
            return Test("option", c=None if tv == "true" else tv, scrut=term, pat=f"some {v}",
                        narrow={key: (v, inner)}, negated=negated)
        key = self.path_key(e)
        if key is not None:
            term, ty = self.expr(e, defined)
            elt = t_arg(ty, "List")
            # `if P:` on a list path whose body reads `P[0]`: the head is bound by the match
            if elt is not None and any(key + "[0]" in ast.unparse(x) for x in st.body):
                v = self.binder()
                return Test("list", scrut=term, pat=f"{v} :: _", narrow={key + "[0]": (v, elt)})
        return Test("bool", c=self.cond(e, defined))

    def narrowed(self, test: Test, thunk, branch="then"):
        saved = dict(self.narrow)
        self.narrow.update(test.narrow if branch == "then" else test.narrow_else)
        try:
            return thunk()
        finally:
            self.narrow = saved

    # ---- statements.  `block` returns a Lean term of the function's *state* type with `s` free;
    # `defined` is the set of variables assigned on every path so far.  `k` is the continuation (python statements
    # that follow); `final` builds the term that closes the block (returns `s` inside loops).
    def declare(self, name, ty):
        old = self.vars.get(name)
        if old is not None and old != ty:
            raise Untranslatable(f"variable {name} used at types {old} and {ty}")
        self.vars[name] = ty

    def block(self, stmts, defined: set, in_loop: bool, ind: str):
        """→ (term, defined_after, kind) with kind ∈ {fall, return}; at function level a `return` closes the term with
        a value of the return type, otherwise the term is the state."""
        if not stmts:
            return f"{ind}s", set(defined), "fall"
        st, rest = stmts[0], stmts[1:]
        if isinstance(st, ast.Expr) and isinstance(st.value, ast.Constant) and isinstance(st.value.value, str):
            return self.block(rest, defined, in_loop, ind)          # docstring
        if isinstance(st, ast.Assign) and len(st.targets) == 1:
            tgt = st.targets[0]
            src = ast.unparse(st.value)
            if isinstance(tgt, ast.Name) and isinstance(st.value, ast.Dict):
                self.bound["dict:" + tgt.id] = st.value
                return self.block(rest, defined, in_loop, ind)
            if isinstance(tgt, ast.Name) and tgt.id in self.cfg["alias"] and src in self.cfg["env"]:
                self.bound[tgt.id] = self.cfg["env"][src]
                return self.block(rest, defined, in_loop, ind)
            if isinstance(tgt, ast.Name):
                if tgt.id in self.bound or (tgt.id in self.params and tgt.id not in self.vars):
                    raise Untranslatable(f"assignment to the parameter / loop variable {tgt.id}")
                v, ty = self.expr(st.value, defined)
                self.declare(tgt.id, ty)
                term, d2, kind = self.block(rest, defined | {tgt.id}, in_loop, ind)
                return f"{ind}let s := {{ s with {tgt.id} := {v} }}\n{term}", d2, kind
            if isinstance(tgt, ast.Subscript) and isinstance(tgt.slice, ast.Constant) and \
                    tgt.slice.value in self.cfg["outputs"] and in_loop:
                v, ty = self.expr(st.value, defined)
                if ty != self.cfg["outputs"][tgt.slice.value]:
                    raise Untranslatable(f"output column {tgt.slice.value} written at type {ty}")
                col = "out_" + tgt.slice.value
                term, d2, kind = self.block(rest, defined, in_loop, ind)
                return f"{ind}let s := {{ s with {col} := s.{col} ++ [{v}] }}\n{term}", d2, kind
            raise Untranslatable(f"assignment {ast.unparse(st)}")
        if isinstance(st, ast.AugAssign) and isinstance(st.target, ast.Name) and isinstance(st.op, (ast.Add, ast.Sub)):
            new = ast.Assign(targets=[st.target], value=ast.BinOp(left=ast.Name(id=st.target.id, ctx=ast.Load()),
                                                                   op=st.op, right=st.value), lineno=st.lineno)
            return self.block([new] + rest, defined, in_loop, ind)
        if isinstance(st, ast.If):
            body, orelse = list(st.body), list(st.orelse)
            t0, flip = st.test, False
            if isinstance(t0, ast.UnaryOp) and isinstance(t0.op, ast.Not):
                t0, flip = t0.operand, True
            if isinstance(t0, ast.Call) and isinstance(t0.func, ast.Name) and t0.func.id == "isinstance":
                # a test decided by the static type of its argument: only the branch that can run is translated (the
                # other one is dead for every input of the declared type and need not be typeable)
                live = body if self.static_isinstance(t0, defined) != flip else orelse
                return self.block(live + rest, defined, in_loop, ind)
            test = self.test(st, defined)
            ends_continue = in_loop and body and isinstance(body[-1], ast.Continue)
            ends_return = (not in_loop) and body and isinstance(body[-1], ast.Return)
            if ends_continue:
                a, _, _ = self.narrowed(test, lambda: self.block(body[:-1], defined, in_loop, ind + "    "))
                b, d2, kind = self.narrowed(test, lambda: self.block(orelse + rest, defined, in_loop, ind + "    "),
                                            "else")
                return test.wrap(a, b, ind), d2, kind
            if ends_return:
                a, _, _ = self.narrowed(test, lambda: self.block(body, defined, in_loop, ind + "    "))
                b, d2, kind = self.narrowed(test, lambda: self.block(orelse + rest, defined, in_loop, ind + "    "),
                                            "else")
                if kind != "return":
                    raise Untranslatable("a path reaches the end of the function without a return")
                return test.wrap(a, b, ind), d2, "return"
            a, da, ka = self.narrowed(test, lambda: self.block(body, defined, in_loop, ind + "    "))
            b, db, kb = self.narrowed(test, lambda: self.block(orelse, defined, in_loop, ind + "    "), "else")
            if ka != "fall" or kb != "fall":
                raise Untranslatable("return / continue in the middle of a branch")
            term, d2, kind = self.block(rest, da & db, in_loop, ind)
            return f"{ind}let s :=\n{test.wrap(a, b, ind + '  ')}\n{term}", d2, kind
        if isinstance(st, ast.For) and not st.orelse:
            it = st.iter
            self.fresh += 1
            n = self.fresh
            x = f"x{n}"
            saved = dict(self.bound)
            if isinstance(it, ast.Call) and isinstance(it.func, ast.Name) and it.func.id == "enumerate" and \
                    len(it.args) == 1 and isinstance(st.target, ast.Tuple) and len(st.target.elts) == 2:
                xs, txs = self.expr(it.args[0], defined)
                elt = t_arg(txs, "List")
                if elt is None:
                    raise Untranslatable(f"enumerate over {txs}")
                i, v = (t.id for t in st.target.elts)
                self.bound[i] = (f"(Int.ofNat {x}.2)", "Int")
                self.bound[v] = (f"{x}.1", elt)
                xty = f"{lean_type(elt)} × Nat"
                xs = f"{xs}.zipIdx"
            elif isinstance(st.target, ast.Name):
                xs, txs = self.expr(it, defined)
                if txs == "Str":
                    elt = "Char"
                elif t_arg(txs, "List") is not None:
                    elt = t_arg(txs, "List")
                else:
                    raise Untranslatable(f"loop over {txs}")
                self.bound[st.target.id] = (x, elt)
                xty = lean_type(elt)
            else:
                raise Untranslatable(f"loop header {ast.unparse(st.target)} in {ast.unparse(it)}")
            outer = list(self.loopvars)
            self.loopvars.append((x, xty))
            saved_narrow, self.narrow = self.narrow, {}     # match binders are not in scope of the loop definition
            body, dbody, kind = self.block(list(st.body), defined, True, "  ")
            self.narrow = saved_narrow
            self.loopvars.pop()
            if kind != "fall":
                raise Untranslatable("return inside a loop")
            self.bound = saved
            params = " ".join(f"({p} : {lean_type(t)})" for p, t in self.cfg["params"])
            outer_decl = " ".join(f"({a} : {t})" for a, t in outer)
            self.loops.append(f"/-- body of loop {n}: `{ast.unparse(st).splitlines()[0]}` -/\n"
                              f"def loop{n} {params} {outer_decl} (s : St) ({x} : {xty}) : St :=\n{body}\n")
            args = " ".join([p for p, _ in self.cfg["params"]] + [a for a, _ in outer])
            # variables first assigned inside the loop are not definitely assigned after it
            term, d2, kind = self.block(rest, defined, in_loop, ind)
            return f"{ind}let s := {xs}.foldl (loop{n} {args}) s\n{term}", d2, kind
        if isinstance(st, ast.Return) and not in_loop:
            if rest:
                raise Untranslatable("statements after return")
            src = ast.unparse(st.value) if st.value is not None else "None"
            if src in self.cfg["returns"]:
                return f"{ind}{self.cfg['returns'][src]}", defined, "return"
            v, ty = self.expr(st.value, defined)
            if ty != self.cfg["ret_type"]:
                raise Untranslatable(f"return of type {ty}, expected {self.cfg['ret_type']}")
            return f"{ind}{v}", defined, "return"
        raise Untranslatable(f"statement {ast.unparse(st).splitlines()[0]}")


class Test:
    """an `if` test: a Bool term, or a `match` on a path of type Option / List that narrows the path in the body"""

    def __init__(self, kind, c=None, scrut=None, pat=None, narrow=None, negated=False):
        self.kind, self.c, self.scrut, self.pat, self.negated = kind, c, scrut, pat, negated
        # facts known in the `then` branch / in the `else` branch (and, after a guard that leaves, in what follows)
        self.narrow, self.narrow_else = ({}, narrow or {}) if negated else (narrow or {}, {})

    def wrap(self, a: str, b: str, ind: str) -> str:
        """the Lean term `if test then a else b` (`a`, `b` already indented deeper than `ind`)"""
        if self.kind == "bool":
            return f"{ind}if {self.c} then\n{a}\n{ind}else\n{b}"
        if self.negated:             # `if P is None:` / `if not P:` — the roles of the branches are exchanged
            a, b = b, a
        if self.c is not None:       # Option whose content has a truthiness of its own
            a = (f"{ind}    if {self.c} then\n{textwrap.indent(a, '    ')}\n{ind}    else\n"
                 f"{textwrap.indent(b, '    ')}")
        empty = "none" if self.kind == "option" else "[]"
        return f"{ind}(match {self.scrut} with\n{ind}| {empty} =>\n{b}\n{ind}| {self.pat} =>\n{a})"


def t_app(ctor: str, arg: str) -> str:
    return f"{ctor} {arg}" if " " not in arg else f"{ctor} ({arg})"


def t_arg(t: str, ctor: str):
    """the argument of the type application `ctor X` (None when `t` is not one)"""
    if not t.startswith(ctor + " "):
        return None
    inner = t[len(ctor) + 1:].strip()
    if inner.startswith("("):
        depth = 0
        for i, ch in enumerate(inner):
            depth += ch == "("
            depth -= ch == ")"
            if depth == 0:
                break
        if i == len(inner) - 1:
            inner = inner[1:-1].strip()
    return inner


def lean_type(t: str) -> str:
    for ctor in ("List", "Option"):
        a = t_arg(t, ctor)
        if a is not None:
            return t_app(ctor, lean_type(a))
    return {"Str": "List Nat", "Char": "Nat"}.get(t, t)


def find_function(cfg) -> ast.FunctionDef:
    tree = ast.parse((repo_src() / cfg["file"]).read_text())
    for n in tree.body:
        if isinstance(n, ast.ClassDef) and n.name == cfg["cls"]:
            for m in n.body:
                if isinstance(m, ast.FunctionDef) and m.name == cfg["func"]:
                    return m
    raise Untranslatable(f"{cfg['cls']}.{cfg['func']} not found in {cfg['file']}")


def record_fields(file: str, cls: str):
    """int / bool fields of a pydantic model class, in declaration order"""
    tree = ast.parse((repo_src() / file).read_text())
    for n in tree.body:
        if isinstance(n, ast.ClassDef) and n.name == cls:
            out = []
            for m in n.body:
                if isinstance(m, ast.AnnAssign) and isinstance(m.target, ast.Name) and isinstance(m.annotation, ast.Name) \
                        and m.annotation.id in ("int", "bool"):
                    out.append((m.target.id, "Int" if m.annotation.id == "int" else "Bool"))
            if out:
                return out
    raise Untranslatable(f"class {cls} with int / bool fields not found in {file}")


def check_classes(cfg):
    """the configured record types against the imported classes: declared field types, default truthiness"""
    import importlib

    for mod, cls, fields in cfg.get("classes", []):
        try:
            c = getattr(importlib.import_module(mod), cls)
            got = {f: str(c.model_fields[f].annotation) for f in fields}
        except Exception as e:  # noqa: BLE001
            raise Untranslatable(f"class {mod}.{cls}: {type(e).__name__}: {e}") from e
        if got != fields:
            raise Untranslatable(f"class {mod}.{cls} declares {got}, the translation assumes {fields}")
        if any(hasattr(c, m) for m in ("__bool__", "__len__")):
            raise Untranslatable(f"class {mod}.{cls} defines its own truthiness")


def translate(cfg) -> str:
    cfg = dict(cfg, records=dict(cfg["records"]))
    check_classes(cfg)
    for rn, (file, cls) in (cfg.get("records_from") or {}).items():
        cfg["records"][rn] = record_fields(file, cls)
    node = find_function(cfg)
    got = [a.arg for a in node.args.args]
    want = cfg["skip_params"] + [p for p, _ in cfg["params"] if p in got]
    if sorted(got) != sorted(set(want)) or node.args.vararg or node.args.kwarg or node.args.kwonlyargs:
        raise Untranslatable(f"signature changed: {got}")
    fn = Fn(cfg, node)
    body, _, kind = fn.block(list(node.body), set(), False, "  ")
    if kind != "return":
        raise Untranslatable("a path reaches the end of the function without a return")
    lines = [f"import Generated.PyPrelude",
             "/-! GENERATED by harness/pytranslate.py from",
             f"`/repo/src/rtflite/{cfg['file']}` — `{cfg['cls']}.{cfg['func']}`.  Do not edit.",
             "",
             cfg["doc"],
             "",
             "Source translated:",
             "```python",
             textwrap.indent(ast.unparse(node), "  "),
             "```",
             "-/",
             "set_option linter.unusedVariables false",
             f"namespace Generated.Py.{cfg['name']}", ""]
    for rn, fields in cfg["records"].items():
        lines.append(f"structure {rn} where")
        lines += [f"  {f} : {lean_type(t)}" for f, t in fields]
        lines += ["  deriving Repr, Inhabited, DecidableEq", ""]
    lines.append("/-- the function's local variables (defaults are never read: definite assignment is checked) -/")
    lines.append("structure St where")
    if not fn.vars:
        lines.append("  unit : Unit := ()")
    for v, t in fn.vars.items():
        lt = lean_type(t)
        lines.append(f"  {v} : {lt} := {DEFAULT.get(t, '[]')}")
    lines += ["  deriving Repr, Inhabited", ""]
    lines += fn.loops
    params = " ".join(f"({p} : {lean_type(t)})" for p, t in cfg["params"])
    lines.append(f"def run {params} : {lean_type(cfg['ret_type'])} :=")
    lines.append("  let s : St := {}")
    lines.append(body)
    lines += ["", f"end Generated.Py.{cfg['name']}", ""]
    return "\n".join(lines)


PRELUDE = '''import Model.Escape
/-! GENERATED by harness/pytranslate.py (fixed text): the few Python built-ins the translated functions use. -/
namespace Generated.Py

/-- `str(i)` / `f"{i}"` for an `int`, as code points (checked against Python by C10's correspondence) -/
def strOfInt (i : Int) : List Nat := Model.Escape.intRepr i

end Generated.Py
'''


def generate(out_dir: Path = OUT) -> dict:
    out_dir.mkdir(parents=True, exist_ok=True)
    (out_dir / "PyPrelude.lean").write_text(PRELUDE)
    status = {}
    for cfg in TARGETS:
        path = out_dir / f"Py{cfg['name']}.lean"
        try:
            text = translate(cfg)
            status[cfg["name"]] = dict(ok=True, func=f"{cfg['cls']}.{cfg['func']}", file=cfg["file"])
        except Untranslatable as e:
            text = (f"/-! GENERATED by harness/pytranslate.py: `{cfg['cls']}.{cfg['func']}` is outside the translated "
                    f"subset:\n{e}\n-/\nnamespace Generated.Py.{cfg['name']}\ndef untranslatable : Bool := true\n"
                    f"end Generated.Py.{cfg['name']}\n")
            status[cfg["name"]] = dict(ok=False, func=f"{cfg['cls']}.{cfg['func']}", file=cfg["file"], why=str(e))
        if not path.exists() or path.read_text() != text:
            path.write_text(text)
    (out_dir / "py_status.json").write_text(json.dumps(status, indent=1))
    return status


if __name__ == "__main__":
    print(json.dumps(generate(), indent=1))
